import LasioModel.Views
namespace Lasio
theorem toNat_ofNat_valid (n : Nat) (hv : n.isValidChar) : (Char.ofNat n).toNat = n := by
  unfold Char.ofNat
  simp only [hv, dite_true]
  simp [Char.ofNatAux, Char.toNat]

def upperN (n : Nat) : Nat :=
  if 0x61 ≤ n && n ≤ 0x7A then n - 0x20
  else if 0xE0 ≤ n && n ≤ 0xFE && n != 0xF7 then n - 0x20
  else if 0x430 ≤ n && n ≤ 0x44F then n - 0x20
  else if 0x450 ≤ n && n ≤ 0x45F then n - 0x50
  else if 0x3B1 ≤ n && n ≤ 0x3C9 && n != 0x3C2 then n - 0x20
  else n

theorem upperC_eq (c : Char) : upperC c = Char.ofNat (upperN c.toNat) := by
  unfold upperC upperN
  dsimp only
  repeat' split
  all_goals first | rfl | simp

theorem upperN_idem (n : Nat) : upperN (upperN n) = upperN n := by
  unfold upperN
  simp only [Bool.and_eq_true, decide_eq_true_eq, bne_iff_ne, ne_eq]
  repeat' split
  all_goals omega

theorem upperN_valid (n : Nat) (h : n.isValidChar) : (upperN n).isValidChar := by
  unfold upperN
  simp only [Bool.and_eq_true, decide_eq_true_eq, bne_iff_ne, ne_eq]
  unfold Nat.isValidChar at *
  repeat' split
  all_goals omega

theorem upperC_idem (c : Char) : upperC (upperC c) = upperC c := by
  rw [upperC_eq (upperC c), upperC_eq c, toNat_ofNat_valid _ (upperN_valid _ c.valid), upperN_idem]
end Lasio
