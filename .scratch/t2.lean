import Mathlib.Tactic.Ring
import Mathlib.Tactic.FieldSimp
import Mathlib.Tactic.NormNum
import LasioModel.Views
open Lasio
example (x : Rat) : x = x / (381/1250) * (381/1250) := by field_simp
example (x : Rat) : x / 120 * (381/1250) = x / 120 * (381/1250) := by ring
#check @List.mem_eraseDups
