import LasioModel.Basic
import LasioModel.Generated
open Lasio
example : (Generated.depthUnits.map (fun r => (r.1.toList, r.2.map String.toList))).length = 3 := by decide
example : upper "метер".toList = "МЕТЕР".toList := by decide
example : upper "метер".toList = "МЕТЕР".toList := by decide +kernel
#check @Char.toNat_ofNat
#check Rat
#eval (381/1250 : Rat)
example : ((Generated.depthUnits.map (fun r => (r.1.toList, r.2.map String.toList))).all fun r => r.2.all fun p => upper (upper p) == upper p) = true := by decide +kernel
