import LasioModel.Views
import LasioProofs.Lemmas.ViewsLemmas
namespace Lasio
theorem length_csvDecorate (a b : Char) (ms us : List Str) :
    (csvDecorate a b ms us).length = min ms.length us.length := by
  simp [csvDecorate]

theorem csvMnemonicRow_eq (o : CsvOpts) (origs units : List Str) :
    csvMnemonicRow o origs units =
      if (o.mnemonics.resolve origs).isEmpty then none
      else match o.unitsLoc.brackets with
        | some (a, b) => if (o.units.resolve units).isEmpty then some (o.mnemonics.resolve origs)
                         else some (csvDecorate a b (o.mnemonics.resolve origs) (o.units.resolve units))
        | none => some (o.mnemonics.resolve origs) := rfl

theorem csvUnitRow_eq (o : CsvOpts) (units : List Str) :
    csvUnitRow o units =
      if (o.units.resolve units).isEmpty then none
      else if o.unitsLoc = .line then some (o.units.resolve units) else none := rfl

theorem csvMnemonicRow_some (o : CsvOpts) (origs units r : List Str) (h : csvMnemonicRow o origs units = some r) :
    r = o.mnemonics.resolve origs ∨
      ∃ a b, r = csvDecorate a b (o.mnemonics.resolve origs) (o.units.resolve units) := by
  rw [csvMnemonicRow_eq] at h
  by_cases he : (o.mnemonics.resolve origs).isEmpty = true
  · rw [if_pos he] at h; cases h
  · rw [if_neg he] at h
    cases hb : o.unitsLoc.brackets with
    | none => rw [hb] at h; cases h; exact Or.inl rfl
    | some ab =>
      obtain ⟨a, b⟩ := ab
      rw [hb] at h
      by_cases hu : (o.units.resolve units).isEmpty = true
      · simp only [hu, if_true] at h; cases h; exact Or.inl rfl
      · simp only [hu] at h; cases h; exact Or.inr ⟨a, b, rfl⟩

theorem csvUnitRow_some (o : CsvOpts) (units r : List Str) (h : csvUnitRow o units = some r) :
    r = o.units.resolve units ∧ o.unitsLoc = .line := by
  rw [csvUnitRow_eq] at h
  by_cases he : (o.units.resolve units).isEmpty = true
  · rw [if_pos he] at h; cases h
  · rw [if_neg he] at h
    by_cases hl : o.unitsLoc = .line
    · rw [if_pos hl] at h; cases h; exact ⟨rfl, hl⟩
    · rw [if_neg hl] at h; cases h
end Lasio
