"""Shared driver for SectionItems operation sequences (C13, C15): runs the real class and builds model requests."""
import itertools

NAMES = ["A", "a", "", " ", "A:1", "B", "1"]
KEYS = ["A", "a", " A", "A:1", "A:2", "UNKNOWN", "B", "1", 0, 1, -1, 5]


def alphabet():
    ops = [["append", n] for n in NAMES]
    ops += [["insert", i, n] for i in (0, 1, -1) for n in ("A", "")]
    ops += [["del", k] for k in KEYS]
    ops += [["setitem", k, n] for k in ("A", "A:1", "B") for n in ("A", "B")]
    ops += [["setval", k] for k in ("A", "A:2", 0)]
    ops += [["get", m, add] for m in ("A", "Q", "") for add in (False, True)]
    ops += [["pop", i] for i in (0, -1, 3)]
    ops += [["getdef", m, src, add] for m in ("Q", "a") for src in ("A", 0) for add in (False, True)]
    ops += [["setattr", k] for k in ("A", "a", "B", "Q")]
    ops += [["slice", a, b, c] for a, b, c in ((1, None, 1), (None, None, -1), (None, None, 2), (-2, None, 1), (0, 2, 1), (5, 1, -2))]
    return ops


def with_values(seq):
    """attach a fresh value tag to every op that carries a value"""
    out = []
    for c, op in enumerate(seq, 1):
        v = "v%d" % c
        if op[0] == "append":
            out.append(["append", op[1], v])
        elif op[0] == "insert":
            out.append(["insert", op[1], op[2], v])
        elif op[0] == "setitem":
            out.append(["setitem", op[1], op[2], v])
        elif op[0] == "setval":
            # every third one a plain value that is not a str / int / float (they all go to the item's VALUE, none is an item)
            out.append(["setval", op[1], v if c % 3 else TYPED_KEYS[(c // 3) % len(TYPED_KEYS)]])
        elif op[0] == "get":
            out.append(["get", op[1], v, op[2]])
        elif op[0] == "setattr":
            out.append(["setattr", op[1], v])
        else:
            out.append(list(op))
    return out


TYPED_KEYS = ["@none", "@npint", "@npf32", "@list", "@tuple", "@bytes", "@bool"]


def typed_value(v):
    """the value a `setval` op assigns: the tag itself, or the object a typed tag stands for"""
    if not (isinstance(v, str) and v.startswith("@")):
        return v
    import numpy as np
    return {"@none": None, "@npint": np.int64(7), "@npf32": np.float32(1.5), "@list": [1, 2], "@tuple": (1, 2), "@bytes": b"x", "@bool": True}[v]


def model_seq(seq):
    """the sequence as the model sees it: a typed value is the text str() gives for it (what the dump compares)"""
    return [[op[0], op[1], str(typed_value(op[2]))] if op[0] == "setval" else op for op in seq]


def dump(sec):
    return [[i.original_mnemonic, i.mnemonic, str(i.value)] for i in sec]


def probe(sec, k):
    try:
        c = k in sec
    except Exception as e:
        c = type(e).__name__
    try:
        it = sec[k]
        g = [j for j, x in enumerate(list.__iter__(sec)) if x is it][0]
    except KeyError:
        g = "KeyError"
    except IndexError:
        g = "IndexError"
    return [c, g]


def apply_real(sec, op):
    from lasio import HeaderItem
    try:
        if op[0] == "append":
            sec.append(HeaderItem(op[1], value=op[2]))
        elif op[0] == "insert":
            sec.insert(op[1], HeaderItem(op[2], value=op[3]))
        elif op[0] == "del":
            del sec[op[1]]
        elif op[0] == "pop":
            sec.pop(op[1])
        elif op[0] == "setitem":
            sec[op[1]] = HeaderItem(op[2], value=op[3])
        elif op[0] == "setval":
            sec[op[1]] = typed_value(op[2])
        elif op[0] == "get":
            it = sec.get(op[1], default=op[2], add=op[3])
            return [it.original_mnemonic, it.mnemonic, str(it.value)]
        elif op[0] == "getdef":
            try:
                d = sec[op[2]]
            except (KeyError, IndexError):
                return "skipped"
            it = sec.get(op[1], default=d, add=op[3])
            return [it.original_mnemonic, it.mnemonic, str(it.value)]
        elif op[0] == "setattr":
            setattr(sec, op[1], op[2])
        elif op[0] == "slice":
            sub = sec[slice(op[1], op[2], op[3])]
            mine = list(list.__iter__(sec))
            return [next(j for j, x in enumerate(mine) if x is y) for y in list.__iter__(sub)]
        return "ok"
    except KeyError:
        return "KeyError"
    except IndexError:
        return "IndexError"


def new_section(tr):
    from lasio import SectionItems
    sec = SectionItems()
    if tr:
        sec.mnemonic_transforms = True
    return sec


def run_real(seq, tr, probes):
    sec = new_section(tr)
    out = []
    for op in seq:
        r = apply_real(sec, op)
        out.append({"r": r, "items": dump(sec), "probes": [probe(sec, k) for k in probes]})
    return out


def request(seq, tr, probes):
    return {"op": "sec", "tr": tr, "ops": model_seq(seq), "probes": probes}


def sequences(run, quick_len, thorough_len, n_random_quick, n_random_thorough, maxlen=9):
    ops = alphabet()
    L = quick_len if run.tier == "quick" else thorough_len
    for n in range(1, L + 1):
        for seq in itertools.product(ops, repeat=n):
            yield with_values(seq), "exhaustive"
    nrand = n_random_quick if run.tier == "quick" else n_random_thorough
    for _ in range(nrand):
        n = run.rng.randint(L + 1, maxlen)
        # bias towards growth so that long sequences keep non-trivial sections
        seq = [run.rng.choice(ops[:13]) if run.rng.random() < 0.45 else run.rng.choice(ops) for _ in range(n)]
        yield with_values(seq), "random"
