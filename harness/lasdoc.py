"""LAS document generator with provenance tags + canonical dumps of a real LASFile (shared by C05, C19).

A document is a list of sections; every generated line carries a TAG "<sec>q<j>" naming its section of origin:
item lines   `M<tag>.UNIT  v<tag> : from-<L>-<tag>`   (mnemonic, value and description all carry the tag)
~O lines     `other-<tag>`
data cells   row r, column c -> r*100 + c + 0.25 (so a cell encodes its row and column)
All randomness comes from the `rng` passed in.
"""
import io
import math
import re

STEERING = ("VERS", "WRAP", "NULL", "DLM")
STD_KEYS = ("Version", "Well", "Curves", "Parameter", "Other")

TITLES = {
    "V": ["~V", "~Version", "~VERSION INFORMATION", "~Version Information Section", "~v", "~version information", "~V ------", "~VERSION_INFORMATION"],
    "W": ["~W", "~Well", "~WELL INFORMATION BLOCK", "~Well Information", "~w", "~well information", "~W ------ well", "~Well_Information_Block"],
    "C": ["~C", "~Curve", "~CURVE INFORMATION", "~Curve Information Block", "~c", "~curve information", "~C ---- curves"],
    "P": ["~P", "~Parameter", "~PARAMETER INFORMATION", "~Params", "~p", "~parameter information block", "~P ---- params"],
    "O": ["~O", "~Other", "~OTHER INFORMATION", "~Other Information Section", "~o", "~other", "~O ---- remarks"],
    "A": ["~A", "~ASCII", "~ASCII LOG DATA", "~Ascii", "~a", "~ascii log data", "~A  DEPT  C1  C2"],
}
CUSTOM_TITLES = ["~TOOL_DATA", "~core_data", "~Run_DATA summary", "~Tops", "~T", "~tops", "~X custom section", "~Zones", "~z", "~Remarks extra", "~R", "~Bit record", "~b",
                 "~Mud", "~m", "~Inclinometry", "~i", "~Drilling", "~d", "~Equipment", "~e", "~TOPS", "~XTRA", "~Q1", "~q 2"]
UNITS = ["", "M", "FT", "US/F", "G/C3", "K/M3", "OHMM", "%", "1000 lbf", "[M]", "(FT)"]


# --------------------------------------------------------------------------------------------- alphabet Σ of the model
def _upper_c(o):
    if 0x61 <= o <= 0x7A:
        return o - 0x20
    if 0xE0 <= o <= 0xFE and o != 0xF7:
        return o - 0x20
    if 0x430 <= o <= 0x44F:
        return o - 0x20
    if 0x450 <= o <= 0x45F:
        return o - 0x50
    if 0x3B1 <= o <= 0x3C9 and o != 0x3C2:
        return o - 0x20
    return o


def _lower_c(o):
    if 0x41 <= o <= 0x5A:
        return o + 0x20
    if 0xC0 <= o <= 0xDE and o != 0xD7:
        return o + 0x20
    if 0x410 <= o <= 0x42F:
        return o + 0x20
    if 0x400 <= o <= 0x40F:
        return o + 0x50
    if 0x391 <= o <= 0x3A9 and o != 0x3A2:
        return o + 0x20
    return o


def _is_space(o):
    return (0x09 <= o <= 0x0D) or (0x1C <= o <= 0x20) or o in (0x85, 0xA0, 0x1680, 0x2028, 0x2029, 0x202F, 0x205F, 0x3000) \
        or (0x2000 <= o <= 0x200A)


_sigma_cache = {}


def char_in_sigma(c):
    """the model's upperC / lowerC / isPySpace (LasioModel/Basic.lean, mirrored above) agree with Python on this character"""
    r = _sigma_cache.get(c)
    if r is None:
        o = ord(c)
        r = (c.upper() == chr(_upper_c(o)) and c.lower() == chr(_lower_c(o)) and c.isspace() == _is_space(o)
             and o != 0x3A3 and not (0xD800 <= o <= 0xDFFF))
        _sigma_cache[c] = r
    return r


def in_sigma(text):
    return all(char_in_sigma(c) for c in set(text))


# --------------------------------------------------------------------------------------------- documents
class Sec(dict):
    """kind: V W C P O A X ; title ; body: list of (text, tag or None, role) ; role in item/other/data/blank/comment/planted/junk"""
    __getattr__ = dict.__getitem__


def item_line(rng, mn, unit, value, descr, tight=False):
    p = (lambda: "") if tight else (lambda: rng.choice(["", " ", "  ", "   ", "\t"]))
    v = (" " + p() + value) if value else p()
    if unit.isdigit():
        v = "  " + v
    return "%s%s.%s%s%s:%s%s%s" % (p(), mn, unit, v, " " + p(), " " + p(), descr, p())


def filler(rng):
    return rng.choice([("", "blank"), ("   ", "blank"), ("\t", "blank"), ("# a comment", "comment"), ("#", "comment"),
                       ("  # indented comment ~A", "comment"), ("#~W not a title", "comment")])


def with_fillers(rng, lines, p=0.35):
    """blank / comment lines at the boundary positions (first, last, only) and sometimes in between"""
    out = list(lines)
    if rng.random() < p:
        out.insert(0, filler(rng) + (None,))
    if rng.random() < p:
        out.append(filler(rng) + (None,))
    if len(out) > 2 and rng.random() < p / 2:
        out.insert(rng.randrange(1, len(out)), filler(rng) + (None,))
    return [(t, r, tag) for (t, r, tag) in out]


def gen_doc(rng, max_custom=3, allow_data=True, dlm=None, vers=None, wrap=None, spell=None, fill=0.35, n_items=(0, 4)):
    """sections: ~V first, then a permutation of ~W ~C ~P ~O + custom sections, ~A anywhere after ~V"""
    def title(kind):
        ts = TITLES[kind]
        return ts[spell % len(ts)] if spell is not None else rng.choice(ts)
    vers = vers or rng.choice(["2.0", "2.0", "2.0", "1.2", "2", "2.00", "1.20"])
    wrap = wrap or rng.choice(["NO", "NO", "NO", "YES", None])
    dlm = dlm if dlm is not None else rng.choice([None] * 8 + ["SPACE", "COMMA", "TAB"])
    ncurves = rng.randint(1, 4)
    nrows = rng.randint(0, 4) if rng.random() < 0.9 else rng.randint(5, 30)
    null = rng.choice(["-999.25", "-9999", "-999.25", "9999.25", None])
    secs = []
    sid = [0]

    def new(kind, ttl):
        sid[0] += 1
        if rng.random() < 0.12:      # an indented title line (titles are recognised after stripping)
            ttl = rng.choice([" ", "  ", "\t", "   "]) + ttl
        return Sec(kind=kind, title=ttl, id=sid[0], body=[])

    def tagged_items(s, letter, n):
        out = []
        for j in range(n):
            tag = "%dq%d" % (s.id, j)
            # (outside ~Parameter the LAST colon of a line ends the value: values may hold colons of their own)
            extra = rng.choice(["", "", "", "", " : 3", ":30", " :x", ": y", " : a : b"]) if letter != "P" else ""
            ff = "\x0cp.2" if rng.random() < 0.04 else ""
            out.append((item_line(rng, "M" + tag, rng.choice(UNITS), "v" + tag + extra, "from-%s-%s" % (letter, tag) + ff), "item", tag))
        return out
    v = new("V", title("V"))
    lines = [(item_line(rng, "VERS", "", vers, "CWLS LOG ASCII STANDARD - VERSION " + vers), "steer", None)]
    if wrap:
        lines.append((item_line(rng, "WRAP", "", wrap, "one line per depth step"), "steer", None))
    if dlm:
        lines.append((item_line(rng, "DLM", "", dlm, "delimiter"), "steer", None))
    lines += tagged_items(v, "V", rng.randint(0, 2))
    v["body"] = with_fillers(rng, lines, fill)
    secs.append(v)
    rest = []
    w = new("W", title("W"))
    lines = []
    if rng.random() < 0.8:
        lines += [(item_line(rng, "STRT", "M", "0.25", "start"), "std", None), (item_line(rng, "STOP", "M", "%d.25" % (100 * max(nrows - 1, 0)), "stop"), "std", None),
                  (item_line(rng, "STEP", "M", "100", "step"), "std", None)]
    if null:
        lines.append((item_line(rng, "NULL", "", null, "null value"), "steer", None))
    lines += tagged_items(w, "W", rng.randint(*n_items))
    rng.shuffle(lines)
    w["body"] = with_fillers(rng, lines, fill)
    rest.append(w)
    c = new("C", title("C"))
    lines = []
    for j in range(ncurves):
        tag = "%dq%d" % (c.id, j)
        lines.append((item_line(rng, "M" + tag, rng.choice(UNITS[:8]), "v" + tag, "from-C-" + tag), "item", tag))
    c["body"] = with_fillers(rng, lines, fill)
    if rng.random() < 0.95:
        rest.append(c)
    else:
        ncurves = rng.randint(1, 4)
    if rng.random() < 0.8:
        p = new("P", title("P"))
        p["body"] = with_fillers(rng, tagged_items(p, "P", rng.randint(*n_items)), fill)
        rest.append(p)
    if rng.random() < 0.7:
        o = new("O", title("O"))
        lines = []
        for j in range(rng.randint(0, 3)):
            tag = "%dq%d" % (o.id, j)
            # (a form feed inside a line — a page break of a printed remark — is white space, not a line end)
            lines.append((rng.choice(["other-%s", "  other-%s  ", "other-%s : with . colon", "VERS. 1.2 : other-%s", "other-%s # x",
                                      "other-%s\x0cnext page", "page\x0cother-%s", "# other-%s", "#other-%s : x"]) % tag, "other", tag))
        if rng.random() < fill:
            lines.insert(rng.randint(0, len(lines)), ("", "blank", None))
        o["body"] = lines
        rest.append(o)
    customs = rng.sample(CUSTOM_TITLES, rng.randint(0, max_custom))
    seen = set()
    for t in customs:
        if t[1:] in seen:
            continue
        seen.add(t[1:])
        x = new("X", t)
        x["body"] = with_fillers(rng, tagged_items(x, "X", rng.randint(*n_items)), fill)
        rest.append(x)
    rng.shuffle(rest)
    if allow_data and rng.random() < 0.9:
        a = new("A", title("A"))
        sep = {"COMMA": ",", "TAB": "\t"}.get(dlm, None)
        rows = []
        nullcells = set()
        for r in range(nrows):
            cells = []
            for k in range(ncurves):
                if null and k > 0 and rng.random() < 0.1:
                    cells.append(null)
                    nullcells.add((r, k))
                else:
                    cells.append("%d.25" % (r * 100 + k))
            if sep:
                rows.append((sep.join(cells), "data", r))
            else:
                rows.append((rng.choice(["", " ", "   "]) + rng.choice([" ", "  ", "    "]).join(cells) + rng.choice(["", " "]), "data", r))
        if rows and rng.random() < fill / 2 and not sep:
            rows.insert(rng.randint(0, len(rows)), rng.choice([("", "blank", None), ("# comment in data", "comment", None)]))
        a["body"] = rows
        a["ncols"] = ncurves
        a["nrows"] = nrows
        a["nullcells"] = sorted(nullcells)
        rest.insert(rng.randint(0, len(rest)), a)
    return secs + rest


def render(secs, eol="\n", final_newline=True):
    lines = []
    for s in secs:
        lines.append(s["title"])
        lines += [b[0] for b in s["body"]]
    text = eol.join(lines)
    # an empty last line without terminator would not exist as a line at all
    return text + (eol if (final_newline or (lines and lines[-1] == "")) else "")


def line_number(secs, sec_index, body_index):
    """1-based line number of a body line"""
    n = 0
    for i, s in enumerate(secs):
        if i == sec_index:
            return n + 1 + body_index + 1
        n += 1 + len(s["body"])
    raise IndexError


def route_key(sec):
    k = sec["kind"]
    return {"V": "Version", "W": "Well", "C": "Curves", "P": "Parameter", "O": "Other", "A": "~A"}.get(k, sec["title"].strip()[1:])


def expected_tags(secs):
    """{section key: sorted list of tags} for every header section of the document"""
    out = {}
    for s in secs:
        if s["kind"] == "A":
            continue
        out[route_key(s)] = sorted(b[2] for b in s["body"] if b[2] is not None and b[1] in ("item", "other"))
    return out


TAG = re.compile(r"(\d+[qQ]\d+)")


def found_tags(dump):
    """tags found in a full dump, per section key; an item must carry the same tag in mnemonic, value and description"""
    out = {}
    problems = []
    for key, val in dump["sections"].items():
        tags = []
        if isinstance(val, str):
            for ln in val.split("\n"):
                tags += [t.lower() for t in TAG.findall(ln)]
        else:
            for (mn, unit, value, descr) in val:
                ts = [TAG.findall(mn), TAG.findall(str(value)), TAG.findall(descr)]
                flat = [t.lower() for x in ts for t in x]
                if flat:
                    if not (len(flat) == 3 and ts[0] and len(set(flat)) == 1):
                        problems.append((key, mn, unit, value, descr))
                    tags.append(flat[0])
        out[key] = sorted(tags)
    return out, problems


def expected_data(secs):
    """list of columns (floats, nan for NULL cells) or None when the document has no ~A section"""
    for s in secs:
        if s["kind"] == "A":
            cols = []
            for k in range(s["ncols"]):
                cols.append([float("nan") if [r, k] in [list(x) for x in s["nullcells"]] else r * 100 + k + 0.25 for r in range(s["nrows"])])
            return cols
    return None


# --------------------------------------------------------------------------------------------- canonical dumps of the real code
def canon_val(v):
    import numpy as np
    if isinstance(v, (bool, np.bool_)):
        return ["b", bool(v)]
    if isinstance(v, (np.integer, int)):
        return ["i", int(v)]
    if isinstance(v, (np.floating, float)):
        f = float(v)
        return ["f", "nan" if math.isnan(f) else f.hex()]
    if isinstance(v, str):
        return ["s", v]
    return ["?", repr(v)]


def real_sections_scan(text):
    """find_sections_in_file + determine_section_type of the real reader: [[first, last, title, kind]]"""
    from lasio import reader
    kinds = {"Header items": "items", "Header (other)": "other", "Data": "data", "Las3_Data": "las3data"}
    return [[a, b, t, kinds[reader.determine_section_type(t)]] for (_, a, b, t) in reader.find_sections_in_file(io.StringIO(text))]


def split_lines(text):
    """the lines `readline` returns"""
    return io.StringIO(text).readlines()


def file_ref(text):
    """what to hand to lasio.read so that `open_file` treats `text` as LAS data (a one-line string would be a file name)"""
    return text if len(text.splitlines()) > 1 else io.StringIO(text)


def canon_header(las, defaults=None, text=None):
    """the JSON shape of the model answer {"sections": [[key, items|text]...], "steer": [...], "data": [...]} from a real LASFile.
    `defaults`: {key: object} snapshot of las.sections taken before read() -> only the keys replaced by read are dumped
    (for "Other", a str, identity cannot tell: it is dumped when it is not empty). Item values are canonical [type, value]."""
    secs = []
    for k, v in las.sections.items():
        if defaults is not None and k in defaults:
            if isinstance(v, str):
                if v == "" and isinstance(defaults[k], str):
                    continue
            elif v is defaults[k]:
                continue
        if isinstance(v, str):
            secs.append([k, v])
        else:
            secs.append([k, [[i.original_mnemonic, i.unit, canon_val(i.value), i.descr] for i in list.__iter__(v)]])
    out = {"sections": secs, "steer": None}
    if text is not None:
        scan = real_sections_scan(text)
        data = [[a, b, t] for a, b, t, k in scan if k == "data"]
        out["data"] = data or [[a, b, t] for a, b, t, k in scan if k == "las3data"]
    return out


def read_real_header(text, ignore=False, case="upper"):
    """lasio.read(text, ignore_data=True, …) -> {"ok": canon} | {"err": [...]}"""
    import lasio
    import sys
    las = lasio.LASFile()
    defaults = dict(las.sections)
    code = lasio.LASFile.read.__code__
    seen = {}

    def prof(frame, event, arg):
        # the steering variables are locals of LASFile.read: observed (not modified) when the frame returns
        if event == "return" and frame.f_code is code:
            loc = frame.f_locals
            seen["steer"] = [canon_val(loc.get(k)) if loc.get(k) is not None else None for k in
                             ("provisional_version", "provisional_wrapped", "provisional_null", "provisional_delimiter")]
    try:
        sys.setprofile(prof)
        try:
            las.read(file_ref(text), ignore_data=True, ignore_header_errors=ignore, mnemonic_case=case)
        finally:
            sys.setprofile(None)
    except lasio.exceptions.LASHeaderError as e:
        m = re.match(r"Line (\d+)", str(e))
        return {"err": ["HeaderError", int(m.group(1))]}
    except KeyError as e:
        if "No ~ sections found" in str(e):
            return {"err": ["NoSections"]}
        return {"err": ["KeyError"]}
    except IOError:
        return {"err": ["LASF"]}
    except Exception as e:
        return {"err": [type(e).__name__]}
    out = canon_header(las, defaults, text)
    out["steer"] = seen.get("steer")
    return {"ok": out}


def num_real(raw):
    from lasio.reader import SectionParser
    return SectionParser("~W").num(raw)


def value_matches(raw, real):
    """real item value vs the model's raw text: equal text, or num(raw) equal in type and value"""
    if real[0] == "s":
        return raw == real[1]
    return canon_val(num_real(raw)) == real


def header_diff(model, real):
    """None when the model answer equals the canonical real answer, else a short description"""
    if model == "unmodelled":
        return None
    if ("err" in model) or ("err" in real):
        return None if model == real else "outcome"
    m, r = model["ok"], real["ok"]
    if [k for k, _ in m["sections"]] != [k for k, _ in r["sections"]]:
        # "Other" assigned with empty text is indistinguishable from the default in the real object
        mk = [k for k, v in m["sections"] if not (k == "Other" and v == "")]
        if mk != [k for k, _ in r["sections"]]:
            return "keys"
    rd = dict((k, v) for k, v in r["sections"])
    for k, v in m["sections"]:
        if k == "Other" and v == "" and k not in rd:
            continue
        rv = rd[k]
        if isinstance(v, str) or isinstance(rv, str):
            if v != rv:
                return "text:" + k
            continue
        if len(v) != len(rv):
            return "count:" + k
        for a, b in zip(v, rv):
            if a[0] != b[0] or a[1] != b[1] or a[3] != b[3] or not value_matches(a[2], b[2]):
                return "item:" + k
    if m["data"] != r["data"]:
        return "data-windows"
    if r.get("steer") is not None:
        # the real steering variables (locals of read(), observed at return) vs the model's raw texts; None = still the default
        defaults = [["f", (2.0).hex()], ["s", "YES"], None, ["s", "SPACE"]]
        for a, b, d in zip(m["steer"], r["steer"], defaults):
            if a is None:
                if b != d:
                    return "steer"
            elif b is None or not value_matches(a, b):
                return "steer"
    return None


def dump_full(las):
    """canonical dump of a fully read LASFile: every section (dict by key) and the curve data"""
    secs = {}
    for k, v in las.sections.items():
        if isinstance(v, str):
            secs[k] = v
        else:
            secs[k] = [[i.original_mnemonic, i.unit, canon_val(i.value)[1], i.descr] for i in list.__iter__(v)]
    data = []
    for c in las.curves:
        d = c.data
        vals = None
        if d is not None and getattr(d, "shape", None) != ():
            vals = [canon_val(x)[1] for x in d.tolist()] if d.dtype.kind == "f" else ["s:" + str(x) for x in d.tolist()]
        data.append([c.original_mnemonic, vals])
    return {"sections": secs, "data": data}


def read_full(text, **kw):
    import lasio
    try:
        return {"ok": dump_full(lasio.read(file_ref(text), **kw))}
    except Exception as e:
        return {"err": [type(e).__name__, str(e)[:300]]}
