"""Generators of numeric matrices and writer option records (used by C01 and by other data-path properties).

Everything is driven by a `random.Random` passed in by the caller (run.rng).  Floats travel to the Lean driver EXACTLY,
as `[neg, "<m>", e]` meaning (-1)^neg * m * 2^e, or "nan" / "inf" / "-inf"; in cases/replays they are `float.hex()` text.
"""
import math
import re
import struct

NAN = float("nan")
SPECIALS = [0.0, -0.0, 1.0, -1.0, 0.5, 1.5, 2.5, -2.5, 0.125, -0.375, 1e-7, -1e-7, 1e22, -1e22, 1e308, -1e308,
            1.7976931348623157e308, 5e-324, -5e-324, 2.2250738585072014e-308, 2.225073858507201e-308, 9007199254740993.0,
            123456789.123456789, 0.1, 0.2, 0.3, 99999.999995, 9.999995, 0.999999999999, -999.25, -999.0, 999.25]


# ---------------------------------------------------------------- float <-> exact encodings
def enc(x):
    """cell encoding understood by the driver ops dw.*"""
    if isinstance(x, str):
        x = float.fromhex(x) if x not in ("nan", "inf", "-inf") else float(x)
    x = float(x)
    if math.isnan(x):
        return "nan"
    if math.isinf(x):
        return "inf" if x > 0 else "-inf"
    neg = math.copysign(1.0, x) < 0
    m, e = math.frexp(abs(x))            # abs(x) = m * 2^e, 0.5 <= m < 1 (or 0)
    M = int(m * (1 << 53))               # exact: m has at most 53 significant bits
    E = e - 53
    assert math.ldexp(M, E) == abs(x)
    while M and M % 2 == 0 and E < 0:    # keep powers small (only cosmetic)
        M //= 2
        E += 1
    return [neg, str(M), E]


def tohex(x):
    return "nan" if math.isnan(x) else float(x).hex()


def fromhex(s):
    return float(s) if s in ("nan", "inf", "-inf") else float.fromhex(s)


def random_bits(rng):
    """a uniformly random FINITE binary64 bit pattern (whole exponent range, subnormals included)"""
    while True:
        x = struct.unpack("<d", struct.pack("<Q", rng.getrandbits(64)))[0]
        if not (math.isnan(x) or math.isinf(x)):
            return x


def subnormal(rng):
    return math.copysign(struct.unpack("<d", struct.pack("<Q", rng.getrandbits(52)))[0], rng.choice([1, -1]))


def tie(rng, N):
    """(k + 0.5) / 10^N : the decimal ties of %.Nf (exact ties when representable, otherwise their nearest doubles)"""
    k = rng.choice([rng.randint(-50, 50), rng.randint(-10 ** 6, 10 ** 6), rng.randint(-10 ** 12, 10 ** 12)])
    return (k + 0.5) / 10 ** N


def dyadic_tie(rng, N):
    """exactly representable ties: odd multiples of 2^-(N+1) are ties of %.Nf only for 5^N | ...; use k/2^j scaled"""
    j = rng.randint(1, 12)
    return rng.randint(-4096, 4096) / float(1 << j)


def value(rng, N=5, null=-999.25):
    """one finite float64 drawn from a mixture covering the whole magnitude range"""
    k = rng.random()
    if k < 0.18:
        return random_bits(rng)
    if k < 0.40:
        return rng.uniform(-1e6, 1e6)
    if k < 0.52:
        return tie(rng, N)
    if k < 0.60:
        return dyadic_tie(rng, N)
    if k < 0.70:
        return float(rng.randint(-3000, 3000))
    if k < 0.76:
        return subnormal(rng)
    if k < 0.82:
        return rng.uniform(-1, 1) * 10.0 ** rng.randint(-320, 308)
    if k < 0.83:
        try:
            return float(null) + rng.choice([0.0, 0.0, 1e-9, -1e-9, 0.004, -0.004, 0.5])   # NULL-equal / NULL-near cells
        except (TypeError, ValueError, OverflowError):
            return -999.25
    return rng.choice(SPECIALS)


def moderate(rng, N=5):
    """values whose formatted width stays small (so that wrapped configurations are in the supported domain)"""
    k = rng.random()
    if k < 0.35:
        return rng.uniform(-1e4, 1e4)
    if k < 0.55:
        return tie(rng, N) if abs(tie(rng, N)) < 1e6 else 0.5
    if k < 0.70:
        return float(rng.randint(-3000, 3000))
    if k < 0.80:
        return rng.uniform(-1, 1) * 10.0 ** rng.randint(-320, 3)
    if k < 0.88:
        return subnormal(rng)
    return rng.choice([0.0, -0.0, 1.0, 0.5, 1.5, 2.5, -2.5, 0.125, 1e-7, -1e-7, 5e-324, 0.1, 9.999995, -999.25, -999.0])


# ---------------------------------------------------------------- matrices
def matrix(rng, nrows, ncols, kind, N=5, null=-999.25):
    """rows x cols list of floats; `kind`:
       'rc'       cell (i, j) = i*100 + j + 0.25  (a transposition / reshape error is visible in the values)
       'moderate' small-width values,  'wide' the whole binary64 range,  'ties' only %.Nf ties
       column 0 (the index) is strictly increasing for 'rc', arbitrary finite otherwise"""
    rows = []
    for i in range(nrows):
        row = []
        for j in range(ncols):
            if kind == "rc":
                row.append(i * 100.0 + j + 0.25)
            elif kind == "moderate":
                row.append(moderate(rng, N))
            elif kind == "ties":
                row.append(tie(rng, N))
            else:
                row.append(value(rng, N, null))
        rows.append(row)
    return rows


def nan_mask(rng, rows, density):
    """NaN at non-index positions (never in column 0)"""
    n = 0
    for r in rows:
        for j in range(1, len(r)):
            if rng.random() < density:
                r[j] = NAN
                n += 1
    return n


def null_cells(rng, rows, null, density):
    """cells numerically equal to NULL (index column included: index samples must never be nulled)"""
    try:
        v = float(null)
    except (TypeError, ValueError):
        return 0
    n = 0
    for r in rows:
        for j in range(len(r)):
            if rng.random() < density:
                r[j] = v
                n += 1
    return n


# ---------------------------------------------------------------- option records
FMT_SUPPORTED = ["%.0f", "%.1f", "%.2f", "%.3f", "%.4f", "%.5f", "%.6f", "%.7f", "%.8f", "%.9f", "%.10f", "%.11f", "%.12f",
                 "%10.3f", "%12.4f", "%3.1f", "%1.0f", "%25.10f"]
FMT_UNSUPPORTED = ["%.3e", "%g", "%e", "%+.2f", "%010.3f", "%d", "%s", "%.f", "%i", "%6d"]
SPACERS_BLANK = [" ", "  ", "   ", "\t", " \t", "\t\t", "     "]
SPACERS_OTHER = ["", ",", ", ", ";", "|", " "]            # documented / plausible but outside CfgOK
FMT_RE = re.compile(r"^%([1-9][0-9]*)?\.([0-9]+)f$")


def fmt_parse(fmt):
    """(width or None, N) for the supported `%[width].Nf` formats, else None"""
    m = FMT_RE.match(fmt) if isinstance(fmt, str) else None
    if not m:
        return None
    return (int(m.group(1)) if m.group(1) else None, int(m.group(2)))


def field_len(cfg):
    """the `len_numeric_field` write() will use"""
    l = cfg["len_numeric_field"]
    if l is None:
        l = 10
        t = cfg["fmt"] % math.pi
        while len(t) > l - 1:
            l += 1
    return l


def fields_per_line(cfg):
    """how many fields of the nominal width fit on one wrapped line"""
    l = max(field_len(cfg), 1)
    sp = len(cfg["spacer"].expandtabs(8)) if cfg["spacer"] else 0
    w = l + max(sp, 0)
    return max(1, (cfg["data_width"] + sp) // max(w, 1)) if w else 1


def default_cfg():
    return dict(version=2, wrap=False, fmt="%.5f", column_fmt={}, len_numeric_field=None, lhs_spacer=" ", spacer=" ",
                data_width=79, header_width=60, mnemonics_header=False, data_section_header="~ASCII")


def config(rng, supported_bias=0.85):
    """one writer option record; most are inside the supported domain, some deliberately outside"""
    c = default_cfg()
    sup = rng.random() < supported_bias
    c["version"] = rng.choice([1.2, 2, 2.0])
    c["wrap"] = rng.random() < 0.5
    c["fmt"] = rng.choice(FMT_SUPPORTED) if (sup or rng.random() < 0.5) else rng.choice(FMT_UNSUPPORTED)
    r = rng.random()
    if r < 0.55:
        c["column_fmt"] = {}
    else:
        c["column_fmt"] = {rng.randint(0, 6): rng.choice(FMT_SUPPORTED if (sup or rng.random() < 0.7) else FMT_UNSUPPORTED)
                           for _ in range(rng.randint(1, 3))}
    r = rng.random()
    c["len_numeric_field"] = None if r < 0.45 else (-1 if r < 0.6 else rng.randint(1, 20))
    c["spacer"] = rng.choice(SPACERS_BLANK) if (sup or rng.random() < 0.4) else rng.choice(SPACERS_OTHER)
    c["lhs_spacer"] = rng.choice(["", " ", " ", "  ", "\t"]) if (sup or rng.random() < 0.6) else rng.choice(["#", ",", "x"])
    c["data_width"] = rng.choice([79, 79, 20, 25, 40, 60, 80, 120, 200, rng.randint(20, 200)])
    c["header_width"] = rng.choice([60, 60, 60, 40, 80, 5])
    c["mnemonics_header"] = rng.random() < 0.4
    c["data_section_header"] = rng.choice(["~ASCII", "~A", "~ASCII", "~A", "~AsciiLog", "~ASCIIDATA", "~ALOG", "~Analog", "~a", "~ascii log", "~A DEPT GR", "~Acquired data"])
    return c


def curve_counts(rng, cfg, n):
    """`n` curve counts in 1..40, biased to the multiples of the per-line field count of the configuration"""
    k = fields_per_line(cfg)
    mult = [m for m in range(k, 41, k)] or [1]
    near = sorted(set(x for m in mult for x in (m - 1, m + 1) if 1 <= x <= 40))
    out = []
    for _ in range(n):
        r = rng.random()
        if r < 0.45:
            out.append(rng.choice(mult))
        elif r < 0.6 and near:
            out.append(rng.choice(near))
        else:
            out.append(rng.randint(1, 40))
    return out


def names(rng, ncols):
    """curve mnemonics: index DEPT + distinct names, sometimes with duplicates (session suffixes :1, :2 appear)"""
    base = ["DEPT"] + ["C%d" % j for j in range(1, ncols)]
    r = rng.random()
    if r < 0.15 and ncols >= 3:
        a, b = rng.sample(range(1, ncols), 2)
        base[b] = base[a]
    elif r < 0.25:
        base = [("LONGMNEMONIC%d" % j if rng.random() < 0.3 else n) for j, n in enumerate(base)]
    return base
