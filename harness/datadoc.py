"""Shared helpers for the data-section properties (C02, C07, C06): generators of LAS documents with data sections,
the real read with an engine trace and the steering values captured from `LASFile.read` itself, the float table of the
Lean model's trusted float service, canonical dumps and the model request / comparison.
"""
import io
import math
import re
import sys

# ---------------------------------------------------------------------------------------------- real side


def split_lines(text):
    """raw lines with their '\\n' (what iterating an io.StringIO gives)"""
    out, i = [], 0
    while i < len(text):
        j = text.find("\n", i)
        if j < 0:
            out.append(text[i:])
            break
        out.append(text[i:j + 1])
        i = j + 1
    return out


def fhex(x):
    x = float(x)
    if math.isnan(x):
        return "nan"
    return x.hex()


def canon_cell_text(s):
    """a text cell: numpy re-spells numbers when a mixed array becomes text ('5' -> '5.0'), so a text cell that parses as a
    float is compared numerically"""
    s = str(s)
    try:
        return ["n", fhex(float(s))]
    except ValueError:
        return ["s", s]


def canon_curves(las):
    """[[orig_mnemonic, "f"|"s", [cells…]]…]: float cells as float.hex()/"nan", text cells as canon_cell_text"""
    out = []
    for c in las.curves:
        d = c.data
        if d is None or getattr(d, "shape", None) == ():
            out.append([c.original_mnemonic, "?", repr(d)])
        elif d.dtype.kind == "f":
            out.append([c.original_mnemonic, "f", [fhex(x) for x in d.tolist()]])
        else:
            out.append([c.original_mnemonic, "s", [canon_cell_text(x) for x in d.tolist()]])
    return out


def canon_value(v):
    import numpy as np
    if isinstance(v, (bool,)):
        return ["b", v]
    if isinstance(v, (int, np.integer)):
        return ["i", str(int(v))]
    if isinstance(v, (float, np.floating)):
        return ["f", fhex(v)]
    return ["s", str(v)]


def canon_header(las):
    """all header sections (the data are dumped by canon_curves)"""
    out = []
    for k, sec in las.sections.items():
        if isinstance(sec, str):
            out.append([k, sec])
        else:
            out.append([k, [[i.original_mnemonic, i.mnemonic, i.unit, canon_value(i.value), i.descr] for i in sec]])
    return out


class Trace:
    """Engine trace + capture of the steering values.

    `las.py` calls the two engines and `define_line_splitter` through the `reader` module, so replacing the module attributes
    is enough.  `define_line_splitter` is called exactly where the modelled part of `LASFile.read` begins: the wrapper reads
    the locals of the calling frame (provisional WRAP / NULL / DLM, wrap_declared, section windows, data section indices, the
    number of declared curves) — these are the values the real code itself computed from the header.
    """

    def __init__(self):
        from lasio import reader
        self.reader = reader
        self.o_np = reader.read_data_section_iterative_numpy_engine
        self.o_no = reader.read_data_section_iterative_normal_engine
        self.o_dls = reader.define_line_splitter
        self.events = []
        self.steer = None

    def __enter__(self):
        r = self.reader

        def w_np(*a, **k):
            try:
                res = self.o_np(*a, **k)
            except Exception as e:
                self.events.append("numpy-raised")
                raise
            self.events.append("numpy")
            return res

        def w_no(*a, **k):
            self.events.append("normal")
            return self.o_no(*a, **k)

        def w_dls(dlm):
            fr = sys._getframe(1)
            loc = fr.f_locals
            if "section_positions" in loc and "self" in loc:
                secs = loc["section_positions"]
                idx = list(loc["data_section_indices"])
                self.steer = dict(
                    wrapped=loc["provisional_wrapped"], wrap_declared=bool(loc["wrap_declared"]),
                    null=loc["provisional_null"], dlm=loc["provisional_delimiter"],
                    windows=[(secs[i][1], secs[i][2]) for i in idx],
                    n_sections=len(secs), las3=len(loc["las3_data_section_indices"]),
                    declared=[c.original_mnemonic for c in loc["self"].curves])
            return self.o_dls(dlm)

        r.read_data_section_iterative_numpy_engine = w_np
        r.read_data_section_iterative_normal_engine = w_no
        r.define_line_splitter = w_dls
        return self

    def __exit__(self, *a):
        r = self.reader
        r.read_data_section_iterative_numpy_engine = self.o_np
        r.read_data_section_iterative_normal_engine = self.o_no
        r.define_line_splitter = self.o_dls


def real_read(text, **kw):
    """-> dict(res=["ok", curves] | ["err", kind, msg], trace=[…], steer={…}|None, las=LASFile|None)"""
    import lasio
    with Trace() as t:
        las = None
        try:
            las = lasio.LASFile()
            las.read(io.StringIO(text), **kw)
            res = ["ok", canon_curves(las)]
        except IndexError as e:
            res = ["err", "IndexError", str(e)[:80]]
            las = None
        except ValueError as e:
            res = ["err", "ReshapeError" if "Cannot reshape" in str(e) else "Other:ValueError", str(e)[:80]]
            las = None
        except Exception as e:
            res = ["err", "Other:" + type(e).__name__, str(e)[:80]]
            las = None
    return dict(res=res, trace=list(t.events), steer=t.steer, las=las)


# ---------------------------------------------------------------------------------------------- model side

_SUBS = None


def _subs():
    global _SUBS
    if _SUBS is None:
        _SUBS = [re.compile(r"(\d),(\d)"), re.compile(r"(\d)-(\d)"), re.compile(r"-?\d*\.\d*\.\d*|NaN[\.-]\d+")]
    return _SUBS


_SOW = re.compile(r"""([^\s"']+)|"([^"]*)"|'([^']*)'""")
_SOT = re.compile(r"""([^\t"']+)|"([^"]*)"|'([^']*)'""")


def line_variants(line):
    c, h, d = _subs()
    l0 = line.strip("\n").strip()
    out = {l0}
    for use_c in (True, False):
        for use_h in (True, False):
            l = l0
            if use_c:
                l = c.sub(r"\1.\2", l)
            if use_h:
                l = h.sub(r"\1 -\2", l)
            l = d.sub(" NaN NaN ", l)
            out.add(l)
            out.add(l.replace(chr(26), ""))
    return out


def tokens_of(text):
    """every token any splitter of the data path can meet on any line of `text` (an over-approximation)"""
    toks = set()
    for line in split_lines(text):
        toks.update(line.split("#")[0].split())
        for v in line_variants(line):
            toks.update("".join(t) for t in _SOW.findall(v))
            toks.update("".join(t) for t in _SOT.findall(v))
            toks.update(v.split(","))
    return toks


def float_table(text):
    """token -> canonical float text, by Python's float(); tokens float() rejects are absent"""
    ft = {}
    for t in tokens_of(text):
        try:
            ft[t] = fhex(float(t))
        except ValueError:
            pass
    return ft


def null_text(v):
    """the header NULL as the model sees it: a float text when it is a number, else null"""
    import numpy as np
    if isinstance(v, bool):
        return None
    if isinstance(v, (int, float, np.integer, np.floating)):
        try:
            return fhex(float(v))
        except OverflowError:
            return "unmodelled"
    return None


def null_number(v):
    """the header NULL as a Python float when it is a number (what `curve_arr == NULL` compares with), else None"""
    t = null_text(v)
    if t is None or t == "unmodelled":
        return None
    return float("nan") if t == "nan" else float.fromhex(t) if t not in ("inf", "-inf") else float(t)


def model_request(text, steer, engine="numpy", null_policy="strict", window=None):
    first, last = window if window is not None else steer["windows"][0]
    return {"op": "dt.read", "lines": split_lines(text), "first": first, "last": last, "engine": engine, "null_policy": null_policy,
            "wrap_declared": steer["wrap_declared"], "wrapped": str(steer["wrapped"]), "null": null_text(steer["null"]),
            "dlm": str(steer["dlm"]), "declared": len(steer["declared"]), "floats": float_table(text)}


def canon_model(ans, req, steer):
    """bring a dt.read answer to the shape of real_read()['res'] + the predicted trace"""
    if ans == "unmodelled" or not isinstance(ans, dict):
        return dict(res=ans, trace=None)
    ft = req["floats"]
    numpy_tried = req["engine"] == "numpy" and req["wrapped"] != "YES" and req["null_policy"] == "strict"
    if "err" in ans:
        return dict(res=["err", ans["err"]], trace=(["numpy-raised", "normal"] if numpy_tried else ["normal"]))
    o = ans["ok"]
    declared = steer["declared"]
    curves = []
    for j, (kind, cells) in enumerate(o["columns"]):
        slot = o["slots"][j]
        name = declared[slot] if 0 <= slot < len(declared) else ""
        if kind == "f":
            curves.append([name, "f", list(cells)])
        else:
            curves.append([name, "s", [(["n", ft[c]] if c in ft else ["s", c]) for c in cells]])
    if numpy_tried:
        trace = ["numpy"] if o["engine"] == "numpy" else ["numpy-raised", "normal"]
    else:
        trace = ["normal"]
    return dict(res=["ok", curves], trace=trace)


def modelled(steer, kw):
    """is this read inside the modelled options: one data section, known delimiter, numeric-or-text NULL"""
    if steer is None or len(steer["windows"]) != 1 or steer["las3"]:
        return False
    if steer["dlm"] not in ("SPACE", "TAB", "COMMA"):
        return False
    if null_text(steer["null"]) == "unmodelled":
        return False
    return True


def compare(run, stream, text, kw, real, in_domain, case=None):
    """correspondence of one real read with the model; returns the model's canonical answer (or None)"""
    if run.model is None or not modelled(real["steer"], kw):
        return None
    req = model_request(text, real["steer"], kw.get("engine", "numpy"), kw.get("null_policy", "strict"))
    ans = run.model.ask1(req)
    m = canon_model(ans, req, real["steer"])
    run.traces += 1
    r = real["res"][:2]
    if m["res"] != r or m["trace"] != real["trace"]:
        run.disagree(stream, case if case is not None else {"text": text, "kw": kw}, {"res": m["res"], "trace": m["trace"]},
                     {"res": real["res"], "trace": real["trace"]}, in_domain=in_domain)
    return m


# ---------------------------------------------------------------------------------------------- generators

PLAIN_SPELLINGS = ["5", "5.", ".5", "+3", "-4e2", "1E+2", "-999.25", "-9.9925E2", "007", "0", "-0.0", "12.75", "1e-3", "2500.125",
                   "-.5", "3.14159", "1000000", "-7", "+0.25", "6E2",
                   # close to the default NULL (-999.25) without being equal to it: the header NULL is an exact comparison
                   "-999.251", "-999.2500001", "-999.24999", "-999.2499999999999", "-999.26"]
BLANK_LINES = ["", " ", "   ", "\t", " \t "]
COMMENT_LINES = ["#", "# comment", "#1 2 3", "  # indented comment", "#-", "\t#x 9"]
SEPS = [" ", "  ", "   ", "\t", " \t", "\t ", "      "]
PADS = ["", "", " ", "  ", "\t", "   "]
TITLES = ["~A", "~ASCII", "~A  DEPT  C1", "~Ascii log data", "~a"]
AFTER = [[], ["~P", "X. 5 : d"], ["~O", "some text", "1 2 3"], ["~Zcustom", "Q.U 7 : q"], ["~P", "X. 5 : d", "~O", "free"], ["~O"],
         ["~P"]]


def plain_token(rng):
    r = rng.random()
    if r < 0.5:
        return rng.choice(PLAIN_SPELLINGS)
    if r < 0.7:
        return str(rng.randint(-5000, 5000))
    if r < 0.9:
        return "%.*f" % (rng.randint(0, 5), rng.uniform(-3000, 3000))
    return "%.*e" % (rng.randint(0, 6), rng.uniform(-1e6, 1e6))


def header(vers="2.0", wrap="NO", null="-999.25", dlm=None, declared=(), extra_well=True, eol="\n"):
    """~V, ~W, ~C sections; `wrap=None`: no WRAP item; `null=None`: no NULL item; `declared=None`: no ~C section"""
    ls = ["~Version"]
    if vers is not None:
        ls.append("VERS. %s : version" % vers)
    if wrap is not None:
        ls.append("WRAP. %s : wrap" % wrap)
    if dlm is not None:
        ls.append("DLM. %s : delimiter" % dlm)
    ls.append("~Well")
    if extra_well:
        ls.append("STRT.M 1.0 : start")
        ls.append("STOP.M 2.0 : stop")
        ls.append("STEP.M 1.0 : step")
    if null is not None:
        ls.append("NULL. %s : null value" % null)
    if declared is not None:
        ls.append("~Curves")
        for m in declared:
            ls.append("%s.U%s : curve %s" % (m, m[-1:], m))
    return ls


def names(d, numeric=False):
    """declared curve mnemonics; `numeric`: integer-like mnemonics placed OUT of position ("2" at index 1, ...) so that a
    lookup confusing a position with a mnemonic shows up as a displaced column"""
    if d <= 0:
        return []
    if numeric:
        return ["DEPT"] + [str(d - j) for j in range(1, d)]
    return ["DEPT"] + ["C%d" % j for j in range(1, d)]


def lay_row(rng, toks, seps=SEPS, pads=PADS):
    s = rng.choice(pads)
    for k, t in enumerate(toks):
        if k:
            s += rng.choice(seps)
        s += t
    return s + rng.choice(pads)


def partition(rng, toks):
    """re-partition one depth step over several physical lines (wrapped layout)"""
    out, i = [], 0
    while i < len(toks):
        n = rng.randint(1, max(1, min(4, len(toks) - i)))
        out.append(toks[i:i + n])
        i += n
    return out


def assemble(head, title, body, after, eol="\n", final_newline=True):
    ls = list(head) + [title] + list(body)
    for a in after:
        ls.append(a)
    text = eol.join(ls) + eol
    if not final_newline:
        text = text[:-len(eol)]
    return text


def sprinkle(rng, body, p_blank, p_comment, first=False, last=False):
    """insert blank and '#' comment lines at any position (optionally forced as first / last line of the section)"""
    out = []
    if first:
        out.append(rng.choice(BLANK_LINES + COMMENT_LINES))
    for ln in body:
        while rng.random() < p_blank:
            out.append(rng.choice(BLANK_LINES))
        while rng.random() < p_comment:
            out.append(rng.choice(COMMENT_LINES))
        out.append(ln)
    while rng.random() < p_blank:
        out.append(rng.choice(BLANK_LINES))
    while rng.random() < p_comment:
        out.append(rng.choice(COMMENT_LINES))
    if last:
        out.append(rng.choice(BLANK_LINES + COMMENT_LINES))
    return out


def plain_doc(rng, d=None, c=None, r=None, cells=None):
    """a PlainData document (C02's quantifier): WRAP=NO, default delimiter, r >= 1 rows of c >= 1 plain decimal tokens"""
    d = rng.randint(0, 6) if d is None else d
    c = rng.randint(1, 8) if c is None else c
    r = rng.randint(1, 6) if r is None else r
    if cells is None:
        cells = [[plain_token(rng) for _ in range(c)] for _ in range(r)]
    nul = rng.choice(["-999.25", "-999.25", "-999", "0", "5", None])
    head = header(vers=rng.choice(["2.0", "1.2", "2.0"]), wrap="NO", null=nul, dlm=rng.choice([None, None, "SPACE"]),
                  declared=(None if (d == 0 and rng.random() < 0.5) else names(d)))
    body = [lay_row(rng, row) for row in cells]
    heavy = rng.random() < 0.5
    body = sprinkle(rng, body, 0.25 if heavy else 0.0, 0.2 if heavy else 0.0, first=rng.random() < 0.15, last=rng.random() < 0.15)
    after = rng.choice(AFTER)
    text = assemble(head, rng.choice(TITLES[:4]), body, after, eol=rng.choice(["\n", "\n", "\r\n"]),
                    final_newline=rng.random() < 0.8)
    return dict(text=text, d=d, c=c, r=r, cells=cells, after=bool(after), skips=len(body) - r)


TAB_SEPS = ["\t", "\t", "\t\t", " \t", "\t ", " \t "]
TAB_PADS = ["", "", "\t", " ", "\t\t", " \t"]
TAB_BLANK_LINES = ["", "\t", " ", "\t\t", " \t "]


def tab_doc(rng, d=None, c=None, r=None):
    """the TAB-delimited members of C02's quantifier ("blank- or tab-separated plain decimal numbers"): DLM TAB declared, cells
    separated by tabs (possibly repeated, possibly with blanks around them), tab / blank padding at both ends of a line, blank
    lines that hold only tabs.  Outside the theorems' `PlainData` (default delimiter), inside the oracle's domain."""
    d = rng.randint(0, 6) if d is None else d
    c = rng.randint(1, 8) if c is None else c
    r = rng.randint(1, 6) if r is None else r
    cells = [[plain_token(rng) for _ in range(c)] for _ in range(r)]
    head = header(vers=rng.choice(["2.0", "1.2", "2.0"]), wrap="NO", null=rng.choice(["-999.25", "-999", "0", None]), dlm="TAB",
                  declared=(None if (d == 0 and rng.random() < 0.5) else names(d)))
    body = [lay_row(rng, row, seps=TAB_SEPS, pads=TAB_PADS) for row in cells]
    if rng.random() < 0.5:
        out = []
        for i, l in enumerate(body):
            if rng.random() < 0.2:
                out.append(rng.choice(TAB_BLANK_LINES + COMMENT_LINES))
            out.append(l)
        if rng.random() < 0.2:
            out.append(rng.choice(TAB_BLANK_LINES + COMMENT_LINES))
        body = out
    after = rng.choice(AFTER)
    text = assemble(head, rng.choice(TITLES[:4]), body, after, eol=rng.choice(["\n", "\n", "\r\n"]), final_newline=rng.random() < 0.8)
    return dict(text=text, d=d, c=c, r=r, cells=cells, after=bool(after), skips=len(body) - r)


JUNK_ROWS = ["1 2", "3 4", "5", "", "  ", "#c", "1 2 3", "-999.25 -999.25", "1 -999", "1-2", "2018-05-22 7", "1,5 2", "1,2", "1\t2",
             "abc 2", "1 x", " 9 10 \r", "1.2.3 4", "\"a b\" 2", "-9.9925e2 -999.2500", "7 8", "1 2 # t", "'q' 5", "\"", "1 \"x",
             "NaN.5 2", "1.5-2.5 3", "\x1a", "1\x1a2 3", "nan 1", "inf -inf", "1_0 2", "1,,2", ", ,", "\t", "1\t\t2", "5 \t 6",
             "１２ ３", "١,٢ 4", "3-٤ 1", "٣.٥.١ 2", "-.5-.5", "1e5 .5", "-", "- -", "2-3 4-5", "~", "# -", "1- 2", "- 1", "0.5.5"]


def junk_doc(rng):
    """context documents: anything the data reader can meet"""
    d = rng.randint(0, 3)
    head = header(wrap=rng.choice(["NO", "NO", "YES", None, "yes"]), null=rng.choice(["-999.25", "-999", "2", "abc", None, "1"]),
                  dlm=rng.choice([None, None, "SPACE", "COMMA", "TAB"]), declared=(None if rng.random() < 0.15 else names(d)))
    body = [rng.choice(JUNK_ROWS) for _ in range(rng.randint(0, 6))]
    if rng.random() < 0.1:
        body = [rng.choice(["", "#c", " "]) for _ in range(rng.randint(18, 24))] + body
    if rng.random() < 0.1:
        body = body + [rng.choice(["1 2", "3 4 5", "7"]) for _ in range(rng.randint(18, 24))]
    text = assemble(head, rng.choice(TITLES), body, rng.choice(AFTER), eol=rng.choice(["\n", "\n", "\n", "\r\n"]),
                    final_newline=rng.random() < 0.85)
    return dict(text=text)


# the input of the fixed finding "sniffer gave up after 21 physical lines" (80546bb): run first by C02 and C07
SNIFF21_TEXT = ("~V\nVERS. 2.0 :\nWRAP. NO :\n~W\nNULL. -999.25 :\n~C\nA. :\nB. :\n~A\n" + "#c\n" * 21 + "1 2 3\n4 5 6\n")
SNIFF21_NOCURVES = ("~V\nVERS. 2.0 :\nWRAP. NO :\n~A\n" + "\n" * 21 + "1 2 3\n4 5 6\n")

# the input of the fixed finding "empty inner ~A read the rest of the file as data" (965fe63): context (r = 0) for C02 and C07
EMPTY_INNER_A = "~V\nVERS. 2.0 : x\nWRAP. NO : y\n~C\nA.M : curve\n~A\n~P\nX. 5 : d\n"
