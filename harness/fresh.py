"""harness/fresh.py : read texts in FRESH interpreters.

A check's own process has read thousands of texts before it reads the one under test; state that lasio keeps between calls
(a module-level cache, a class attribute, a default argument) is then already filled by well-formed input and a read that
depends on the FIRST line of its kind seen in the process looks innocent.  `histories(jobs)` runs every job -- a short list of
reads -- in an interpreter of its own and returns what `lasdoc.read_full` returns for each read, in order.

    job = [{"text": ..., "kw": {"ignore_header_errors": True, ...}}, ...]

Run as `python -m harness.fresh <jobs.json>` for the worker side (prints one JSON list per job file)."""
import json
import os
import subprocess
import sys
import tempfile

from . import framework as fw


def worker_main(path):
    import logging
    import warnings
    sys.path.insert(0, fw.REPO)
    logging.disable(logging.CRITICAL)
    warnings.simplefilter("ignore")
    from . import lasdoc as ld
    job = json.load(open(path))
    out = []
    for r in job:
        out.append(ld.read_full(r["text"], **r.get("kw", {})))
    print(json.dumps(out))


def histories(jobs, par=8, timeout=300):
    """results[i] = list of read_full dumps of job i (each job in its own interpreter)"""
    tmp = tempfile.mkdtemp(prefix="fresh-", dir=os.path.join(fw.ROOT, ".scratch") if os.path.isdir(os.path.join(fw.ROOT, ".scratch")) else None)
    results = [None] * len(jobs)
    try:
        pending = list(enumerate(jobs))
        running = []
        while pending or running:
            while pending and len(running) < par:
                i, job = pending.pop(0)
                p = os.path.join(tmp, "job%d.json" % i)
                json.dump(job, open(p, "w"))
                running.append((i, subprocess.Popen([sys.executable, "-m", "harness.fresh", p], cwd=fw.ROOT, stdout=subprocess.PIPE,
                                                    stderr=subprocess.DEVNULL, text=True, env=dict(os.environ, LASIO_REPO=fw.REPO))))
            i, pr = running.pop(0)
            out, _ = pr.communicate(timeout=timeout)
            try:
                results[i] = json.loads(out.strip().splitlines()[-1])
            except Exception:
                raise fw.InfraError("fresh-interpreter worker produced no output (job %d)" % i)
    finally:
        import shutil
        shutil.rmtree(tmp, ignore_errors=True)
    return results


if __name__ == "__main__":
    worker_main(sys.argv[1])
