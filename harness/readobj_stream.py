"""Correspondence stream for the TYPED header `read()` builds (Lean: LasioModel/ReadObj.lean, op "ro.read").

`run_stream(run, n)` generates `n` documents (all section kinds, LAS 1.2 / 2.0 / 3.0, LAS-3 like titles, custom titles starting with
C / P, API / UWI mnemonics in every section, numeric-literal / near-literal / text values and descriptions), reads each with the real
`lasio.read(text, ignore_data=True, ignore_header_errors=…, mnemonic_case=…)` and with the model, and compares per stored section and
item `(original_mnemonic, unit, type(value).__name__, repr(value), descr)` + the outcome (exception class / HeaderError line), the
section keys in order, the ~Other texts, and the parser kind (curves <=> the items are CurveItems).  Every readable file under
/repo/tests/examples is compared as well (`corpus=True`).

The model carries a float as the EXACT decimal of the literal; its binary64 (and so its repr) is computed here with exact rational
arithmetic (`c08.dec_to_float`, correctly rounded) — the trusted step of C08.

Out of domain (reported with in_domain=False, never silently dropped): a text with a character outside the alphabet on which the
model's upper/lower/isspace tables are Python's (`lasdoc.in_sigma`).  Not compared: the model answers "unmodelled" (provisional version
undecided: comma / exponent / > 15 digits in VERS).

`run_full_stream(run, n)`: op "ro.full" (typed header + curve data as float texts + index_initial) vs the full `lasio.read(text)` on generated
numeric documents (datadoc.plain_doc, documents with NULL cells, the typed-header documents above) and the corpus (files up to 400 lines).

Stand-alone:  cd /verif && [RO_FULL=1] /venv/bin/python -m harness.readobj_stream [n] [seed]      (env RO_DRIVER = command of a private
driver; default: the compiled lasio_driver)
"""
import collections
import json
import os
import shlex
import subprocess
import sys

from . import framework as fw
from . import lasdoc as ld
from .props import c08

STREAM = "ro.read"

LAS3_TITLES = ["~Log_Definition", "~Log_Parameter", "~Core_Parameter", "~Core_Definition", "~Tops_Parameter x", "~Well_Parameter", "~Curve_Definition",
               "~Parameter_x", "~P_1", "~C_x", "~V_Parameter", "~w_definition", "~Test_Definition | Run", "~log_parameter", "~Drilling_PARAMETER"]
CP_CUSTOM = ["~Custom", "~Cement", "~Core", "~Perforations", "~perf", "~Pressure tests", "~c2", "~p2", "~Cx", "~Px"]
MNEMS = [m for m in c08.NAMES if m not in ("apı", "API ")] + ["VERS", "WRAP", "STRT", "STOP", "STEP", "NULL", "DLM", "WELL", "COMP", "X1", "GR", "DEPT",
                                                              "Strt", "null", "DATE", "LOC", "api", "UWI", "API", "uwi"]
UNITS = ["", "", "M", "FT", "[M]", "(ft)", "GAPI", "US/F", "%"]
WORDS = ["", "a description", "start depth", "Well name", "ACME Co.", "north-west", "12-34-12-34W5M", "100/05-12-034-05W4/00", "2001-05-13",
         "13/05/2001", "YES", "NO", "SPACE", "x y z", "1 2", "07 digits", "No. 5", "1.5 m", "inf", "nan", "-", "+", ".", "1e", "0x10", "15_9", "1_000"]
VERSIONS = (["2.0"] * 14 + ["1.2"] * 8 + ["3.0"] * 8 + ["2", "3", "2.00", "1.20", "3.00", "+2.0", "2.", "02.0"] +
            ["2.5", "1.3", "abc", "", "2,0", "2e0", "3.000000000000000000"])


def gen_value(rng):
    r = rng.random()
    if r < 0.30:
        return c08.gen_literal(rng).replace("\n", " ")
    if r < 0.40:
        return rng.choice(c08.FILE_VALUES + c08.ITEM_VALUES)
    if r < 0.52:
        s = rng.choice(_BOUNDARY)
        return s
    if r < 0.62:
        return c08.mutate(rng, c08.gen_literal(rng).replace("\n", " "))
    if r < 0.70:
        return rng.choice(["0", "0.0", "-0", "00", "0e0", "1", "-1", "7", "0.5", "-999.25", "-9999", "1,5", "12,5", "1,5,6"])
    return rng.choice(WORDS)


_BOUNDARY = [s for s in c08.boundary_texts() if len(s) < 450 and not any(ord(c) < 32 for c in s) and "\x00" not in s]


def gen_descr(rng, numeric=False):
    if numeric or rng.random() < 0.15:
        return gen_value(rng).replace(":", " ")
    return rng.choice(WORDS).replace(":", " ")


def gen_items(rng, n, letter, vers):
    out = []
    for _ in range(n):
        mn = rng.choice(MNEMS) if rng.random() < 0.8 else "M" + "".join(rng.choice("ABCxyz019_") for _ in range(rng.randint(0, 5)))
        value = gen_value(rng)
        if letter != "P" and rng.random() < 0.04:
            value += rng.choice([" : 3", ":30", " :x"])
        elif letter == "P":
            value = value.replace(":", " ")
        # LAS 1.2 ~Well: the text after the colon is the value for most mnemonics
        descr = gen_descr(rng, numeric=(letter == "W" and vers.startswith("1") and rng.random() < 0.7))
        out.append(ld.item_line(rng, mn, rng.choice(UNITS), value, descr))
    return out


def gen_text(rng):
    """(text, tags)"""
    vers = rng.choice(VERSIONS)
    tags = ["vers=" + (vers if vers in ("1.2", "2.0", "3.0") else "other")]
    secs = []

    def filler(body):
        if rng.random() < 0.25:
            body.insert(rng.randint(0, len(body)), ld.filler(rng)[0])
        return body
    v = [rng.choice(ld.TITLES["V"])] + filler(
        [ld.item_line(rng, rng.choice(["VERS", "VERS", "VERS", "vers", "Vers"]), "", vers, "CWLS log ASCII Standard -VERSION " + vers)] +
        ([ld.item_line(rng, "WRAP", "", rng.choice(["NO", "YES", "no"]), "one line per depth step")] if rng.random() < 0.85 else []) +
        ([ld.item_line(rng, "DLM", "", rng.choice(["SPACE", "COMMA", "TAB", "space", "FOO"]), "delimiter")] if rng.random() < 0.15 else []) +
        gen_items(rng, rng.randint(0, 2), "V", vers))
    rest = []
    for letter in "WCP":
        for _ in range(rng.choice([1, 1, 1, 1, 1, 1, 0, 2])):
            body = gen_items(rng, rng.randint(0, 5), letter, vers)
            if letter == "W" and rng.random() < 0.6:
                body += [ld.item_line(rng, "NULL", "", rng.choice(["-999.25", "-9999", "abc", "1,5"]), "null value")]
                rng.shuffle(body)
            rest.append([rng.choice(ld.TITLES[letter])] + filler(body))
    if rng.random() < 0.5:
        rest.append([rng.choice(ld.TITLES["O"])] + ["remark %d : 1.5" % i for i in range(rng.randint(0, 3))])
    for t in rng.sample(ld.CUSTOM_TITLES + CP_CUSTOM * 2 + LAS3_TITLES * 2, rng.randint(0, 3)):
        tags.append("custom")
        if t in LAS3_TITLES:
            tags.append("las3-title")
        if t in CP_CUSTOM:
            tags.append("custom-C/P-title")
        letter = t[1:2].upper()
        rest.append([t] + filler(gen_items(rng, rng.randint(0, 4), letter if letter in "CP" else "X", vers)))
    if rng.random() < 0.06:     # a second ~Version section later in the file changes the provisional version for what follows
        v2 = rng.choice(["3.0", "2.0", "1.2"])
        rest.append([rng.choice(ld.TITLES["V"]), ld.item_line(rng, "VERS", "", v2, "second version")])
        tags.append("second-~V")
    rng.shuffle(rest)
    if rng.random() < 0.1 and rest:   # ~Version not first: the sections before it are parsed under the default 2.0
        rest.insert(rng.randint(1, len(rest)), v)
        tags.append("~V-not-first")
    else:
        rest.insert(0, v)
    if rng.random() < 0.7:
        rest.insert(rng.randint(1, len(rest)), [rng.choice(ld.TITLES["A"])] + ["%d.25 %d" % (i, i) for i in range(rng.randint(0, 3))])
    lines = []
    for s in rest:
        if rng.random() < 0.08:
            s = [rng.choice([" ", "\t", "  "]) + s[0]] + s[1:]
        lines += s
    eol = rng.choice(["\n", "\n", "\n", "\r\n"])
    return eol.join(lines) + (eol if rng.random() < 0.85 else ""), tags


# ------------------------------------------------------------------------------------------------ real side
def real_typed(text, ignore, case):
    """{"ok": {"sections": [[key, is_curve_items|None, [[mn, unit, type, repr, descr]…] | text]…]}} | {"err": […]}"""
    import lasio
    import re
    las = lasio.LASFile()
    defaults = dict(las.sections)
    try:
        las.read(ld.file_ref(text), ignore_data=True, ignore_header_errors=ignore, mnemonic_case=case)
    except lasio.exceptions.LASHeaderError as e:
        m = re.match(r"Line (\d+)", str(e))
        return {"err": ["HeaderError", int(m.group(1))]}
    except KeyError as e:
        if "No ~ sections found" in str(e):
            return {"err": ["NoSections"]}
        return {"err": ["KeyError"]}
    except IOError:
        return {"err": ["LASF"]}
    except Exception as e:
        return {"err": [type(e).__name__]}
    secs = []
    for k, v in las.sections.items():
        if k in defaults:
            if isinstance(v, str):
                if v == "" and isinstance(defaults[k], str):
                    continue
            elif v is defaults[k]:
                continue
        if isinstance(v, str):
            secs.append([k, None, v])
        else:
            its = list(list.__iter__(v))
            kinds = set(type(i).__name__ for i in its)
            secs.append([k, (sorted(kinds) if its else None),
                         [[i.original_mnemonic, i.unit, type(i.value).__name__, repr(i.value), i.descr] for i in its]])
    return {"ok": {"sections": secs}}


# ------------------------------------------------------------------------------------------------ model side
def model_value(v):
    """tagged model value -> (type name, repr) as numpy prints it"""
    import numpy as np
    t = v["t"]
    if t == "str":
        return ["str", repr(v["v"])]
    if t == "int":
        return ["int64", repr(np.int64(int(v["v"])))]
    if t == "float":
        f = c08.dec_to_float(bool(v["neg"]), c08.parse_big(v["mant"]), c08.parse_big_signed(v["exp10"]))
        if f is None:
            return ["float64", "overflow"]
        return ["float64", repr(np.float64(f))]
    return ["?", json.dumps(v)]


def model_typed(m):
    if m == "unmodelled" or "err" in m:
        return m
    secs = []
    for key, kind, body in m["ok"]["sections"]:
        if kind is None:
            secs.append([key, None, body])
        else:
            secs.append([key, kind, [[a, u, *model_value(v), d] for a, u, v, d in body]])
    return {"ok": {"sections": secs}}


def diff(m, r):
    """None when equal, else a short description"""
    if ("err" in m) or ("err" in r):
        return None if m == r else "outcome"
    ms, rs = m["ok"]["sections"], r["ok"]["sections"]
    # "Other" assigned the empty text is indistinguishable from the default in the real object
    mk = [s[0] for s in ms if not (s[0] == "Other" and s[2] == "")]
    if mk != [s[0] for s in rs]:
        return "keys"
    rd = dict((s[0], s) for s in rs)
    for key, kind, body in ms:
        if key not in rd:
            continue
        _, rkinds, rbody = rd[key]
        if isinstance(body, str) or isinstance(rbody, str):
            if body != rbody:
                return "text:" + key
            continue
        if len(body) != len(rbody):
            return "count:" + key
        if rkinds is not None and ((kind == "curves") != (rkinds == ["CurveItem"])):
            return "kind:" + key
        for a, b in zip(body, rbody):
            if a != b:
                return "item:%s:%s" % (key, a[0])
    return None


# ------------------------------------------------------------------------------------------------ the stream
def _flush(run, pend, counts):
    if not pend or run.model is None:
        return
    ans = run.model.ask([{"op": "ro.read", "text": t, "ignore": ig, "case": c} for (_, t, ig, c, _) in pend])
    for (stream, text, ig, c, indom), m in zip(pend, ans):
        run.traces += 1
        if isinstance(m, dict) and "error" in m:
            run.disagree(stream + ":driver-error", {"text": text, "ignore": ig, "case": c}, m, None, in_domain=indom)
            continue
        if m == "unmodelled":
            run.dist["ro:unmodelled"] += 1
            counts["unmodelled"] += 1
            continue
        real = real_typed(text, ig, c)
        mt = model_typed(m)
        d = diff(mt, real)
        counts["compared"] += 1
        if "ok" in real:
            for s in real["ok"]["sections"]:
                if not isinstance(s[2], str):
                    for it in s[2]:
                        counts["items"] += 1
                        counts["type=" + it[2]] += 1
        if d:
            counts["diff" if indom else "diff-out-of-domain"] += 1
            run.disagree(stream + ":" + d, {"text": text, "ignore": ig, "case": c}, mt, real, in_domain=indom)
        else:
            run.dist["ro:outcome=" + ("ok" if "ok" in real else real["err"][0])] += 1
            counts["outcome=" + ("ok" if "ok" in real else real["err"][0])] += 1


def corpus_texts():
    root = os.path.join(fw.REPO, "tests", "examples")
    for base, _, files in sorted(os.walk(root)):
        for fn in sorted(files):
            if not fn.lower().endswith(".las"):
                continue
            raw = open(os.path.join(base, fn), "rb").read()
            txt = None
            for enc in ("utf-8-sig", "cp1252", "latin-1"):
                try:
                    txt = raw.decode(enc)
                    break
                except UnicodeDecodeError:
                    continue
            if txt is None or "\x00" in txt:
                continue
            yield os.path.relpath(os.path.join(base, fn), root), txt


def run_stream(run, n, corpus=True):
    """returns a Counter with what was compared"""
    rng = run.rng
    counts = collections.Counter()
    pend = []
    for _ in range(n):
        text, tags = gen_text(rng)
        ig = rng.random() < 0.3
        case = rng.choice(["upper", "upper", "preserve", "lower"])
        indom = ld.in_sigma(text)
        run.case({"stream": STREAM, "text": text, "ignore": ig, "case": case}, nontrivial=("custom" in tags or "vers=3.0" in tags),
                 tags=["ro:generated"] + ["ro:" + t for t in sorted(set(tags))])
        pend.append((STREAM, text, ig, case, indom))
        if len(pend) >= 128:
            _flush(run, pend, counts)
            pend = []
    _flush(run, pend, counts)
    pend = []
    if corpus:
        for rel, text in corpus_texts():
            if len(text.splitlines()) < 2:
                continue
            for ig, case in ((False, "upper"), (True, "preserve")):
                indom = ld.in_sigma(text)
                run.case({"stream": STREAM + ":corpus", "file": rel, "ignore": ig, "case": case}, nontrivial=True, tags=["ro:corpus"])
                counts["corpus"] += 1
                if not indom:
                    counts["corpus-out-of-domain"] += 1
                pend.append((STREAM + ":corpus:" + rel, text, ig, case, indom))
            if len(pend) >= 16:
                _flush(run, pend, counts)
                pend = []
        _flush(run, pend, counts)
    return counts


# ------------------------------------------------------------------------------------------------ the FULL stream (op "ro.full")
FULL_MAX_LINES = 400


def real_full(text, ignore, case, engine):
    """typed sections (header-only read) + curve data / index_initial of the full read + the steering values the real code computed"""
    from . import datadoc as dd
    hdr = real_typed(text, ignore, case)
    r = dd.real_read(text, ignore_header_errors=ignore, mnemonic_case=case, engine=engine)
    out = {"hdr": hdr, "res": r["res"][:2], "steer": r["steer"], "index_initial": None}
    las = r["las"]
    if las is not None:
        ii = getattr(las, "index_initial", None)
        if ii is None:
            out["index_initial"] = None
        elif getattr(ii, "dtype", None) is not None and ii.dtype.kind == "f":
            out["index_initial"] = [dd.fhex(x) for x in ii.tolist()]
        else:
            out["index_initial"] = ["text", repr(ii)]
    return out


def full_diff(m, real):
    """model answer of ro.full vs real_full(); None when equal"""
    hdr = real["hdr"]
    if isinstance(m, dict) and "err" in m:
        return None if m == hdr else "outcome"
    if isinstance(m, dict) and "dataerr" in m:
        return None if (real["res"][0] == "err" and real["res"][1].startswith(m["dataerr"])) else "data-outcome"
    if "err" in hdr:
        return "outcome"
    if real["res"][0] != "ok":
        return "data-outcome"
    o = m["ok"]
    d = diff(model_typed({"ok": {"sections": o["sections"]}}), hdr)
    if d:
        return "header:" + d
    curves = real["res"][1]
    if any(k != "f" for _, k, _ in curves):
        return "text-column-not-refused"
    if [c for _, _, c in curves] != o["curves"]:
        return "curves"
    if real["index_initial"] != o["index_initial"]:
        return "index_initial"
    return None


def _flush_full(run, pend, counts):
    from . import datadoc as dd
    if not pend or run.model is None:
        return
    reqs, keep = [], []
    for (stream, text, ig, c, eng, indom) in pend:
        real = real_full(text, ig, c, eng)
        steer = real["steer"]
        if steer is None or not dd.modelled(steer, {}):
            counts["full:not-modelled(no/several data sections, DLM, NULL)"] += 1
            continue
        reqs.append({"op": "ro.full", "text": text, "ignore": ig, "case": c, "engine": eng, "null_policy": "strict",
                     "null": dd.null_text(steer["null"]), "floats": dd.float_table(text)})
        keep.append((stream, text, ig, c, eng, indom, real))
    if not reqs:
        return
    ans = run.model.ask(reqs)
    for (stream, text, ig, c, eng, indom, real), m in zip(keep, ans):
        run.traces += 1
        case = {"text": text if len(text) < 6000 else text[:6000] + "…", "ignore": ig, "case": c, "engine": eng}
        if isinstance(m, dict) and "error" in m:
            run.disagree(stream + ":driver-error", case, m, None, in_domain=indom)
            continue
        if m == "unmodelled":
            # legitimate only for a text column / an extra curve / an undecided version
            curves = real["res"][1] if real["res"][0] == "ok" else []
            declared = len(real["steer"]["declared"])
            why = ("text-column" if any(k != "f" for _, k, _ in curves) else "extra-curve" if len(curves) > declared else
                   "version" if real["res"][0] == "ok" else "real-error")
            if why == "real-error":
                # the header model itself may be undecided (VERS with a comma / exponent / > 15 digits): then nothing can be compared
                if run.model.ask1({"op": "ro.read", "text": text, "ignore": ig, "case": c}) == "unmodelled":
                    why = "version"
                elif indom and "err" not in real["hdr"]:
                    run.disagree(stream + ":unmodelled-vs-error", case, m, real["res"], in_domain=indom)
            counts["full:unmodelled:" + why] += 1
            continue
        d = full_diff(m, real)
        counts["full:compared"] += 1
        if "ok" in m:
            counts["full:ok"] += 1
            counts["full:cells"] += sum(len(c) for c in m["ok"]["curves"])
            counts["full:nan-cells"] += sum(c.count("nan") for c in m["ok"]["curves"])
        if d:
            counts["full:diff" if indom else "full:diff-out-of-domain"] += 1
            run.disagree(stream + ":" + d, case, m, {k: real[k] for k in ("hdr", "res", "index_initial")}, in_domain=indom)
        else:
            run.dist["ro.full:agree"] += 1


def run_full_stream(run, n, corpus=True):
    """`ro.full` (typed header + curve data + index_initial) vs `lasio.read(text)`; returns a Counter"""
    from . import datadoc as dd
    rng = run.rng
    counts = collections.Counter()
    pend = []

    def add(stream, text, ig, case, eng):
        pend.append((stream, text, ig, case, eng, ld.in_sigma(text)))
        if len(pend) >= 64:
            _flush_full(run, pend, counts)
            del pend[:]
    for k in range(n):
        if k % 3 == 0:
            text, tags = gen_text(rng)
            kind = "typed-doc"
        elif k % 3 == 1:
            c = rng.randint(1, 6)
            text = dd.plain_doc(rng, d=(c if rng.random() < 0.75 else rng.randint(0, 8)), c=c)["text"]
            kind = "plain-doc"
        else:
            # numeric file with NULL cells (several spellings of the header NULL value among the cells, also in the index column)
            c, r = rng.randint(1, 4), rng.randint(1, 5)
            cells = [[rng.choice(["-999.25", "-999.250", "-9.9925e2", "1.5", "2", "-9999", "0.25", "1e3", "5", "0"]) for _ in range(c)]
                     for _ in range(r)]
            text = dd.plain_doc(rng, d=(c if rng.random() < 0.8 else c + rng.randint(1, 2)), c=c, r=r, cells=cells)["text"]
            kind = "null-doc"
        ig = rng.random() < 0.2
        case = rng.choice(["upper", "upper", "preserve", "lower"])
        eng = rng.choice(["numpy", "normal"])
        run.case({"stream": "ro.full", "text": text, "ignore": ig, "case": case, "engine": eng}, nontrivial=True,
                 tags=["ro.full:generated", "ro.full:" + kind])
        add("ro.full", text, ig, case, eng)
    _flush_full(run, pend, counts)
    del pend[:]
    if corpus:
        for rel, text in corpus_texts():
            if len(text.splitlines()) < 2:
                continue
            if text.count("\n") > FULL_MAX_LINES:
                counts["full:corpus-too-long(skipped)"] += 1
                continue
            run.case({"stream": "ro.full:corpus", "file": rel}, nontrivial=True, tags=["ro.full:corpus"])
            counts["full:corpus"] += 1
            add("ro.full:corpus:" + rel, text, False, "preserve", "numpy")
        _flush_full(run, pend, counts)
    return counts


# ------------------------------------------------------------------------------------------------ stand-alone runner
class _PrivateModel(fw.Model):
    def __init__(self, cmd, cwd):
        self.p = subprocess.Popen(cmd, cwd=cwd, stdin=subprocess.PIPE, stdout=subprocess.PIPE, text=True, encoding="utf-8", bufsize=1 << 20)
        self.n = 0


class _Stub:
    ID = "C08File"


def main(argv):
    import logging
    import warnings
    logging.disable(logging.CRITICAL)
    warnings.simplefilter("ignore")
    n = int(argv[1]) if len(argv) > 1 else 2000
    seed = int(argv[2]) if len(argv) > 2 else 0
    cmd = shlex.split(os.environ.get("RO_DRIVER", fw.DRIVER))
    run = fw.Run(_Stub, "quick", seed)
    run.model = _PrivateModel(cmd, fw.LEAN)
    try:
        if os.environ.get("RO_FULL"):
            counts = run_full_stream(run, n)
        else:
            counts = run_stream(run, n)
    finally:
        run.model.close()
    print("seed", seed, "documents", n)
    for k in sorted(counts):
        print("  %-28s %d" % (k, counts[k]))
    for k in sorted(run.dist):
        if k.startswith("ro:") and not k.startswith("ro:outcome"):
            print("  %-28s %d" % (k, run.dist[k]))
    ind = [d for d in run.disagreements if d["in_domain"]]
    out = [d for d in run.disagreements if not d["in_domain"]]
    print("in-domain differences:", len(ind), " out-of-domain differences:", len(out))
    for d in (ind + out)[:8]:
        print(json.dumps(d, ensure_ascii=True)[:3000])
    return 1 if ind else 0


if __name__ == "__main__":
    sys.exit(main(sys.argv))
