"""C09 — the presentation transformations, in Python.

Part 1 mirrors `lean/LasioModel/Transform.lean` function by function (same names, same sanitising of the arguments): a
transformation is a JSON-able list `[name, args…]`, `apply(text, ts)` is `Tf.applyText` (the harness compares the two on every
case through the driver op `tf.apply`).

Part 2 chooses transformations: `analyse(text)` looks at the document with the REAL reader (section windows and kinds from
`find_sections_in_file` / `determine_section_type`, the steering values WRAP / DLM / version / number of declared curves from the
locals of `LASFile.read(ignore_data=True)`), `candidates(rng, doc)` proposes one applicable transformation per kind with the site
(which section, which line, which run) and the amounts drawn by `rng` over the whole file, `compose(rng, text, n)` applies `n` of
them one after the other, re-analysing the text after each step.

What is NOT a presentation change and is therefore never proposed (documented decisions):
  * a line inserted INSIDE a ~Other section (its text is content), the removal of a final blank line of ~Other;
  * (padding in front of a section TITLE line IS proposed since the repair ab31372 of the ~Other loop);
  * re-padding / re-wrapping a data line that contains a quote character (a quoted cell may contain blanks: they are content);
  * re-laying a header line whose parsed fields are not conformant in the sense of C04 (`Conf`, e.g. a unit with a blank).
"""
import io
import sys

from . import datadoc as dd

DLMS = ("SPACE", "TAB", "COMMA")

# ------------------------------------------------------------------------------------------------ part 1: the functions


def is_bt(c):
    return c == " " or c == "\t"


def blanks_of(s):
    return "".join(c for c in s if is_bt(c))


def split_eol(l):
    if l.endswith("\r\n"):
        return l[:-2], "\r\n"
    if l.endswith("\n"):
        return l[:-1], "\n"
    return l, ""


def term_line(l):
    return l if l.endswith("\n") else l + "\n"


def terminate(d):
    return d[:-1] + [term_line(d[-1])] if d else []


def map_at(k, f, d):
    return [f(l) if i == k else l for i, l in enumerate(d)]


def ins_line(k, l, d):
    return terminate(d[:k]) + [l + "\n"] + d[k:]


def comment_line(indent, text):
    return blanks_of(indent) + "#" + text.replace("\n", "")


def strip_bt(s):
    return s.strip(" \t")


def pad_line1(lead, trail, l):
    t, e = split_eol(l)
    return blanks_of(lead) + strip_bt(t) + blanks_of(trail) + e


def mk_sep(dlm, s):
    if dlm == "SPACE":
        return blanks_of(s) or " "
    if dlm == "TAB":
        b = blanks_of(s)
        return b if "\t" in b else "\t"
    i = s.find(",")
    if i < 0:
        return blanks_of(s) + ","
    return blanks_of(s[:i]) + "," + blanks_of(s[i:])


def cells_of(dlm, t):
    if dlm == "SPACE":
        return t.split()
    ch = "\t" if dlm == "TAB" else ","
    return [c.strip() for c in t.strip().split(ch)]


def join_seps(dlm, cells, seps):
    out = ""
    for i, w in enumerate(cells):
        if i:
            out += mk_sep(dlm, seps[i - 1] if i - 1 < len(seps) else "")
        out += w
    return out


def relay_line1(frm, to, seps, l):
    t, e = split_eol(l)
    return join_seps(to, cells_of(frm, t), seps) + e


def crlf1(l):
    return l.replace("\n", "\r\n")


def lf1(l):
    return l[:-2] + "\n" if l.endswith("\r\n") else l


def drop_final_newline(d):
    if not d:
        return []
    t = split_eol(d[-1])[0]
    return d[:-1] + ([t] if t else [])


def clean_line(l):
    return l.strip("\n").strip()


def is_skip(l):
    c = clean_line(l)
    return c == "" or c.startswith("#")


def cut(widths, l):
    out = []
    widths = list(widths)
    while l:
        if not widths:
            out.append(l)
            break
        w = max(widths.pop(0), 1)
        out.append(l[:w])
        l = l[w:]
    return out


def wrap_step(widths, step):
    return [" ".join(ws) + "\n" for ws in cut(widths, step)]


def body_lines(d, first, last):
    return d[first + 1:][:max(last - first, 0)]


def rewrap_body(n, widths, body):
    n = max(n, 1)
    words = [w for l in body if not is_skip(l) for w in l.split()]
    out = [term_line(l) for l in body if is_skip(l)]
    for i in range(0, len(words), n):
        out += wrap_step(widths, words[i:i + n])
    return out


def rewrap(first, last, n, widths, d):
    return d[:first + 1] + rewrap_body(n, widths, body_lines(d, first, last)) + d[last + 1:]


def layout_fields(f, p):
    return p[0] + f[0] + p[1] + "." + f[1] + p[2] + f[2] + p[3] + ":" + p[4] + f[3] + p[5]


def parse_header_line(sec, s):
    """`read_header_line` of the real reader (its model is C04's `parseHeaderLine`): [name, unit, value, descr] or None"""
    from lasio.reader import read_header_line
    try:
        r = read_header_line(s, section_name=sec if sec != "other" else "~other")
        return [r["name"], r["unit"], r["value"], r["descr"]]
    except Exception:
        return None


def relayout_line1(sec, pads, l):
    t, e = split_eol(l)
    f = parse_header_line(sec, t.strip())
    if f is None:
        return l
    return layout_fields(f, [blanks_of(p) for p in pads]) + e


def dlm_item_line(to):
    return "DLM. " + to + " : delimiter"


def relay_body(frm, to, seps, body):
    return [l if is_skip(l) else relay_line1(frm, to, seps, l) for l in body]


def redelim(first, last, vk, replace, frm, to, seps, d):
    d1 = d[:first + 1] + relay_body(frm, to, seps, body_lines(d, first, last)) + d[last + 1:]
    if replace:
        return map_at(vk, lambda l: dlm_item_line(to) + split_eol(l)[1], d1)
    return ins_line(vk, dlm_item_line(to), d1)


def apply1(t, d):
    name, a = t[0], t[1:]
    if name == "insBlank":
        return ins_line(a[0], blanks_of(a[1]), d)
    if name == "insComment":
        return ins_line(a[0], comment_line(a[1], a[2]), d)
    if name == "padLine":
        return map_at(a[0], lambda l: pad_line1(a[1], a[2], l), d)
    if name == "repadLine":
        return map_at(a[0], lambda l: relay_line1(a[1], a[1], a[2], l), d)
    if name == "relayout":
        return map_at(a[0], lambda l: relayout_line1(a[1], a[2:8], l), d)
    if name == "crlf":
        return [crlf1(l) for l in d]
    if name == "lf":
        return [lf1(l) for l in d]
    if name == "dropFinalNewline":
        return drop_final_newline(d)
    if name == "addFinalNewline":
        return terminate(d)
    if name == "rewrap":
        return rewrap(a[0], a[1], a[2], a[3], d)
    if name == "redelim":
        return redelim(a[0], a[1], a[2], a[3], a[4], a[5], a[6], d)
    raise ValueError(name)


def apply_lines(ts, d):
    for t in ts:
        d = apply1(t, d)
    return d


def apply(text, ts):
    """`Tf.applyText`"""
    return "".join(apply_lines(ts, dd.split_lines(text)))


# ------------------------------------------------------------------------------------------------ part 2: choosing

PAD = ["", "", " ", "  ", "\t", "   ", " \t", "\t\t", "      "]
SEP_SPACE = [" ", "  ", "\t", "   ", " \t ", "\t\t", "        "]
SEP_TAB = ["\t", " \t", "\t ", " \t ", "\t\t", "  \t  "]
SEP_COMMA = [",", " ,", ", ", " , ", "\t,", ",\t", "  ,  "]
COMMENTS = ["", " comment", "1 2 3", "-", " 2018-05-22 - x", "~A", "~Other", " a , b", "\tq", " ~", "#", " : . :", " 9-9"]


def header_steer(text):
    """the steering values as `LASFile.read(ignore_data=True)` itself computes them (locals at `define_line_splitter`)"""
    import lasio
    from lasio import reader
    seen = {}
    orig = reader.define_line_splitter

    def wrapper(dlm):
        loc = sys._getframe(1).f_locals
        if "section_positions" in loc and "self" in loc:
            secs = loc["section_positions"]
            idx = list(loc["data_section_indices"])
            seen.update(wrapped=loc["provisional_wrapped"], wrap_declared=bool(loc["wrap_declared"]), dlm=loc["provisional_delimiter"],
                        version=loc["provisional_version"], windows=[(secs[i][1], secs[i][2]) for i in idx],
                        las3=len(loc["las3_data_section_indices"]), declared=len(loc["self"].curves))
        return orig(dlm)
    reader.define_line_splitter = wrapper
    try:
        lasio.LASFile().read(io.StringIO(text), ignore_data=True)
    except Exception:
        return None
    finally:
        reader.define_line_splitter = orig
    return seen or None


def section_name2(title, version):
    from lasio import reader
    try:
        n = reader.SectionParser(title, version=version).section_name2
    except Exception:
        return None
    return n if n in ("Version", "Well", "Curves", "Parameter") else "other"


class Doc:
    """the document as the real reader sees it"""

    def __init__(self, text):
        from . import lasdoc as ld
        self.text = text
        self.lines = dd.split_lines(text)
        self.scan = ld.real_sections_scan(text)          # [first, last, stripped title, kind]
        self.steer = header_steer(text)
        n = len(self.lines)
        self.sec_of = [-1] * (n + 1)                      # section of the line at index i; index n = a line appended at the end
        for j, (a, b, _, _) in enumerate(self.scan):
            for i in range(a, min(b, n - 1) + 1):
                self.sec_of[i] = j
        self.sec_of[n] = len(self.scan) - 1 if self.scan else -1

    def kind(self, j):
        return "pre" if j < 0 else self.scan[j][3]

    def kind_at_insert(self, k):
        """kind of the section a line inserted before line k falls into"""
        if k == 0:
            return "pre"
        return self.kind(self.sec_of[k - 1])

    def is_title(self, i):
        return any(a == i for a, _, _, _ in self.scan)

    def data_window(self):
        st = self.steer
        if not st or len(st["windows"]) != 1 or st["las3"] or st["dlm"] not in DLMS:
            return None
        return st["windows"][0]


TEXT_CELL_PADDING = True      # propose padding blanks around TAB / COMMA also when a cell is text (strict reading of the property)
HYPHEN_REWRAP = True          # propose re-wrapping also when the run-on(-) substitution is not neutral on the tokens


def _is_number(c):
    try:
        float(c)
        return True
    except ValueError:
        return False


def conf(sec, f):
    """C04's `Conf sec f` for fields parsed by the reader (they are stripped already)"""
    name, unit, value, descr = f
    if not name or name != name.strip() or "." in name or ":" in name or name[0] in "#~":
        return False
    if any(c.isspace() for c in unit) or ".." in unit or unit[:1] == "." or unit[-1:] == ".":
        return False
    if value != value.strip() or descr != descr.strip():
        return False
    if ":" in value and sec != "Parameter":
        # the documented last-colon form (C04_last_colon): the value keeps every colon but the last one of the line, whatever the
        # blanks around any of them; the description must then be colon-free (checked below)
        if value[0] == ":" or unit.isdigit():
            return False
    elif ":" in value:
        for i, c in enumerate(value):
            if c == ":":
                a = value[i + 1:i + 3]
                if not (len(a) == 2 and ((a[0] in "012345" and a[1] in "0123456789") or a in ("mm", "MM"))):
                    return False
    if sec == "Curves" and ".." in value:
        return False
    if sec != "Parameter" and ":" in descr:
        return False
    if sec == "Parameter" and ":" in unit:
        return False            # PadOK.param_unit_colon (known finding R19 of C04): not proposed
    return True


def fix_pads(sec, f, p, rng):
    """make the paddings satisfy C04's `PadOK sec f p`"""
    name, unit, value, descr = f
    p = list(p)
    if value and not p[2]:
        p[2] = rng.choice([" ", "  ", "\t"])
    if unit and unit.isdigit() and unit.isascii() and value and len(p[2]) < 2:
        p[2] = p[2] + "  "
    if sec == "Parameter" and ":" in descr:
        p[3] = p[3] or " "
        p[4] = p[4] or " "
        if unit and unit.isdigit() and unit.isascii() and len(p[2]) + len(p[3]) < 2:
            p[3] = p[3] + " "
    return p


def hyphen_neutral(word):
    """the run-on(-) substitution `(\\d)-(\\d)` does not fire inside the word"""
    import re
    return re.search(r"\d-\d", word) is None


def candidates(rng, doc):
    """one applicable transformation of each kind (where the document allows it), sites and amounts by rng"""
    out = []
    lines = doc.lines
    n = len(lines)
    if n == 0:
        return out
    # ---- insert a blank / comment line: any position whose section is not ~Other
    sites = [k for k in range(n + 1) if doc.kind_at_insert(k) != "other"]
    if sites:
        out.append(["insBlank", rng.choice(sites), rng.choice(PAD)])
        out.append(["insComment", rng.choice(sites), rng.choice(PAD), rng.choice(COMMENTS)])
        # favour the data section and section boundaries
        dsites = [k for k in sites if doc.kind_at_insert(k) in ("data", "las3data")]
        if dsites:
            out.append(["insBlank", rng.choice(dsites), rng.choice(PAD)])
            out.append(["insComment", rng.choice(dsites), rng.choice(PAD), rng.choice(COMMENTS)])
    # ---- padding around any line (title lines included)
    out.append(["padLine", rng.randrange(n), rng.choice(PAD), rng.choice(PAD)])
    titles = [i for i in range(n) if doc.is_title(i)]
    if titles and rng.random() < 0.3:
        out.append(["padLine", rng.choice(titles), rng.choice(PAD[2:]), rng.choice(PAD)])
    # ---- line terminators
    out.append(["crlf"] if "\r\n" not in doc.text or rng.random() < 0.2 else ["lf"])
    if rng.random() < 0.5:
        out.append(["lf"])
    last = lines[-1]
    if last.endswith("\n"):
        if not (split_eol(last)[0] == "" and doc.kind(doc.sec_of[n - 1]) == "other"):
            out.append(["dropFinalNewline"])
    else:
        out.append(["addFinalNewline"])
    # ---- header line layout
    st = doc.steer
    if st is not None:
        sites = []
        for i in range(n):
            j = doc.sec_of[i]
            if j >= 0 and doc.kind(j) == "items" and not doc.is_title(i):
                s = lines[i].strip()
                if s and not s.startswith("#") and not s.startswith("~"):
                    sites.append(i)
        rng.shuffle(sites)
        for i in sites[:4]:
            sec = section_name2(doc.scan[doc.sec_of[i]][2], st["version"])
            if sec is None:
                continue
            f = parse_header_line(sec, lines[i].strip())
            if f is None or not conf(sec, f):
                continue
            p = fix_pads(sec, f, [rng.choice(PAD) for _ in range(6)], rng)
            out.append(["relayout", i, sec] + p)
            break
    # ---- the data section
    w = doc.data_window()
    if w is not None:
        first, last_ = w
        dlm = st["dlm"]
        body = list(enumerate(lines))[first + 1:last_ + 1]
        rows = [(i, l) for i, l in body if not is_skip(l)]
        quote_free = [(i, l) for i, l in rows if '"' not in l and "'" not in l]
        if dlm != "SPACE" and not TEXT_CELL_PADDING:
            quote_free = [(i, l) for i, l in quote_free if all(_is_number(c) for c in cells_of(dlm, split_eol(l)[0]))]
        if dlm != "SPACE":
            quote_free = [(i, l) for i, l in quote_free if all(c != "" for c in cells_of(dlm, split_eol(l)[0]))]
        if quote_free:
            i, l = rng.choice(quote_free)
            k = len(cells_of(dlm, split_eol(l)[0]))
            pool = {"SPACE": SEP_SPACE, "TAB": SEP_TAB, "COMMA": SEP_COMMA}[dlm]
            out.append(["repadLine", i, dlm, [rng.choice(pool) for _ in range(max(k - 1, 0))]])
        wrapped = st["wrap_declared"] and st["wrapped"] == "YES" and st["declared"] > 0
        if wrapped and dlm == "SPACE" and rows and len(quote_free) == len(rows):
            words = [x for _, l in rows for x in l.split()]
            d = st["declared"]
            if not any(x.startswith("#") or x.startswith("~") for x in words) and len(words) % d == 0 and \
                    (HYPHEN_REWRAP or all(hyphen_neutral(x) for x in words)):
                r = rng.random()
                n = d
                if r < 0.2:
                    widths = [1] * d
                elif r < 0.3:
                    widths = [d]
                elif r < 0.45:
                    widths = [rng.randint(1, d)] * d
                elif r < 0.7:
                    widths = [rng.randint(1, max(1, d // 2 + 1)) for _ in range(rng.randint(0, d))]
                else:
                    # lines that cross depth steps: the group is several steps (or the whole body), cut at one uniform width
                    # (a width above the number of curves that divides the group gives equally long lines throughout)
                    n = rng.choice([2 * d, 3 * d, len(words), len(words)])
                    w = rng.choice([n, 2 * d, 3 * d, d + 1, rng.randint(1, max(n, 1))])
                    widths = [w] * (n // max(w, 1) + 1)
                out.append(["rewrap", first, last_, n, widths])
        if rows and len(quote_free) == len(rows) and not (st["wrapped"] == "YES") and rng.random() < 0.5:
            to = rng.choice([x for x in DLMS if x != dlm])
            cells = [c for _, l in rows for c in cells_of(dlm, split_eol(l)[0])]
            bad = {"SPACE": lambda c: c == "" or any(ch.isspace() for ch in c) or c.startswith("#"), "TAB": lambda c: c == "" or "\t" in c,
                   "COMMA": lambda c: c == "" or "," in c}[to]
            # a comma inside a blank-separated cell is a decimal mark under the default policy and a delimiter under COMMA
            if not any(bad(c) or "," in c for c in cells) and (TEXT_CELL_PADDING or all(_is_number(c) for c in cells) or to == "SPACE"):
                vsec = [j for j, s in enumerate(doc.scan) if s[3] == "items" and s[2][1:2].upper() == "V"]
                if vsec and doc.scan[vsec[-1]][1] < first:
                    va, vb = doc.scan[vsec[-1]][0], doc.scan[vsec[-1]][1]
                    dl = [i for i in range(va + 1, vb + 1) if (parse_header_line("Version", lines[i].strip()) or [""])[0].upper() == "DLM"
                          and not lines[i].strip().startswith("#")]
                    pool = {"SPACE": SEP_SPACE, "TAB": SEP_TAB, "COMMA": SEP_COMMA}[to]
                    kmax = max(len(cells_of(dlm, split_eol(l)[0])) for _, l in rows)
                    seps = [rng.choice(pool) for _ in range(rng.randint(0, kmax))]
                    if len(dl) == 1:
                        out.append(["redelim", first, last_, dl[0], True, dlm, to, seps])
                    elif not dl:
                        out.append(["redelim", first, last_, va + 1, False, dlm, to, seps])
    return out


def choose(rng, doc, kinds=None):
    c = candidates(rng, doc)
    if kinds is not None:
        c = [t for t in c if t[0] in kinds]
    if not c:
        return None
    # pick a kind first so that the many insert candidates do not crowd out the rare ones
    names = sorted(set(t[0] for t in c))
    name = rng.choice(names)
    return rng.choice([t for t in c if t[0] == name])


def compose(rng, text, n, kinds=None):
    """-> (list of transformations, list of intermediate texts incl. the first and the last)"""
    ts, texts = [], [text]
    for _ in range(n):
        doc = Doc(texts[-1])
        t = choose(rng, doc, kinds)
        if t is None:
            break
        ts.append(t)
        texts.append("".join(apply1(t, doc.lines)))
    return ts, texts
