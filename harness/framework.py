"""Common machinery of every check: translate -> build -> audit -> correspondence + oracle -> verdict -> evidence.

See DESIGN.md section 3.  Exit codes: 0 property held on everything explored, 1 VIOLATION, 2 infrastructure error.
"""
import collections
import fcntl
import hashlib
import json
import os
import random
import re
import subprocess
import sys
import time

ROOT = os.path.dirname(os.path.dirname(os.path.abspath(__file__)))
LEAN = os.path.join(ROOT, "lean")
REPO = os.environ.get("LASIO_REPO", "/repo")
DRIVER = os.path.join(LEAN, ".lake", "build", "bin", "lasio_driver")
STD_AXIOMS = {"propext", "Classical.choice", "Quot.sound"}
FORBIDDEN = re.compile(r"sorry|admit|^axiom |native_decide|bv_decide|implemented_by|unsafe |maxHeartbeats 0", re.M)

TRUSTED_BASE = [
    "Lean 4.33.0 kernel; axioms of every property theorem audited on every run to be within {propext, Classical.choice, Quot.sound}",
    "Lean compiler/runtime for the executable driver (lasio_driver) whose answers the correspondence compares",
    "harness/translate.py: extraction of literal tables and control-flow skeletons from /repo/lasio/*.py into LasioModel/Generated.lean",
    "the correspondence check: model = code is established only on the inputs it ran (exhaustive small scopes + generated + corpus)",
    "CPython/numpy runtime services named per property in DESIGN.md section 8 (re, str methods, printf/strtod, genfromtxt, pickle, json, csv, openpyxl, pandas, codecs)",
]


class InfraError(Exception):
    pass


def sh(cmd, cwd=None, timeout=3600, env=None):
    p = subprocess.run(cmd, cwd=cwd, shell=isinstance(cmd, str), stdout=subprocess.PIPE,
                       stderr=subprocess.STDOUT, text=True, timeout=timeout, env=env)
    return p.returncode, p.stdout


class LakeLock:
    def __enter__(self):
        os.makedirs(os.path.join(LEAN, ".lake"), exist_ok=True)
        self.f = open(os.path.join(LEAN, ".lake", "verif.lock"), "w")
        fcntl.flock(self.f, fcntl.LOCK_EX)
        return self

    def __exit__(self, *a):
        fcntl.flock(self.f, fcntl.LOCK_UN)
        self.f.close()


class Model:
    """Persistent connection to the compiled Lean driver (one JSON request per line)."""

    def __init__(self):
        if not os.path.exists(DRIVER):
            raise InfraError("driver not built: " + DRIVER)
        self.p = subprocess.Popen([DRIVER], stdin=subprocess.PIPE, stdout=subprocess.PIPE, text=True,
                                  encoding="utf-8", bufsize=1 << 20)
        self.n = 0

    def ask(self, reqs, chunk=64):
        """send the requests and read as many answers; the writing happens in a helper thread so that large requests
        cannot dead-lock on full pipe buffers (`chunk` is kept for compatibility and ignored)"""
        import threading
        data = "".join(json.dumps(r, ensure_ascii=True) + "\n" for r in reqs)

        def feed():
            try:
                self.p.stdin.write(data)
                self.p.stdin.flush()
            except Exception:
                pass
        t = threading.Thread(target=feed, daemon=True)
        t.start()
        out = []
        for _ in reqs:
            line = self.p.stdout.readline()
            if not line:
                raise InfraError("driver died")
            out.append(json.loads(line))
        t.join()
        self.n += len(reqs)
        return out

    def ask1(self, req):
        return self.ask([req])[0]

    def close(self):
        try:
            self.p.stdin.close()
            self.p.wait(timeout=10)
        except Exception:
            self.p.kill()


def h(obj):
    return hashlib.sha1(json.dumps(obj, sort_keys=True, default=str).encode()).hexdigest()[:16]


class Run:
    def __init__(self, prop, tier, seed):
        self.prop = prop
        self.pid = prop.ID
        self.tier = tier
        self.seed = seed
        self.rng = random.Random(seed)
        self.t0 = time.time()
        self.evaluations = 0
        self.distinct = set()
        self.nontrivial = set()
        self.samples = []
        self.dist = collections.Counter()
        self.disagreements = []     # dicts: stream, case, model, real, in_domain
        self.failures = []          # dicts: clause, case, detail
        self.known_hits = collections.Counter()
        self.theorems = []
        self.discharged = 0
        self.build_broken = None    # text when a generated obligation broke
        self.traces = 0
        self.notes = []
        self.model = None
        self.exhaustive = False

    # ---- bookkeeping used by property modules
    def case(self, case, nontrivial=False, tags=()):
        self.evaluations += 1
        k = h(case)
        self.distinct.add(k)
        if nontrivial:
            self.nontrivial.add(k)
        for t in tags:
            self.dist[t] += 1
        if len(self.samples) < 6 and (nontrivial or self.evaluations < 3):
            self.samples.append(case)

    def disagree(self, stream, case, model, real, in_domain=True):
        self.disagreements.append(dict(stream=stream, case=case, model=model, real=real, in_domain=in_domain))

    def fail(self, clause, case, detail=None):
        """The oracle (executable reading of the property on the real implementation) failed on `case`."""
        f = dict(clause=clause, case=case, detail=detail)
        kid = self.prop.classify(f) if hasattr(self.prop, "classify") else None
        if kid is not None and kid in known_ids(self.pid):
            self.known_hits[kid] += 1
            return
        self.failures.append(f)

    def budget(self, quick, thorough):
        return quick if self.tier == "quick" else thorough


def known_entries():
    path = os.path.join(ROOT, "known_findings.txt")
    out = []
    if os.path.exists(path):
        for line in open(path, encoding="utf-8"):
            line = line.strip()
            if not line or line.startswith("#"):
                continue
            m = re.match(r"(known|fixed): property=(C\d+) (?:id=(\S+) )?(.*)", line)
            if m:
                out.append(dict(kind=m.group(1), pid=m.group(2), id=m.group(3), text=m.group(4)))
    return out


def known_ids(pid):
    return {e["id"]: e for e in known_entries() if e["kind"] == "known" and e["pid"] == pid}


# --------------------------------------------------------------------------------------------
def translate():
    from . import translate as tr
    return tr.run()


def lean_sources():
    for base, _, files in os.walk(LEAN):
        if ".lake" in base:
            continue
        for f in files:
            if f.endswith(".lean"):
                yield os.path.join(base, f)


def module_closure(module):
    """source files of the local modules (LasioModel.*, LasioProofs.*) the given module transitively imports, itself included"""
    seen, todo, out = set(), [module], []
    while todo:
        m = todo.pop()
        if m in seen:
            continue
        seen.add(m)
        path = os.path.join(LEAN, *m.split(".")) + ".lean"
        if not os.path.exists(path):
            continue
        out.append(path)
        for imp in re.findall(r"^import\s+(\S+)", open(path, encoding="utf-8").read(), flags=re.M):
            if imp.split(".")[0] in ("LasioModel", "LasioProofs"):
                todo.append(imp)
    return out


def strip_comments(src):
    src = re.sub(r"/-.*?-/", "", src, flags=re.S)
    return re.sub(r"--.*", "", src)


def build(run, modules):
    """lake build of the property's proof module(s) and the driver. Returns True when everything type-checked."""
    with LakeLock():
        gen_state = translate()
        rc, out = sh(["lake", "build"] + modules + ["lasio_driver"], cwd=LEAN, timeout=3000)
    if rc != 0:
        if gen_state.get("changed_vs_pinned"):
            run.build_broken = out[-4000:]
            run.notes.append("lake build failed with a Generated.lean that differs from the pinned one: broken proof obligation")
            return False
        sys.stdout.write(out[-6000:])
        raise InfraError("lake build failed on hand-written proofs with unchanged Generated.lean")
    return True


def audit(run, module, thorough=False):
    """Every theorem of the property file(s) must exist, be sorry-free and use only the standard axioms (`module`: a module name
    or a list of them: the property's main file and further files holding theorems of the same property)."""
    if isinstance(module, (list, tuple)):
        names, ok = [], 0
        for m in module:
            audit(run, m, thorough)
            names += run.theorems
            ok += run.discharged
        run.theorems, run.discharged = names, ok
        return
    path = os.path.join(LEAN, *module.split(".")) + ".lean"
    src = open(path, encoding="utf-8").read()
    names = re.findall(r"^theorem\s+([^\s(\[{:]+)", strip_comments(src), flags=re.M)
    ns = re.findall(r"^namespace\s+(\S+)", src, flags=re.M)
    prefix = (ns[0] + ".") if ns else ""
    run.theorems = names
    for p in module_closure(module):
        if FORBIDDEN.search(strip_comments(open(p, encoding="utf-8").read())):
            raise InfraError("forbidden construct (sorry/admit/axiom/native_decide/...) in " + p)
    os.makedirs(os.path.join(LEAN, ".lake", "audit"), exist_ok=True)
    apath = os.path.join(LEAN, ".lake", "audit", run.pid + ("" if module == run.prop.MODULE else "-" + module.split(".")[-1]) + ".lean")
    with open(apath, "w") as f:
        f.write("import %s\n" % module)
        for n in names:
            f.write("#print axioms %s%s\n" % (prefix, n))
    rc, out = sh(["lake", "env", "lean", apath], cwd=LEAN, timeout=1200)
    if rc != 0:
        sys.stdout.write(out[-3000:])
        raise InfraError("axiom audit failed to run")
    ok = 0
    for n in names:
        m = re.search(r"'%s%s' (does not depend on any axioms|depends on axioms: \[([^\]]*)\])" % (re.escape(prefix), re.escape(n)), out)
        if not m:
            raise InfraError("audit: no axiom report for " + n)
        axs = set(a.strip() for a in (m.group(2) or "").replace("\n", " ").split(",") if a.strip())
        if not axs <= STD_AXIOMS:
            raise InfraError("audit: %s depends on %s" % (n, axs - STD_AXIOMS))
        ok += 1
    run.discharged = ok
    if thorough and os.environ.get("VERIF_LEANCHECKER", "1") == "1":
        rc, out = sh(["lake", "env", "leanchecker", module], cwd=LEAN, timeout=3000)
        run.notes.append("leanchecker %s rc=%d" % (module, rc))
        if rc != 0:
            sys.stdout.write(out[-3000:])
            raise InfraError("leanchecker rejected " + module)


def write_replay(run, payload):
    d = os.path.join(ROOT, "replays")
    os.makedirs(d, exist_ok=True)
    path = os.path.join(d, "%s-%s.json" % (run.pid, h(payload)))
    payload = dict(payload)
    payload["property"] = run.pid
    payload["replay_cmd"] = "./check %s --replay %s" % (run.pid, os.path.relpath(path, ROOT))
    with open(path, "w") as f:
        json.dump(payload, f, indent=1, default=str)
    return os.path.relpath(path, ROOT)


def write_evidence(run, violations):
    prop = run.prop
    ev = {
        "property_id": run.pid,
        "tier": run.tier,
        "seed": run.seed,
        "level": "proof",
        "coverage": {
            "obligations": len(run.theorems) + (1 if run.build_broken else 0),
            "discharged": run.discharged,
            "theorems": run.theorems,
            "checker_cmd": "cd lean && lake build %s && lake env lean .lake/audit/%s*.lean  (#print axioms of every listed theorem)" % (
                " ".join([prop.MODULE] + list(getattr(prop, "EXTRA_MODULES", []))), run.pid),
            "trusted_base": TRUSTED_BASE + list(getattr(prop, "TRUSTED", [])),
            "evaluations": run.evaluations,
            "distinct_nontrivial": len(run.nontrivial),
            "distinct_cases": len(run.distinct),
            "rule": getattr(prop, "RULE", ""),
            "samples": run.samples[:6] or ["(no case generated)"],
            "distribution": dict(run.dist.most_common(60)),
            "traces_validated_against_impl": run.traces,
            "model_requests": run.model.n if run.model else 0,
            "disagreements_in_domain": sum(1 for d in run.disagreements if d["in_domain"]),
            "context_disagreements": sum(1 for d in run.disagreements if not d["in_domain"]),
            "context_disagreement_samples": [d for d in run.disagreements if not d["in_domain"]][:3],
            "known_findings_reproduced": dict(run.known_hits),
            "exhaustive": bool(run.exhaustive),
            "notes": run.notes,
        },
        "assumptions": list(getattr(prop, "ASSUMPTIONS", [])),
        "wall_s": round(time.time() - run.t0, 2),
        "violations": violations,
    }
    os.makedirs(os.path.join(ROOT, "evidence"), exist_ok=True)
    with open(os.path.join(ROOT, "evidence", run.pid + ".json"), "w") as f:
        json.dump(ev, f, indent=1, default=str)


def finish(run):
    prop = run.prop
    if os.environ.get("VERIF_DUMP"):
        # development aid: every oracle failure and disagreement of this run
        with open(os.environ["VERIF_DUMP"], "w") as fh:
            json.dump({"failures": run.failures, "disagreements": run.disagreements}, fh, indent=1, default=str)
    violations = 0
    lines = []
    if run.failures:
        f = run.failures[0]
        if hasattr(prop, "shrink"):
            try:
                f = prop.shrink(run, f) or f
            except Exception as e:  # shrinking is best effort
                run.notes.append("shrink failed: %r" % (e,))
        path = write_replay(run, dict(kind="failing-input", clause=f["clause"], case=f["case"], detail=f["detail"],
                                      other_failures=len(run.failures) - 1))
        lines.append("VIOLATION property=%s replay=%s" % (run.pid, path))
        violations = len(run.failures)
    else:
        indomain = [d for d in run.disagreements if d["in_domain"]]
        context = [d for d in run.disagreements if not d["in_domain"]]
        if not (run.build_broken or indomain) and context and hasattr(prop, "search") and getattr(prop, "SEARCH_CONTEXT", False):
            # model and code differ only on inputs outside the theorems' hypotheses: the theorems still transfer on their own
            # domain, but the change may have broken the property elsewhere in its quantifier: look for a failing input on the real
            # code; none found = no alarm (DESIGN.md section 3, in-domain versus context disagreements)
            before = len(run.failures)
            try:
                prop.search(run, context)
            except Exception as e:
                run.notes.append("context search failed: %r" % (e,))
            if len(run.failures) > before:
                found = run.failures[before]
                path = write_replay(run, dict(kind="failing-input", clause=found["clause"], case=found["case"],
                                              detail=found["detail"], found_by="search after context disagreements"))
                lines.append("VIOLATION property=%s replay=%s" % (run.pid, path))
                violations = len(run.failures)
        if run.build_broken or indomain:
            # the proof obligation or the correspondence no longer checks: search the real code for a failing input
            found = None
            if hasattr(prop, "search"):
                before = len(run.failures)
                prop.search(run, indomain)
                if len(run.failures) > before:
                    found = run.failures[before]
            if found:
                path = write_replay(run, dict(kind="failing-input", clause=found["clause"], case=found["case"],
                                              detail=found["detail"], found_by="search after broken tie"))
                lines.append("VIOLATION property=%s replay=%s" % (run.pid, path))
            else:
                path = write_replay(run, dict(kind="broken-tie", what=("generated proof obligation: " + run.build_broken[-1500:]) if run.build_broken
                                              else "correspondence model-vs-implementation",
                                              theorems=run.theorems, disagreements=indomain[:5]))
                lines.append("VIOLATION property=%s replay=%s no-failing-input-found" % (run.pid, path))
            violations = max(1, len(run.failures))
    for kid, n in run.known_hits.items():
        e = known_ids(run.pid).get(kid)
        print("KNOWN-FINDING: property=%s %s (%d reproductions) %s" % (run.pid, kid, n, e["text"] if e else ""))
    write_evidence(run, violations)
    for l in lines:
        print(l)
    print("%s tier=%s seed=%d evaluations=%d nontrivial=%d theorems=%d/%d disagreements=%d(in-domain %d) failures=%d wall=%.1fs" % (
        run.pid, run.tier, run.seed, run.evaluations, len(run.nontrivial), run.discharged, len(run.theorems),
        len(run.disagreements), sum(1 for d in run.disagreements if d["in_domain"]), len(run.failures), time.time() - run.t0))
    return 1 if lines else 0


def main(prop, argv):
    import argparse
    ap = argparse.ArgumentParser()
    ap.add_argument("--tier", default=os.environ.get("VERIF_TIER", "quick"))
    ap.add_argument("--replay")
    args = ap.parse_args(argv)
    seed = int(os.environ.get("VERIF_SEED", "0"))
    sys.path.insert(0, REPO)
    import logging
    logging.disable(logging.CRITICAL)
    import warnings
    warnings.simplefilter("ignore")
    run = Run(prop, args.tier, seed)
    try:
        if args.replay:
            run.model = None
            payload = json.load(open(os.path.join(ROOT, args.replay) if not os.path.isabs(args.replay) else args.replay))
            ok = prop.replay(run, payload)
            if ok:
                print("replay: property holds on this input now")
                return 0
            print("VIOLATION property=%s replay=%s" % (run.pid, args.replay))
            return 1
        modules = [prop.MODULE] + list(getattr(prop, "EXTRA_MODULES", []))
        built = build(run, modules)
        if built:
            audit(run, modules, thorough=(args.tier == "thorough"))
        else:
            run.theorems = [n for m in modules for n in re.findall(
                r"^theorem\s+([^\s(\[{:]+)", strip_comments(open(os.path.join(LEAN, *m.split(".")) + ".lean").read()), flags=re.M)]
        if os.path.exists(DRIVER):
            run.model = Model()
        cov = None
        if os.environ.get("VERIF_IMPLCOV"):
            # development aid: which lines of /repo/lasio the correspondence and oracle inputs of this check execute
            import coverage
            cov = coverage.Coverage(include=[os.path.join(os.path.realpath(REPO), "lasio", "*")], branch=False, data_file=None)
            cov.start()
        try:
            try:
                prop.run(run)
            finally:
                if cov is not None:
                    cov.stop()
                    rep = {}
                    for f in sorted(cov.get_data().measured_files()):
                        _, executable, _, missing, _ = cov.analysis2(f)
                        rep[os.path.basename(f)] = {"executable": len(executable), "missing": missing}
                    with open(os.environ["VERIF_IMPLCOV"] + "." + run.pid + ".json", "w") as fh:
                        json.dump(rep, fh)
        except InfraError:
            raise
        except Exception as e:
            import traceback
            tb = traceback.format_exc()
            frames = traceback.extract_tb(e.__traceback__)
            if any(os.path.realpath(f.filename).startswith(os.path.realpath(REPO) + os.sep) for f in frames):
                # the implementation raised where the harness (written against the unchanged tree) expects it not to:
                # behaviour changed; report it as a failing input with the traceback as the replay detail
                run.fail("implementation-raised-unexpectedly", {"traceback_tail": tb[-1500:]}, {"exception": repr(e)})
            else:
                sys.stdout.write(tb)
                raise InfraError("harness crashed: %r" % (e,))
        try:
            return finish(run)       # (the search after a broken tie may still ask the model)
        finally:
            if run.model:
                run.model.close()
    except InfraError as e:
        print("INFRASTRUCTURE ERROR: %s" % e)
        return 2
    except subprocess.TimeoutExpired as e:
        print("INFRASTRUCTURE ERROR: timeout %s" % e)
        return 2
