"""C20 translator: Python `ast` of the lasio functions that own file handles -> terms of the `Stmt` IR
(lean/LasioModel/Resource.lean).  Over-approximating and small on purpose:

  v = open(..) / io.open(..)                  -> openV v          (itself a raise point)
  with open(..) as f: B                       -> withOpen [[B]]
  with helper(..) as f: B   (helper a generator decorated with contextlib.contextmanager, defined in las/reader/writer.py)
                                              -> the helper's body inlined, every `yield v` replaced by
                                                 tryFinally (move f v ; [[B]]) (move v f)   (an exception or return in B is
                                                 raised at the yield, as Python does; f and v name the same handle)
  v.close() / if hasattr(v,"close"): v.close()-> close v
  try/finally, try/except, if, for/while, return, raise -> their namesakes
      (an except clause is `choice handler raise`: the exception may not match)
  name = True/False ; if name: / if not name: -> setFlag / ifFlag   (names only ever assigned constants)
  x = f(..) with f in INLINE                  -> scope [[body of f]] with parameters bound to the caller's
                                                 variables and `return v` -> move target v ; ret
  break / continue                            -> the rest of the enclosing block becomes optional (choice rest skip)
  every other statement containing a call, attribute access or subscript -> mayRaise
An unknown statement kind makes the whole program `none` (broken tie -> search), never a crash.
"""
import ast
import os

from . import framework as fw

OPEN_CALLS = {"open", "io.open"}
INLINE = {
    "reader.open_file": ("reader", "open_file"),
    "open_with_codecs": ("reader", "open_with_codecs"),
    "adhoc_test_encoding": ("reader", "adhoc_test_encoding"),
    "writer.write": ("writer", "write"),
}
MAX_DEPTH = 5


class Unsupported(Exception):
    pass


class Tr:
    def __init__(self):
        self.src = {}
        self.vars = {}
        self.flags = {}

    def tree(self, mod):
        if mod not in self.src:
            with open(os.path.join(fw.REPO, "lasio", mod + ".py"), encoding="utf-8") as f:
                self.src[mod] = ast.parse(f.read())
        return self.src[mod]

    def find(self, mod, name):
        for n in ast.walk(self.tree(mod)):
            if isinstance(n, (ast.FunctionDef,)) and n.name == name:
                return n
        raise Unsupported("function %s.%s not found" % (mod, name))

    def var(self, scope, name):
        key = scope.bind.get(name, (scope.uid, name))
        return self.vars.setdefault(key, len(self.vars))

    def flag(self, scope, name):
        return self.flags.setdefault((scope.uid, name), len(self.flags))


class Scope:
    n = 0

    def __init__(self, fn, bind, ret_target, depth, pair_helper=None):
        Scope.n += 1
        self.uid = Scope.n
        self.fn = fn
        self.bind = bind            # callee name -> caller var key
        self.ret_target = ret_target  # caller var key (or None)
        self.ret_flag = None        # (caller scope, flag name) when the caller does `handle, flag = helper(..)`
        self.depth = depth
        # names that are only ever assigned the constants True/False -> flags
        assigned = {}
        for n in ast.walk(fn):
            if isinstance(n, ast.Assign) and len(n.targets) == 1 and isinstance(n.targets[0], ast.Name):
                v = n.value
                isflag = isinstance(v, ast.Constant) and isinstance(v.value, bool)
                assigned.setdefault(n.targets[0].id, []).append(isflag)
            elif isinstance(n, (ast.AugAssign, ast.AnnAssign)) and isinstance(n.target, ast.Name):
                assigned.setdefault(n.target.id, []).append(False)
            elif isinstance(n, (ast.For,)):
                for t in ast.walk(n.target):
                    if isinstance(t, ast.Name):
                        assigned.setdefault(t.id, []).append(False)
            elif isinstance(n, ast.Assign):
                t0 = n.targets[0]
                if (pair_helper is not None and len(n.targets) == 1 and isinstance(t0, ast.Tuple) and len(t0.elts) == 2
                        and all(isinstance(x, ast.Name) for x in t0.elts) and isinstance(n.value, ast.Call) and pair_helper(n.value)):
                    # `handle, opened = helper(..)` where every return of the helper is `(<handle>, True/False)`: `opened` is a flag
                    assigned.setdefault(t0.elts[0].id, []).append(False)
                    assigned.setdefault(t0.elts[1].id, []).append(True)
                    continue
                for t in n.targets:
                    for x in ast.walk(t):
                        if isinstance(x, ast.Name):
                            assigned.setdefault(x.id, []).append(False)
        params = {a.arg for a in fn.args.args + fn.args.kwonlyargs}
        self.flagnames = {k for k, v in assigned.items() if all(v) and k not in params}


def callname(c):
    try:
        return ast.unparse(c.func)
    except Exception:
        return "?"


def choice(a, b):
    return a if a == b else "(.choice %s %s)" % (a, b)


def seq(xs):
    """sequence; consecutive raise points are merged (same outcome sets), skips dropped"""
    flat = []
    for x in xs:
        if x == ".skip":
            continue
        if x == ".mayRaise" and flat and flat[-1] == ".mayRaise":
            continue
        flat.append(x)
    xs = flat
    if not xs:
        return ".skip"
    r = xs[-1]
    for x in reversed(xs[:-1]):
        r = "(.seq %s %s)" % (x, r)
    return r


def risky(node):
    """does evaluating this node possibly raise (any call, attribute access, subscript, arithmetic)"""
    for n in ast.walk(node):
        if isinstance(n, (ast.Call, ast.Attribute, ast.Subscript, ast.BinOp, ast.Compare, ast.Await, ast.Starred,
                          ast.ListComp, ast.DictComp, ast.SetComp, ast.GeneratorExp, ast.JoinedStr)):
            return True
    return False


def has_jump(stmts):
    """break/continue at this loop level (not inside a nested loop)"""
    for s in stmts:
        if isinstance(s, (ast.Break, ast.Continue)):
            return True
        if isinstance(s, (ast.For, ast.While, ast.FunctionDef, ast.ClassDef)):
            continue
        for field in ("body", "orelse", "finalbody"):
            if has_jump(getattr(s, field, []) or []):
                return True
        for hnd in getattr(s, "handlers", []) or []:
            if has_jump(hnd.body):
                return True
    return False


class Gen:
    def __init__(self):
        self.tr = Tr()

    def ctx_helper(self, call):
        """the FunctionDef of a generator-based context manager (`@contextlib.contextmanager`) of las / reader / writer called as
        helper(..), self.helper(..) or module.helper(..); None when the callee is something else"""
        f = call.func
        name = f.id if isinstance(f, ast.Name) else f.attr if isinstance(f, ast.Attribute) else None
        if name is None:
            return None
        for mod in ("las", "reader", "writer"):
            try:
                tree = self.tr.tree(mod)
            except Exception:
                continue
            for n in ast.walk(tree):
                if isinstance(n, ast.FunctionDef) and n.name == name and \
                        any(ast.unparse(d).split("(")[0].split(".")[-1] == "contextmanager" for d in n.decorator_list):
                    return n
        return None

    def opening_helper(self, call, _seen=None):
        """the FunctionDef of a plain function of las / reader / writer called as helper(..), self.helper(..) or module.helper(..)
        whose body contains (directly, or through such helpers again) an open() call; None otherwise"""
        f = call.func
        name = f.id if isinstance(f, ast.Name) else f.attr if isinstance(f, ast.Attribute) else None
        if name is None or name in ("open", "close", "read", "write", "to_csv"):
            return None
        seen = _seen if _seen is not None else set()
        if name in seen:
            return None
        seen.add(name)
        for mod in ("las", "reader", "writer"):
            try:
                tree = self.tr.tree(mod)
            except Exception:
                continue
            for n in ast.walk(tree):
                if isinstance(n, ast.FunctionDef) and n.name == name and not n.decorator_list:
                    for c in ast.walk(n):
                        if isinstance(c, ast.Call) and (callname(c) in OPEN_CALLS or (c is not call and self.opening_helper(c, seen) is not None)):
                            return n
        return None

    def pair_helper(self, call):
        """is `call` an opening helper all of whose returns are 2-tuples ending in a bool constant?"""
        fn = self.opening_helper(call)
        if fn is None:
            return False
        rets = [n for n in ast.walk(fn) if isinstance(n, ast.Return)]
        return bool(rets) and all(isinstance(r.value, ast.Tuple) and len(r.value.elts) == 2 and isinstance(r.value.elts[1], ast.Constant)
                                  and isinstance(r.value.elts[1].value, bool) for r in rets)

    def handle_target(self, scope, t):
        if isinstance(t, ast.Name):
            return t.id
        if isinstance(t, ast.Tuple) and t.elts and isinstance(t.elts[0], ast.Name):
            return t.elts[0].id
        return None

    def call_effect(self, scope, call, target):
        """effect of one call expression whose result (if a handle) goes to local name `target`"""
        nm = callname(call)
        if nm in OPEN_CALLS:
            if target is None:
                raise Unsupported("anonymous open() whose handle is not bound to a name")
            return "(.openV %d)" % self.tr.var(scope, target)
        auto = None
        if nm not in INLINE and scope.depth < MAX_DEPTH:
            auto = self.opening_helper(call)       # any other lasio function that (transitively) opens a file is inlined too
        if (nm in INLINE or auto is not None) and scope.depth < MAX_DEPTH:
            if auto is not None:
                fn = auto
            else:
                mod, fname = INLINE[nm]
                fn = self.tr.find(mod, fname)
            bind = {}
            params = [a.arg for a in fn.args.args]
            if params and params[0] == "self" and isinstance(call.func, ast.Attribute):
                params = params[1:]
            for p, a in zip(params, call.args):
                if isinstance(a, ast.Name):
                    bind[p] = scope.bind.get(a.id, (scope.uid, a.id))
            for kw in call.keywords:
                if kw.arg and isinstance(kw.value, ast.Name):
                    bind[kw.arg] = scope.bind.get(kw.value.id, (scope.uid, kw.value.id))
            rt = scope.bind.get(target, (scope.uid, target)) if target else None
            inner = Scope(fn, bind, rt, scope.depth + 1, self.pair_helper)
            inner.ret_flag = getattr(scope, 'pending_flag', None)
            return "(.scope %s)" % self.block(inner, fn.body)
        if nm.endswith(".close") and isinstance(call.func, ast.Attribute) and isinstance(call.func.value, ast.Name):
            return "(.close %d)" % self.tr.var(scope, call.func.value.id)
        return ".mayRaise"

    def expr_effects(self, scope, e, target=None):
        """effects of evaluating an expression statement / right-hand side"""
        if e is None:
            return []
        if isinstance(e, ast.Call):
            inner = [x for a in list(e.args) + [k.value for k in e.keywords] for x in self.expr_effects(scope, a)]
            return inner + [self.call_effect(scope, e, target)]
        out = []
        for c in ast.iter_child_nodes(e):
            if isinstance(c, ast.expr):
                out += self.expr_effects(scope, c)
        nested_calls = [n for n in ast.walk(e) if isinstance(n, ast.Call) and callname(n) in OPEN_CALLS]
        if nested_calls and not isinstance(e, ast.Call):
            raise Unsupported("open() nested inside an expression")
        if not out and risky(e):
            out = [".mayRaise"]
        return out

    def stmt(self, scope, s):
        if isinstance(s, ast.Expr) and isinstance(s.value, ast.Yield) and getattr(scope, "yield_body", None) is not None:
            v = s.value.value
            eff = []
            if isinstance(v, ast.Name) and scope.yield_target is not None:
                src = self.tr.var(scope, v.id)
                dst = self.tr.vars.setdefault(scope.yield_target, len(self.tr.vars))
                if src != dst:
                    return "(.tryFinally %s (.move %d %d))" % (seq(["(.move %d %d)" % (dst, src), scope.yield_body]), src, dst)
            elif v is not None:
                eff = self.expr_effects(scope, v)
            return seq(eff + [scope.yield_body])
        if isinstance(s, ast.Assign):
            t = s.targets[0]
            if isinstance(t, ast.Name) and t.id in scope.flagnames and isinstance(s.value, ast.Constant):
                return "(.setFlag %d %s)" % (self.tr.flag(scope, t.id), "true" if s.value.value else "false")
            tgt = self.handle_target(scope, t) if isinstance(s.value, ast.Call) else None
            scope.pending_flag = None
            if (isinstance(t, ast.Tuple) and len(t.elts) == 2 and isinstance(t.elts[1], ast.Name) and t.elts[1].id in scope.flagnames
                    and isinstance(s.value, ast.Call) and self.pair_helper(s.value)):
                scope.pending_flag = (scope, t.elts[1].id)
            eff = self.expr_effects(scope, s.value, tgt)
            scope.pending_flag = None
            if any(risky(x) for x in s.targets if not isinstance(x, (ast.Name, ast.Tuple))):
                eff.append(".mayRaise")
            return seq(eff)
        if isinstance(s, (ast.AugAssign, ast.AnnAssign)):
            return seq(self.expr_effects(scope, s.value) + ([".mayRaise"] if not isinstance(s.target, ast.Name) else []))
        if isinstance(s, ast.Expr):
            if isinstance(s.value, ast.Constant):
                return ".skip"
            return seq(self.expr_effects(scope, s.value))
        if isinstance(s, ast.Return):
            eff = []
            v = s.value
            if v is not None:
                first = v.elts[0] if isinstance(v, ast.Tuple) and v.elts else v
                if isinstance(first, ast.Call) and callname(first) in OPEN_CALLS and scope.ret_target is not None:
                    # `return open(..)`: the handle is born in the caller's variable
                    eff += [x for a in list(first.args) + [k.value for k in first.keywords] for x in self.expr_effects(scope, a)]
                    eff.append("(.openV %d)" % self.tr.vars.setdefault(scope.ret_target, len(self.tr.vars)))
                elif isinstance(first, ast.Call):
                    eff += self.expr_effects(scope, first, None)
                else:
                    eff += self.expr_effects(scope, v)
                if isinstance(first, ast.Name) and scope.ret_target is not None:
                    src = self.tr.var(scope, first.id)
                    dst = self.tr.vars.setdefault(scope.ret_target, len(self.tr.vars))
                    if src != dst:
                        eff.append("(.move %d %d)" % (dst, src))
                if scope.ret_flag is not None:
                    if not (isinstance(v, ast.Tuple) and len(v.elts) == 2 and isinstance(v.elts[1], ast.Constant) and isinstance(v.elts[1].value, bool)):
                        raise Unsupported("helper returns something else than (handle, True/False)")
                    cs, fname = scope.ret_flag
                    eff.append("(.setFlag %d %s)" % (self.tr.flag(cs, fname), "true" if v.elts[1].value else "false"))
            return seq(eff + [".ret"])
        if isinstance(s, ast.Raise):
            return seq((self.expr_effects(scope, s.exc) if s.exc is not None else []) + [".raise"])
        if isinstance(s, ast.Assert):
            return ".mayRaise"
        if isinstance(s, ast.If):
            t = s.test
            # `if hasattr(v, "close"): v.close()`  ==  close v
            if (isinstance(t, ast.Call) and callname(t) == "hasattr" and len(s.body) == 1 and not s.orelse
                    and isinstance(s.body[0], ast.Expr) and isinstance(s.body[0].value, ast.Call)
                    and callname(s.body[0].value).endswith(".close")):
                return self.stmt(scope, s.body[0])
            neg = False
            name = t
            if isinstance(t, ast.UnaryOp) and isinstance(t.op, ast.Not):
                neg, name = True, t.operand
            if isinstance(name, ast.Name) and name.id in scope.flagnames:
                a, b = self.block(scope, s.body), self.block(scope, s.orelse)
                if neg:
                    a, b = b, a
                return "(.ifFlag %d %s %s)" % (self.tr.flag(scope, name.id), a, b)
            return seq(self.expr_effects(scope, t) + [choice(self.block(scope, s.body), self.block(scope, s.orelse))])
        if isinstance(s, (ast.For, ast.While)):
            it = self.expr_effects(scope, s.iter if isinstance(s, ast.For) else s.test)
            body = self.block(scope, s.body)
            if isinstance(s, ast.While):
                body = seq([body] + it)
            elif risky(s.target) or True:
                body = seq([".mayRaise", body])      # the iterator's __next__ may raise on every round
            return seq(it + ["(.loop %s)" % body, choice(self.block(scope, s.orelse), ".skip") if s.orelse else ".skip"])
        if isinstance(s, ast.With) and len(s.items) == 1 and isinstance(s.items[0].context_expr, ast.Call) \
                and callname(s.items[0].context_expr) not in OPEN_CALLS and scope.depth < MAX_DEPTH:
            ce = s.items[0].context_expr
            fn = self.ctx_helper(ce)
            if fn is not None:
                if any(isinstance(n, ast.Return) for n in ast.walk(fn)):
                    raise Unsupported("return inside a context-manager helper")
                body = self.block(scope, s.body)
                params = [a.arg for a in fn.args.args]
                if params and params[0] == "self" and isinstance(ce.func, ast.Attribute):
                    params = params[1:]
                bind = {}
                for p_, a in zip(params, ce.args):
                    if isinstance(a, ast.Name):
                        bind[p_] = scope.bind.get(a.id, (scope.uid, a.id))
                for kw in ce.keywords:
                    if kw.arg and isinstance(kw.value, ast.Name):
                        bind[kw.arg] = scope.bind.get(kw.value.id, (scope.uid, kw.value.id))
                inner = Scope(fn, bind, None, scope.depth + 1, self.pair_helper)
                inner.yield_body = body
                ov = s.items[0].optional_vars
                inner.yield_target = scope.bind.get(ov.id, (scope.uid, ov.id)) if isinstance(ov, ast.Name) else None
                args_eff = [x for a in list(ce.args) + [k.value for k in ce.keywords] for x in self.expr_effects(scope, a)]
                return seq(args_eff + [".mayRaise", self.block(inner, fn.body)])
        if isinstance(s, ast.With):
            body = self.block(scope, s.body)
            for item in reversed(s.items):
                ce = item.context_expr
                if isinstance(ce, ast.Call) and callname(ce) in OPEN_CALLS:
                    body = "(.withOpen %s)" % body
                else:
                    body = seq(self.expr_effects(scope, ce) + [body])
            return body
        if isinstance(s, ast.Try):
            b = seq([self.block(scope, s.body), self.block(scope, s.orelse)])
            if s.handlers:
                hs = [self.block(scope, x.body) for x in s.handlers]
                h = ".raise"
                for x in reversed(hs):
                    h = choice(x, h)
                b = "(.tryExcept %s %s)" % (b, h)
            if s.finalbody:
                b = "(.tryFinally %s %s)" % (b, self.block(scope, s.finalbody))
            return b
        if isinstance(s, (ast.Pass, ast.Import, ast.ImportFrom, ast.Break, ast.Continue, ast.Global, ast.Nonlocal)):
            return ".skip"
        if isinstance(s, (ast.FunctionDef, ast.ClassDef)):
            return ".skip"       # a nested def only binds a name; its body runs when called (-> mayRaise at the call)
        if isinstance(s, ast.Delete):
            return ".mayRaise"
        raise Unsupported(type(s).__name__)

    def block(self, scope, stmts):
        out = []
        stmts = list(stmts or [])
        for i, s in enumerate(stmts):
            out.append(self.stmt(scope, s))
            if has_jump([s]) and i + 1 < len(stmts):
                rest = self.block(scope, stmts[i + 1:])
                out.append(choice(rest, ".skip"))
                break
        return seq(out)

    def program(self, mod, fname, params_caller_owned=()):
        fn = self.tr.find(mod, fname)
        scope = Scope(fn, {}, None, 0, self.pair_helper)
        for p in params_caller_owned:
            self.tr.var(scope, p)
        return self.block(scope, fn.body)


def header():
    return "import LasioModel.Resource"


PROGRAMS = [("readProg", "las", "read"), ("writeProg", "las", "write"), ("toCsvProg", "las", "to_csv")]


def emit():
    out = ["/-- control-flow skeletons (handle ownership) of LASFile.read / write / to_csv with their callees inlined;\n"
           "`none` when the translator met a construct it does not understand -/"]
    for lean_name, mod, fname in PROGRAMS:
        g = Gen()
        try:
            term = g.program(mod, fname)
            names = {v: k for k, v in g.tr.vars.items()}
            out.append("-- variables of %s: %s" % (lean_name, ", ".join("%d=%s" % (i, names[i][1]) for i in sorted(names))))
            out.append("def %s : Option Lasio.Stmt := some (\n  %s)" % (lean_name, term))
        except (Unsupported, RecursionError) as e:
            out.append("-- %s.%s: untranslatable: %s" % (mod, fname, e))
            out.append("def %s : Option Lasio.Stmt := none" % lean_name)
    return "\n".join(out)


def _group(lines):
    """each `def` together with its leading comments"""
    groups, cur = [], []
    for l in lines:
        cur.append(l)
        if l.startswith("def "):
            groups.append("\n".join(cur))
            cur = []
    if cur:
        groups.append("\n".join(cur))
    return groups


if __name__ == "__main__":
    print(emit())
