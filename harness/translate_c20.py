"""C20 translator (Python ast -> Stmt IR). Filled in once LasioModel/Resource.lean is in place."""


def emit():
    return ""


def header():
    return ""
