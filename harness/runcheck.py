import importlib
import sys

from . import framework as fw


def main():
    if len(sys.argv) < 2:
        print("usage: ./check <Cxx> [--tier quick|thorough] [--replay file]")
        return 2
    pid = sys.argv[1]
    if pid == "--selftest":
        m = fw.Model()
        ok = m.ask1({"op": "ping"}) == "pong"
        m.close()
        print("driver selftest", "ok" if ok else "FAILED")
        return 0 if ok else 2
    try:
        prop = importlib.import_module("harness.props." + pid.lower())
    except ImportError as e:
        print("no such property check:", pid, e)
        return 2
    return fw.main(prop, sys.argv[2:])


if __name__ == "__main__":
    sys.exit(main())
