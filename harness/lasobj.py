"""Generators of header item lists / small LASFile objects and canonical dumps (shared by C03, C12, ...).

Everything is built from a JSON-able *spec* so that twins of an object are built from the same spec
(never copy.deepcopy / pickle a LASFile in a generator).

spec = {"version": [item..],     extra items appended to the default ~Version (VERS, WRAP, DLM)
        "well":    [item..],     extra items appended to the default ~Well (STRT, STOP, STEP, NULL, COMP, ...)
        "params":  [item..],
        "curves":  [[mnemonic, unit, value, descr, [data..]]..],   first curve = index
        "other":   text,
        "well_edit": {mnemonic: [unit, value, descr]}  optional edits of default ~Well items,
        "version_edit": {mnemonic: [unit, value, descr]}  optional edits of default ~Version items,
        "version_delete": [mnemonic..]  default ~Version items removed first}
item = [mnemonic, unit, value, descr];  value = ["i", n] | ["f", hex] | ["s", text] | ["none"] | ["npi", n] | ["npf", hex]
"""
import numpy as np

LETTERS = "ABCXYZabcqrs"
DIGITS = "0123456789"
PUNCT = "-_/()[]%#'\"*+=<>!?&;,@"
NONASCII = "éÖмΩ"          # inside the alphabet of the model's upper/lower
SECTIONS = ("Version", "Well", "Curves", "Parameter")
ORDER12 = ("STRT", "STOP", "STEP", "NULL", "strt", "stop", "step", "null")


# ------------------------------------------------------------------ driver I/O
def ask(model, reqs, limit=16000):
    """model.ask in groups whose request text stays well below the pipe buffer (requests and answers of the
    header ops are several KB each; writing a large batch before reading any answer can dead-lock on the pipes)"""
    import json
    out, group, size = [], [], 0
    for r in reqs:
        n = len(json.dumps(r, ensure_ascii=True)) + 1
        if group and size + n > limit:
            out.extend(model.ask(group, chunk=len(group)))
            group, size = [], 0
        group.append(r)
        size += n
    if group:
        out.extend(model.ask(group, chunk=len(group)))
    return out


# ------------------------------------------------------------------ values
def dec(v):
    t = v[0]
    if t == "i":
        return int(v[1])
    if t == "f":
        return float.fromhex(v[1])
    if t == "s":
        return v[1]
    if t == "none":
        return None
    if t == "npi":
        return np.int64(v[1])
    if t == "npf":
        return np.float64(float.fromhex(v[1]))
    raise ValueError(v)


def cv(v):
    """canonical form of a header value"""
    if v is None:
        return ("none",)
    if isinstance(v, (bool, np.bool_)):
        return ("s", str(v))
    if isinstance(v, (int, np.integer)):
        return ("i", int(v))
    if isinstance(v, (float, np.floating)):
        return ("f", float(v).hex())
    return ("s", str(v))


def wval(v):
    """the value as the writer model sees it: [str(v), not v, v == 0, v is None]"""
    try:
        falsy = bool(not v)
    except Exception:
        falsy = False
    try:
        nz = bool(v != 0)
    except Exception:
        nz = True
    return [str(v), falsy, (not nz), v is None]


def standardize(v, unit):
    """reference copy of writer.standardize_value (used to state the documented difference)"""
    if unit and (not v) and (v != 0):
        v = 0
    if v is None:
        v = ""
    return v


# ------------------------------------------------------------------ building
def build(spec):
    import lasio
    from lasio import HeaderItem
    las = lasio.LASFile()
    for k, (u, v, d) in (spec.get("well_edit") or {}).items():
        it = las.well[k]
        it.unit, it.value, it.descr = u, dec(v), d
    for k, (u, v, d) in (spec.get("version_edit") or {}).items():
        it = las.version[k]
        it.unit, it.value, it.descr = u, dec(v), d
    for k in spec.get("version_delete", []):
        del las.version[k]
    for m, u, v, d in spec.get("version", []):
        las.version.append(HeaderItem(m, u, dec(v), d))
    for m, u, v, d in spec.get("well", []):
        las.well.append(HeaderItem(m, u, dec(v), d))
    for m, u, v, d in spec.get("params", []):
        las.params.append(HeaderItem(m, u, dec(v), d))
    for m, u, v, d, data in spec.get("curves", []):
        las.append_curve(m, np.array([float.fromhex(x) if isinstance(x, str) else x for x in data], dtype=float),
                         unit=u, value=dec(v), descr=d)
    las.other = spec.get("other", "")
    return las


def section_items(las, key):
    return list(list.__iter__(las.sections[key]))


def snapshot(las):
    """the header as the writer model wants it: {section: [[orig, session, unit, wval, descr]..]}, other"""
    secs = {}
    for k in SECTIONS:
        secs[k] = [[i.original_mnemonic, i.mnemonic, str(i.unit), wval(i.value), str(i.descr)] for i in section_items(las, k)]
    return secs, las.other


def canon_sections(las):
    """[[key, [[orig, session, unit, cv(value), descr]..] | text]..] in section order"""
    out = []
    for k, sec in las.sections.items():
        if isinstance(sec, str):
            out.append([k, sec])
        else:
            out.append([k, [[i.original_mnemonic, i.mnemonic, i.unit, cv(i.value), i.descr] for i in list.__iter__(sec)]])
    return out


def canon_data(las):
    """curve data as nested lists of float hex (NaN -> 'nan'), text cells as they are"""
    out = []
    for c in las.curves:
        col = []
        for x in np.asarray(c.data).tolist():
            if isinstance(x, float):
                col.append("nan" if x != x else x.hex())
            else:
                col.append(x)
        out.append(col)
    return out


def pre_write_update(las, STRT=None, STOP=None, STEP=None):
    """what write() does to the object before the header is formatted (writer.py:115-127), with the real methods"""
    if las.index_initial is not None:
        index_changed = not np.array_equal(las.index_initial, las.index)
        stop_is_different = las.index_initial[-1] != las.well.STOP.value
    else:
        index_changed, stop_is_different = True, False
    if index_changed or stop_is_different:
        las.update_start_stop_step(STRT, STOP, STEP)
    las.update_units_from_index_curve()


# ------------------------------------------------------------------ field generators
def word(rng, n, alpha):
    return "".join(rng.choice(alpha) for _ in range(n))


CASE_VARIANTS = ["Null", "Strt", "strt", "stop", "Step", "null", "NULL", "dept", "Dept", "DEPT", "Gr", "GR", "gr"]


def gen_mnemonic(rng, avoid=()):
    """conformant mnemonic: stripped, non-empty, no '.' ':', not starting with '#' or '~' (comment / title markers)"""
    for _ in range(50):
        r = rng.random()
        if r < 0.18:
            s = rng.choice(CASE_VARIANTS)
        elif r < 0.3:
            s = rng.choice(["A", "B", "AB", "LONGNAME1234", "X"])
        else:
            s = word(rng, rng.randint(1, 8), LETTERS + DIGITS + "_-/" + NONASCII + "()[]%")
            if rng.random() < 0.2 and len(s) >= 3:
                k = rng.randint(1, len(s) - 1)
                s = s[:k] + " " + s[k:]
            s = s.strip()
        if s and s[0] not in "#~" and s.upper() not in avoid and s not in avoid:
            return s
    return "Q"


def gen_unit(rng, width=None):
    """conformant unit: no white space, no '..', not purely numeric, not bracketed, no leading/trailing '.'"""
    if width is None:
        if rng.random() < 0.35:
            return ""
        width = rng.randint(1, 7)
    for _ in range(50):
        s = word(rng, width, LETTERS + DIGITS + "/-%()[]:" + NONASCII + ".")
        if unit_ok(s):
            return s
    return "M" * width


def unit_ok(s):
    if s == "":
        return True
    if any(c.isspace() for c in s) or ".." in s or s.isdigit() or s[0] == "." or s[-1] == ".":
        return False
    if len(s) >= 2 and ((s[0] == "[" and s[-1] == "]") or (s[0] == "(" and s[-1] == ")")):
        return False
    return True


def gen_text(rng, width=None, curves=False):
    """conformant value / description text: stripped, no ':', (~Curves values: no '..')"""
    if width is None:
        width = rng.randint(1, 14)
    base = LETTERS + DIGITS + PUNCT + ". " + NONASCII
    for _ in range(50):
        s = word(rng, width, base).strip()
        if curves:
            while ".." in s:
                s = s.replace("..", ".")
        if s == s.strip() and len(s) > 0:
            return s
    return "x" * width


def gen_value(rng, curves=False, width=None):
    """JSON-able value spec: int, float, numpy int/float, numeric text, text, empty, None"""
    if width is not None:
        r = rng.random()
        if r < 0.4:
            return ["s", gen_text(rng, width, curves)]
        if r < 0.7:
            return ["i", int("1" + word(rng, width - 1, DIGITS))] if width >= 1 else ["s", ""]
        return ["s", "1." + word(rng, max(width - 2, 1), DIGITS)]
    r = rng.random()
    if r < 0.15:
        return ["s", ""]
    if r < 0.22:
        return ["none"]
    if r < 0.34:
        return ["i", rng.choice([0, 1, -5, 12, 1500, 10 ** 12])]
    if r < 0.46:
        return ["f", float(rng.choice([0.0, 1.5, -9999.25, 1e-07, 123456.789, 2.0, 1e22])).hex()]
    if r < 0.52:
        return ["npi", rng.choice([0, 7, -3])]
    if r < 0.58:
        return ["npf", float(rng.choice([0.0, 2.5, -0.125])).hex()]
    if r < 0.68:
        return ["s", rng.choice(["12", "1.50", "-3", "1e5", "+4", "007", ".5", "15_9", "1,5", "٣", "nan", "inf", "0", "0.0",
                                 "LSD 12,4 SEC 7", "1,5-2,5", "KB 12,5 ft", "1,234,567", "a1,2b"])]
    return ["s", gen_text(rng, None, curves)]


def gen_item(rng, sec, avoid=()):
    curves = sec == "Curves"
    return [gen_mnemonic(rng, avoid), gen_unit(rng), gen_value(rng, curves), gen_text(rng) if rng.random() < 0.8 else ""]


# names that must stay unique / unambiguous for write() and read() themselves to work
AVOID = {"Version": ("VERS", "WRAP", "DLM"), "Well": ("STRT", "STOP", "STEP"), "Curves": (), "Parameter": ()}


def gen_items(rng, sec, n=None):
    """0..n items; duplicates, case variants; each item in turn made the widest of its section"""
    if n is None:
        n = rng.choice([0, 1, 2, 3, 4, 6])
    items = [gen_item(rng, sec, AVOID[sec]) for _ in range(n)]
    if n >= 2 and rng.random() < 0.5:            # duplicate mnemonic
        a, b = rng.sample(range(n), 2)
        items[b][0] = items[a][0]
    if n and rng.random() < 0.7:                  # one item is strictly the widest in one of the three columns
        k = rng.randrange(n)
        col = rng.choice(["mnemonic", "unit", "value", "descr"])
        if col == "mnemonic":
            items[k][0] = "W" + word(rng, 14, LETTERS + DIGITS)
        elif col == "unit":
            items[k][1] = gen_unit(rng, rng.choice([16, 16, 40, 75]))
        elif col == "value":
            items[k][2] = gen_value(rng, sec == "Curves", rng.choice([22, 22, 22, 60, 72, 73, 80, 150, 260]))
        else:
            items[k][3] = gen_text(rng, rng.choice([30, 30, 75, 130, 260]))
    if n and rng.random() < 0.2:                  # blank mnemonic on a line with no further period
        k = rng.randrange(n)
        nodot = lambda t: t.replace(".", "")
        v = items[k][2]
        if v[0] in ("f", "npf"):
            v = ["i", 3]
        elif v[0] == "s":
            v = ["s", nodot(v[1]).strip()]
        items[k] = ["", nodot(items[k][1]) if unit_ok(nodot(items[k][1])) else "M", v, nodot(items[k][3]).strip()]
    return items


def gen_other(rng):
    """~Other text in normal form: '\\n' separated stripped lines not starting with '~', no trailing newline"""
    r = rng.random()
    if r < 0.3:
        return ""
    lines = []
    for _ in range(rng.randint(1, 4)):
        s = gen_text(rng, rng.randint(1, 20) if rng.random() < 0.9 else rng.choice([254, 255, 256, 300]))
        if s.startswith("~"):
            s = "x" + s
        lines.append(s)
    return "\n".join(lines)


def gen_data(rng, ncurves, nrows=None):
    if nrows is None:
        nrows = rng.randint(1, 5)
    start = rng.choice([0.0, 100.0, 1500.5])
    step = rng.choice([1.0, 0.5, 0.125, -1.0])
    cols = [[(start + i * step).hex() for i in range(nrows)]]
    for _ in range(ncurves - 1):
        cols.append([float(rng.choice([rng.randint(-2000, 2000), round(rng.uniform(-1e4, 1e4), 3), 1e-07, 0.0])).hex()
                     for _ in range(nrows)])
    return cols


def gen_spec(rng, conformant=True, ncurves=None):
    if ncurves is None:
        ncurves = rng.randint(1, 4)
    cols = gen_data(rng, ncurves)
    curves = []
    for j in range(ncurves):
        m, u, v, d = gen_item(rng, "Curves")
        if j == 0:
            m = rng.choice(["DEPT", "DEPTH", "TIME", m])
        curves.append([m, u, v, d, cols[j]])
    if ncurves >= 2 and rng.random() < 0.4:
        curves[-1][0] = curves[rng.randrange(ncurves - 1)][0] if ncurves > 1 else curves[-1][0]
    if curves and rng.random() < 0.5:              # a curve is the widest in one column
        k = rng.randrange(len(curves))
        col = rng.choice([1, 2, 3])
        curves[k][col] = [None, gen_unit(rng, 15), gen_value(rng, True, 20), gen_text(rng, 28)][col]
    spec = {"version": gen_items(rng, "Version", rng.choice([0, 0, 1, 2])),
            "well": gen_items(rng, "Well"), "params": gen_items(rng, "Parameter"),
            "curves": curves, "other": gen_other(rng)}
    if rng.random() < 0.3:
        spec["well_edit"] = {"STRT": [gen_unit(rng), ["s", ""], "START DEPTH"]}
    return spec


# ------------------------------------------------------------------ conformance (the property's domain)
def text_ok(s, curves_value=False):
    return isinstance(s, str) and s == s.strip() and ":" not in s and "\n" not in s and "\r" not in s and \
        not (curves_value and ".." in s) and all(not _linebreak(c) for c in s)


def _linebreak(c):
    return c in "\n\r\x0b\x0c\x1c\x1d\x1e\x85  "


def mnemonic_ok(s):
    return isinstance(s, str) and s != "" and s == s.strip() and "." not in s and ":" not in s and s[0] not in "#~" \
        and all(not _linebreak(c) for c in s)


def item_ok(m, u, v, d, sec):
    """is the item inside the domain of C03 (LAS-conformant fields)"""
    vt = str(standardize(v, u))
    if m.strip() == "":
        # blank mnemonic: the line must have no further period
        return m == "" and unit_ok(u) and "." not in u and text_ok(vt) and "." not in vt and text_ok(d) and "." not in d
    return mnemonic_ok(m) and isinstance(u, str) and unit_ok(u) and text_ok(vt, sec == "Curves") and text_ok(d)


def other_ok(t):
    if t == "":
        return True
    lines = t.split("\n")
    return all(ln == ln.strip() and not ln.startswith("~") and all(not _linebreak(c) for c in ln) for ln in lines) \
        and lines[-1] != ""
