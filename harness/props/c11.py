"""C11 — lasio's own output is a fixed point of read -> write."""
import glob
import io
import math
import os
import re

from .. import framework as fw
from .. import lasobj as lo
from .. import lasdoc as ld
from . import c16

ID = "C11"
MODULE = "LasioProofs.Props.C11"
EXTRA_MODULES = ["LasioProofs.Props.C11File", "LasioProofs.Props.C11Data", "LasioProofs.Props.C01FileDlm", "LasioProofs.Props.C11Refresh", "LasioProofs.Props.C11Typed", "LasioProofs.Props.C11EndToEnd", "LasioProofs.Props.C11FixedText", "LasioProofs.Props.C11EndToEndWrap"]
RULE = ("inputs x writer option sets x cycles: L0 = read(x); x1 = write(L0); L1 = read(x1); x2 = write(L1); L2 = read(x2); ... up to "
        "k = 4 re-reads.  Inputs: every file of tests/examples (unreadable / unwritable ones counted and skipped), generated documents "
        "(harness/lasdoc.gen_doc: section permutations, custom sections, fillers, DLM variants; c16.gen_text: right / wrong STOP, unit "
        "mismatches, STEP values that do not describe the data, WRAP spelled Yes/yes/No; texts written by lasio from generated objects; a sweep of WRAP "
        "spellings x 2..4 curves x data_width 12/24/79 x wrap None/True/False), and line mutations of all of them (duplicated / blank mnemonics, "
        "units .1IN / 1000 lbf / numeric units with empty values, empty values, long fields, colons, case variants).  Options: version "
        "1.2 / 2.0 / None, wrap None / True / False, fmt %.5f / %.2f / %.8f / widths, column_fmt, len_numeric_field, spacers, data_width, "
        "mnemonics_header.  ORACLE on the real code: canon(L_{i+1}) = canon(L_i) for i >= 1 (every section incl. custom ones: original "
        "and session mnemonic, unit, value — numbers numerically, everything else as text —, description; ~Other text; curve data as "
        "float hex / text), and every later write succeeds; text drift x_{i+1} != x_i with equal content is only counted.  "
        "CORRESPONDENCE: every write of every cycle vs model op wo.write (byte-exact text + object dump).  non-trivial = the input is a "
        "mutation or a corpus file, or the options leave the defaults")
TRUSTED = ["the READ half of the cycle is the real reader only (its models belong to C02/C04/C05/C07/C08); the theorems of this property are "
           "about the writer side and about one header line (C03_item)",
           "strtod: float(token) of a printed %.Nf token lies within half a unit of the last digit (C01's assumption), so that C11_fmt_stable "
           "applies to the value read back"]
ASSUMPTIONS = ["the input is readable and its first write succeeds and is readable (otherwise the input is counted and skipped)",
               "the same writer options are used in every cycle", "curve data compared exactly only when numeric; text cells compared as text"]

EX = c16.EX


# ------------------------------------------------------------------------------------------------ canonical content
def is_num(v):
    import numpy as np
    return isinstance(v, (int, float, np.integer, np.floating)) and not isinstance(v, (bool, np.bool_))


def canon(las):
    import numpy as np
    secs = []
    for k, sec in las.sections.items():
        if isinstance(sec, str):
            secs.append([k, sec])
        else:
            items = []
            for i in list.__iter__(sec):
                v = i.value
                items.append([i.original_mnemonic, i.mnemonic, i.unit, (["n", c16.hx(float(v) + 0.0 if float(v) != 0 else 0.0)] if is_num(v) else ["s", str(v)]), i.descr])
            secs.append([k, items])
    data = []
    for c in las.curves:
        a = np.asarray(c.data)
        if a.dtype.kind == "f":
            data.append(["f"] + [c16.hx(x) for x in a.tolist()])
        else:
            data.append(["t"] + [str(x) for x in a.tolist()])
    return {"sections": secs, "data": data}


def diff(a, b):
    """first differences between two canonical dumps: list of [where, a, b]"""
    out = []
    ka, kb = [s[0] for s in a["sections"]], [s[0] for s in b["sections"]]
    if ka != kb:
        return [["section-keys", ka, kb]]
    for sa, sb in zip(a["sections"], b["sections"]):
        if isinstance(sa[1], str) or isinstance(sb[1], str):
            if sa[1] != sb[1]:
                out.append(["text:" + sa[0], sa[1][:300], sb[1][:300]])
            continue
        if len(sa[1]) != len(sb[1]):
            out.append(["count:" + sa[0], [i[0] for i in sa[1]], [i[0] for i in sb[1]]])
            continue
        for j, (p, q) in enumerate(zip(sa[1], sb[1])):
            if p != q:
                f = [n for n, x, y in zip(("orig", "session", "unit", "value", "descr"), p, q) if x != y]
                out.append(["item:%s:%d:%s" % (sa[0], j, "+".join(f)), p, q])
    if len(a["data"]) != len(b["data"]):
        out.append(["data-columns", len(a["data"]), len(b["data"])])
    else:
        for j, (p, q) in enumerate(zip(a["data"], b["data"])):
            if p != q:
                k = next((i for i, (x, y) in enumerate(zip(p, q)) if x != y), min(len(p), len(q)))
                out.append(["data:%d" % j, p[max(0, k - 1):k + 3], q[max(0, k - 1):k + 3]])
    return out[:6]


# ------------------------------------------------------------------------------------------------ one input
def read(src, kw):
    import lasio
    if src["kind"] == "file":
        return lasio.read(os.path.join(EX, src["file"]), **kw)
    return lasio.read(src["text"], **kw)


def cycle(run, src, cfg, kw, k, tags, pend, nontrivial=True):
    """the whole history of one input under one option set"""
    import lasio
    case = {"src": src if src["kind"] == "file" else {"kind": "text", "text": src["text"]}, "cfg": cfg, "read_kw": kw, "k": k}
    try:
        L = read(src, kw)
    except Exception as e:
        run.dist["input-unreadable"] += 1
        return
    try:
        first_refresh = c16.refresh_condition(L)      # decided on the object as read, before the write changes it
    except Exception:
        first_refresh = None
    try:
        x = c16.write(L, cfg)
    except Exception as e:
        run.dist["input-unwritable:" + type(e).__name__] += 1
        return
    try:
        L1 = lasio.read(x, **kw)
    except Exception as e:
        run.dist["first-output-unreadable:" + type(e).__name__] += 1
        return
    ctx = context(L, cfg, first_refresh)
    run.case(case, nontrivial=nontrivial, tags=list(tags) + ["version=%s" % cfg["version"], "wrap=%s" % cfg["wrap"], "fmt=" + cfg["fmt"]])
    prev_text, prev = x, canon(L1)
    cur = L1
    for i in range(1, k):
        icase = dict(case, cycle=i + 1)
        mo = c16.model_obj(cur) if run.model is not None else None
        sd = c16.step_diff(cur)
        try:
            x2 = c16.write(cur, cfg)
        except Exception as e:
            run.fail("rewrite-raised", icase, {"exception": repr(e)[:300], "context": ctx})
            return
        req = c16.wo_request(cfg, mo, sd) if mo is not None else None
        if req is not None:
            pend.append((icase, req, x2, None, c16.model_obj(cur)))
        else:
            run.dist["write-outside-model-domain"] += 1
        try:
            L2 = lasio.read(x2, **kw)
        except Exception as e:
            run.fail("reread-raised", icase, {"exception": repr(e)[:300], "text": x2[:1200], "context": ctx})
            return
        c2 = canon(L2)
        d = diff(prev, c2)
        if d:
            hdr = [e for e in d if not e[0].startswith("data")]
            dat = [e for e in d if e[0].startswith("data")]
            # one failure per kind of drift, so that each is classified on its own
            groups = {}
            for e in hdr:
                groups.setdefault(drift_kind(e), []).append(e)
            for g in groups.values():
                run.fail("header-drift", icase, {"diff": g, "first_output": prev_text[:1500], "context": ctx})
            if dat:
                run.fail("data-drift", icase, {"diff": dat, "context": ctx})
        elif x2 != prev_text:
            run.dist["text-drift-with-equal-content"] += 1
        else:
            run.dist["text-fixed-point"] += 1
        prev_text, prev, cur = x2, c2, L2
    if len(pend) >= 128:
        c16.flush(run, pend)


# ------------------------------------------------------------------------------------------------ generators
def gen_cfg(rng, plain=False):
    if plain:
        return dict(version=rng.choice([1.2, 2.0, None]), wrap=None, fmt="%.5f", column_fmt=[], len_numeric_field=None, lhs_spacer=" ",
                    spacer=" ", data_width=79, header_width=60, mnemonics_header=False, data_section_header="~ASCII")
    fmt = rng.choice(["%.5f", "%.5f", "%.2f", "%.8f", "%10.3f", "%.0f", "%14.6f"])
    cf = [[0, rng.choice(["%.3f", "%.1f", "%12.6f"])]] if rng.random() < 0.25 else []
    cfg = dict(version=rng.choice([1.2, 2.0, None]), wrap=rng.choice([None, True, False]), fmt=fmt, column_fmt=cf,
               len_numeric_field=rng.choice([None, None, -1, 12, 18]), lhs_spacer=rng.choice([" ", "", "  "]),
               spacer=rng.choice([" ", "  "]), data_width=rng.choice([79, 60, 120, 24, 36]), header_width=rng.choice([60, 60, 40]),
               mnemonics_header=rng.random() < 0.25, data_section_header=rng.choice(["~ASCII", "~A"]))
    if rng.random() < 0.2:
        # the STRT / STOP / STEP keyword arguments ("forall writer option sets"): numbers, text, only some of them given
        val = lambda: rng.choice([["none"], ["none"], ["f", float(rng.choice([0.0, 1.5, 100.0, 1670.0, -3.25])).hex()], ["i", rng.choice([0, 7, 2000])],
                                  ["s", rng.choice(["", "12.5", "top"])]])
        cfg["sss"] = [val(), val(), val()]
    return cfg


MUT_LINES = {
    "W": ["Q.1000 lbf : numeric unit, empty value", "R.1000 lbf 7 : numeric unit", "TOOL.1IN 5 : odd unit", "S..1IN 12 : unit .1IN",
          "E. : empty", "EU.M : empty with unit", "EU2.M  : ", ".M 5 : blank mnemonic", ". 6 : blank mnemonic no unit",
          "COMP. ACME : dup comp", "COMP. OTHER : dup comp again", "TIME. 12:30 : start time", "LOC. A : location: site",
          "LONGMNEMONICNAME123456.LONGUNIT123 " + "v" * 60 + " : " + "d" * 70, "Null. -1 : case variant", "strt.M 1 : lower-case strt",
          "DATE. 2001-01-01 00:00:00 : date", "X.M 0 : zero", "Y.M 0.0 : zero float", "Z. 007 : leading zeros", "N. 1e5 : exponent",
          "P. .5 : no leading digit", "K.% 12,5 : comma decimal", "U.[M] 3 : bracketed unit", "V.(FT) 4 : parenthesised unit",
          "UWI. 05-123-45678 : id", "API. 0512345678 : leading zero id", "B. -  : dash", "T. 1 2 3 : blanks in value"],
    "C": ["A.M : dup a", "A.M : dup a again", ".M : blank curve", "GR.1000 lbf : numeric unit", "LONGCURVENAME0123456789.UNITUNITUNIT 12 345 : " + "c" * 50,
          "RHOB.K/M3 45 350 02 00 : api code", "Gr.GAPI : case variant"],
    "P": ["Q.1000 lbf : numeric unit, empty value", "BHT.DEGC 35.5 : temp", "BHT.DEGC 36 : dup temp", "MUD. GEL CHEM : mud", "E.OHMM : empty with unit",
          ". : nothing at all", "RUN.  : empty", "T.S 12:30 : clock", "D.M 1.0E+2 : exponent", "L." + "U" * 25 + " " + "1" * 30 + " : long"],
}


def mutate(rng, text):
    """insert / duplicate / replace header lines of a document"""
    lines = text.split("\n")
    heads = [i for i, l in enumerate(lines) if l.startswith("~")]
    if not heads:
        return text, "none"
    what = []
    for _ in range(rng.randint(1, 3)):
        kinds = [(i, lines[i][1:2].upper()) for i in heads if lines[i][1:2].upper() in ("W", "C", "P")]
        if not kinds:
            break
        i, kd = rng.choice(kinds)
        r = rng.random()
        if kd == "C" and r < 0.8:
            # a curve line can only be duplicated / renamed in place (the data columns must keep their count)
            nxt = min([h for h in heads if h > i] + [len(lines)])
            body = [j for j in range(i + 1, nxt) if lines[j].strip() and not lines[j].lstrip().startswith("#")]
            if len(body) >= 2:
                a, b = rng.sample(body, 2)
                m = lines[a].split(".", 1)[0]
                lines[b] = m + "." + lines[b].split(".", 1)[1] if "." in lines[b] else lines[b]
                what.append("curve-duplicate")
            elif body:
                j = rng.choice(body)
                lines[j] = rng.choice(["", "  "]) + "." + lines[j].split(".", 1)[1] if "." in lines[j] else lines[j]
                what.append("curve-blank")
            continue
        if kd == "C":
            continue
        new = rng.choice(MUT_LINES[kd])
        lines.insert(i + 1 + rng.randint(0, 2) if i + 3 < len(lines) and not any(i < h <= i + 3 for h in heads) else i + 1, new)
        heads = [j for j, l in enumerate(lines) if l.startswith("~")]
        what.append(kd + ":" + new.split(" ")[0][:12])
    return "\n".join(lines), ",".join(what) or "none"


def corpus():
    fs = glob.glob(os.path.join(EX, "**", "*.las"), recursive=True) + glob.glob(os.path.join(EX, "**", "*.LAS"), recursive=True)
    return sorted(set(os.path.relpath(f, EX) for f in fs))


def file_text(rel):
    """the decoded text of a corpus file as lasio sees it (None when it needs a special codec)"""
    try:
        raw = open(os.path.join(EX, rel), "rb").read()
        if len(raw) > 40000 or raw[:2] in (b"\xff\xfe", b"\xfe\xff"):
            return None
        return raw.decode("utf-8")
    except Exception:
        return None


# candidate inputs, run first on every run
NUMERIC_UNIT = ("~V\nVERS. 2.0 : v\nWRAP. NO : w\n~W\nSTRT.M 1.0 : s\nSTOP.M 2.0 : s\nSTEP.M 1.0 : s\nNULL. -999.25 : n\n"
                "Q.1000 lbf : numeric unit, empty value\n~C\nDEPT.M : d\nA. : a\n~P\nQ.1000 lbf : numeric unit, empty value\n~A\n1.0 5\n2.0 6\n")
NUMERIC_INDEX_UNIT = ("~V\nVERS. 2.0 : v\nWRAP. NO : w\n~W\nSTRT.M 1.0 : s\nSTOP.M 2.0 : s\nSTEP.M 1.0 : s\nNULL. -999.25 : n\n"
                      "~C\nDEPT.1000 : d\nA. : a\n~A\n1.0 5\n2.0 6\n")
PURE_NUMERIC_UNIT = ("~V\nVERS. 2.0 : v\nWRAP. NO : w\n~W\nSTRT.M 1.0 : s\nSTOP.M 2.0 : s\nSTEP.M 1.0 : s\nNULL. -999.25 : n\n"
                     "Q.1000 : purely numeric unit, empty value\n~C\nDEPT.M : d\nA. : a\n~A\n1.0 5\n2.0 6\n")
LEADING_PERIOD_UNIT = ("~V\nVERS. 2.0 : v\nWRAP. NO : w\n~W\nSTRT..1IN 1.0 : s\nSTOP..1IN 2.0 : s\nSTEP..1IN 1.0 : s\nNULL. -999.25 : n\n"
                       "~C\nDEPT ..1IN : d\nA. : a\n~A\n1.0 5\n2.0 6\n")
COLON_VALUE = ("~V\nVERS. 2.0 : v\nWRAP. NO : w\n~W\nSTRT.M 1.0 : s\nSTOP.M 2.0 : s\nSTEP.M 1.0 : s\nNULL. -999.25 : n\n"
               "TIME. 12:30 : start time\n~C\nDEPT.M : d\nA. : a\n~A\n1.0 5\n2.0 6\n")
def special_docs(rng):
    """inputs that need something specific: several ' : ' on a ~Well line (the value keeps all but the last), very long header
    items, an index with more decimals than '%.5f' prints next to a STOP that does not state its last value, header numbers in
    exponent notation"""
    head = "~V\nVERS. 2.0 : v\nWRAP. NO : w\n~W\n"
    tail = "~C\nDEPT.M : d\nA. : a\n~A\n"
    out = []
    for line in ("COMP. ANY OIL COMPANY INC. : WESTERN DIVISION : COMPANY", "DATE. 13-DEC-86 : 14:30 : LOG DATE", "LOC. A : B : C : D",
                 "SRVC. \"quoted : text\" : x : service", "FLD . a:b : c : field"):
        out.append((head + "STRT.M 1.0 : s\nSTOP.M 2.0 : s\nSTEP.M 1.0 : s\nNULL. -999.25 : n\n" + line + "\n" + tail + "1.0 5\n2.0 6\n", "multi-colon"))
    # a unit that is a decimal number or a fraction, typed directly after the dot, with no value: the widest unit + value of its section
    for sect, line in (("~P\n", "BS.8.5 : bit size"), ("~P\n", "RMF.0.25 : mud filtrate"), ("~P\n", "TOL.1/32 : tolerance"), ("", "BS.8.5 : bit size"),
                       ("~P\n", "CS.9.625 : casing\nX.M 1 : x")):
        well = "STRT.M 1.0 : s\nSTOP.M 2.0 : s\nSTEP.M 1.0 : s\nNULL. -999.25 : n\n"
        out.append((head + well + (line + "\n" if not sect else "") + (sect + line + "\n" if sect else "") + tail + "1.0 5\n2.0 6\n", "decimal-unit"))
    for n in (70, 79, 80, 95, 140):
        words = " ".join("w%d" % i for i in range(n // 4))[:n]
        out.append((head + "STRT.M 1.0 : s\nSTOP.M 2.0 : s\nSTEP.M 1.0 : s\nNULL. -999.25 : n\nLOC.M1250 " + words + " : location\n~P\nREM.X " + words +
                    " : remark\n" + tail + "1.0 5\n2.0 6\n", "long-item"))
    for k in range(16):
        if k % 2:
            a = round(rng.uniform(100, 4000), rng.choice([6, 7, 9]))
            step = round(rng.uniform(0.01, 2), rng.choice([6, 8]))
        else:
            # the fifth decimal of the difference of two samples is not the difference of their fifth decimals
            a = round(rng.uniform(100, 4000), 5) + 4e-6
            step = round(rng.uniform(0.01, 2), 5) + 4e-6
        idx = [a + i * step for i in range(4)]
        stop = rng.choice(["%.4f" % idx[-1], "%.2f" % idx[-1], "%.6f" % (idx[-1] + step), repr(idx[-1]),
                           "%.6f" % (idx[-1] * (1 + 5e-6)), "%.6f" % (idx[-1] + 1.9e-5), "%.7f" % (idx[-1] - 7e-6)])
        rows = "".join("%r %d\n" % (x, i) for i, x in enumerate(idx))
        out.append((head + "STRT.FT %r : s\nSTOP.FT %s : s\nSTEP.FT %r : s\nNULL. -999.25 : n\n" % (idx[0], stop, step) + "~C\nDEPT.FT : d\nA. : a\n~A\n" + rows,
                    "fine-index"))
    for k in range(8):
        # small depths, a STOP that misses the last index value by about one part in 10^5 (just below / above a relative tolerance
        # of 1e-5), index samples with six decimals that round in the other direction
        last5 = round(rng.uniform(1.0, 3.0), 5)
        sgn = rng.choice([1, -1])
        last = last5 + sgn * 4e-6
        stop = last + sgn * (1e-5 * last - rng.choice([1e-6, 2e-6, 3e-6]))
        step = round(rng.uniform(0.1, 0.3), 5)
        idx = [last - (3 - i) * step for i in range(4)]
        rows = "".join("%.6f %d\n" % (x, i) for i, x in enumerate(idx))
        out.append((head + "STRT.M %.6f : s\nSTOP.M %.6f : s\nSTEP.M %.5f : s\nNULL. -999.25 : n\n" % (idx[0], stop, step) + "~C\nDEPT.M : d\nA. : a\n~A\n" + rows,
                    "stop-near-tolerance"))
    for v in ("2e-05", "1.5E-7", "1e16", "1E+20", "-4.25e-09", "0.00002"):
        out.append((head + "STRT.M 1.0 : s\nSTOP.M 2.0 : s\nSTEP.M 1.0 : s\nNULL. -999.25 : n\nRMF.OHMM %s : r\n~P\nEPS.OHMM %s : e\n" % (v, v) + tail + "1.0 5\n2.0 6\n",
                    "exponent-value"))
    return out


PLAIN = dict(version=2.0, wrap=None, fmt="%.5f", column_fmt=[], len_numeric_field=None, lhs_spacer=" ", spacer=" ", data_width=79,
             header_width=60, mnemonics_header=False, data_section_header="~ASCII")


SSS = ("STRT", "STOP", "STEP")


def drift_kind(e):
    w = e[0].split(":")
    if w[0] == "count":
        return "count:" + w[1]
    if w[0] == "item" and w[1] == "Well" and w[3] == "value" and e[1][1].upper() in SSS:
        return "sss-value"
    if w[0] == "item":
        return "item:" + w[1] + ":" + w[3]
    return e[0]


def classify(failure):
    """ids of the findings this check reported (each must be listed in known_findings.txt to be accepted)"""
    d = failure.get("detail") or {}
    c = failure["case"]
    ctx = d.get("context") or {}
    dlm = (ctx.get("dlm") or "SPACE").upper()
    if dlm not in ("SPACE", "") and failure["clause"] in ("rewrite-raised", "reread-raised", "data-drift", "header-drift"):
        return "dlm-not-space"
    if c["cfg"]["wrap"] is not None and ctx.get("wrap_items", 0) >= 2 and \
            failure["clause"] in ("rewrite-raised", "reread-raised", "data-drift", "header-drift"):
        # the input has two WRAP items and wrap=True/False is passed: the writer appends a further WRAP item per cycle while the
        # reader keeps following the first one; besides the growing ~Version this can make a wrapped output be re-read as an
        # unwrapped one (uniform physical lines), with everything that follows from that (data, STRT/STOP/STEP)
        return "dup-wrap-grows"
    if failure["clause"] != "header-drift":
        return None
    diffs = d.get("diff") or []
    items = [e for e in diffs if e[0].startswith("item:")]
    if len(items) != len(diffs) or not items:
        return None
    if all(e[0].split(":")[1] == "Well" and e[0].split(":")[3] == "value" and e[1][1].upper() in SSS for e in items) \
            and ctx.get("index_format_lossy") and c.get("cycle") == 2:
        return "sss-shift-after-lossy-index-format"
    # items outside C03's conformance conditions (TextConf), one family at a time: the written line is legitimately re-read with
    # displaced fields, and the displaced fields move again (or oscillate) in the following cycles
    # (the fourth family is judged more narrowly: a re-split at another colon MOVES text between value and description, it adds or
    # loses none; a drift that changes the characters of a colon-bearing value is something else)
    fams = [("numeric-unit-swallows-value", lambda p: re.match(r"^\d+($| )", p[2]) is not None),
            ("unit-leading-period", lambda p: p[2].startswith(".") or p[0].endswith(".") or (p[3][0] == "s" and p[3][1].startswith("."))),
            ("blank-mnemonic-period", lambda p: p[0].strip() == ""),
            ("colon-in-field", lambda p: ":" in p[3][1] or ":" in p[4] or ":" in p[2])]
    for kid, test in fams:
        if all(test(e[1]) or test(e[2]) for e in items):
            if kid == "colon-in-field" and not all(conserved(e) for e in items):
                return None
            return kid
    # the input held a blank mnemonic on a line with a further period: its FIRST output was already read differently (unit and
    # value displaced), and an empty value next to the displaced unit becomes 0 in the second cycle
    if all(e[0].split(":")[1] in (ctx.get("blank_period") or []) for e in items):
        return "blank-mnemonic-period"
    return None


def item_chars(p, with_unit):
    import collections
    v = p[3]
    vt = "" if v[0] == "n" else str(v[1])
    text = p[0] + vt + p[4] + (p[2] if with_unit else "")
    return collections.Counter(ch for ch in text if not ch.isspace() and not ch.isdigit() and ch not in ".:+-eE")


def conserved(e):
    """the two dumps of one item hold the same characters: the known families MOVE text between the fields of an item, they do not
    add or lose any.  Not counted: blanks, the delimiters '.' ':', digits and the other characters of numbers (a number that moves
    may be re-printed, an empty value next to a unit becomes 0).  A difference in the unit alone is not judged here (units are also
    copied between STRT/STOP/STEP and the index curve by write())."""
    fields = set(e[0].split(":")[3].split("+"))
    if fields <= {"unit"}:
        return True
    return item_chars(e[1], "unit" in fields) == item_chars(e[2], "unit" in fields)


def context(L, cfg, first_refresh=None):
    """facts about the INPUT object the classifier needs"""
    out = {"first_refresh": first_refresh}
    try:
        out["dlm"] = str(L.version["DLM"].value)
    except Exception:
        out["dlm"] = None
    try:
        tr = L.version.mnemonic_transforms
        out["wrap_items"] = sum(1 for i in list.__iter__(L.version) if c16.mcmp(tr, c16.useful(i.original_mnemonic), "WRAP"))
    except Exception:
        out["wrap_items"] = 0
    out["blank_period"] = []
    for k, sec in L.sections.items():
        if not isinstance(sec, str):
            for i in list.__iter__(sec):
                if i.original_mnemonic.strip() == "" and "." in (str(i.unit) + str(i.value) + str(i.descr)):
                    out["blank_period"].append(k)
                    break
    try:
        cf = dict((int(k), f) for k, f in cfg["column_fmt"]).get(0, cfg["fmt"])
        idx = [float(x) for x in L.index]
        probe = [x for x in (idx[:2] + idx[-1:]) if math.isfinite(x)]
        # the known drift: the header states STRT/STOP more precisely than the data section prints the index.  Either the first
        # write refreshed them ('%.5f' of the index in memory) and the index column is printed with a coarser format, or it did
        # not refresh them (the file's STOP equals the unrounded index) and the column format rounds the index.  A first write that
        # refreshes with the precision of the index column leaves nothing to drift.
        # (an explicit STOP= that does not state the last index value makes every write refresh again: STEP is then computed from the
        # unrounded index in the first cycle and from the re-read, rounded one in the second)
        sss = cfg.get("sss")
        stop_given = bool(sss) and sss[1][0] != "none"
        out["index_format_lossy"] = any(float("%.5f" % x) != float(cf % x) for x in probe) or \
            ((not first_refresh or stop_given) and any(float(cf % x) != x for x in probe))
    except Exception:
        out["index_format_lossy"] = False
    return out


def run(run):
    rng = run.rng
    pend = []
    K = 4
    cycle(run, {"kind": "text", "text": NUMERIC_UNIT}, PLAIN, {}, K, ["candidate:numeric-unit-empty-value"], pend)
    cycle(run, {"kind": "text", "text": NUMERIC_UNIT}, dict(PLAIN, version=1.2), {}, K, ["candidate:numeric-unit-empty-value"], pend)
    cycle(run, {"kind": "text", "text": COLON_VALUE}, dict(PLAIN, version=1.2), {}, K, ["candidate:colon-value-1.2"], pend)
    cycle(run, {"kind": "text", "text": COLON_VALUE}, PLAIN, {}, K, ["candidate:colon-value-2.0"], pend)
    cycle(run, {"kind": "text", "text": NUMERIC_INDEX_UNIT}, PLAIN, {}, K, ["finding:numeric-unit-swallows-value"], pend)
    cycle(run, {"kind": "text", "text": PURE_NUMERIC_UNIT}, PLAIN, {}, K, ["finding:numeric-unit-swallows-value"], pend)
    cycle(run, {"kind": "text", "text": LEADING_PERIOD_UNIT}, PLAIN, {}, K, ["finding:unit-leading-period"], pend)
    # the WRAP item in other spellings x narrow data widths: the reader takes only the exact text YES for a wrapped file and
    # write(wrap=None) never wraps, so whatever the spelling the output is read back the way it was written
    for spelling in ("YES", "Yes", "yes", "NO", "No"):
        for ncur in (2, 3, 4):
            for dw in (12, 24, 79):
                rows = "".join(" ".join("%.3f" % (10.0 * i + j) for j in range(ncur)) + "\n" for i in range(1, 4))
                text = ("~Version\nVERS. 2.0 : v\nWRAP. %s : w\n~Well\nSTRT.M 10.0 : s\nSTOP.M 30.0 : s\nSTEP.M 10.0 : s\nNULL. -999.25 : n\n~Curves\n"
                        % spelling + "".join("C%d.M : c\n" % j for j in range(ncur)) + "~A\n" + rows)
                for wrap in (None, True, False):
                    cycle(run, {"kind": "text", "text": text}, dict(PLAIN, wrap=wrap, data_width=dw), {}, 3, ["wrap-spelling"], pend)
    # an explicit STOP= (STRT= / STEP=) that does not state the data, the same option on every cycle, on an irregularly sampled file
    # whose header STEP is 0 and whose STRT deliberately differs from the first sample
    irregular = ("~V\nVERS. 2.0 : v\nWRAP. NO : w\n~W\nSTRT.M 1.0 : s\nSTOP.M 4.75 : s\nSTEP.M 0 : irregular\nNULL. -999.25 : n\n~C\nDEPT.M : d\nA. : a\n"
                 "~A\n1.0 5\n1.75 6\n3.0 7\n4.75 8\n")
    for sss in ([["none"], ["f", (9.5).hex()], ["none"]], [["none"], ["i", 7], ["none"]], [["f", (0.5).hex()], ["f", (9.5).hex()], ["none"]],
                [["none"], ["f", (4.75).hex()], ["none"]], [["none"], ["none"], ["f", (2.0).hex()]], [["none"], ["s", "12.5"], ["none"]]):
        for ver in (2.0, 1.2):
            cycle(run, {"kind": "text", "text": irregular}, dict(PLAIN, version=ver, sss=sss), {}, K, ["special:sss-kwargs-irregular"], pend)
    # a TEXT value that is a comma-separated list of numbers (casing depths): three and more commas between digits
    for line, sec in (("CSGD.M 1000,1500,2000,2500 : casing depths", ""), ("SHOTS. 10,20,30,40,50 : shots", "~P\n"), ("MIX. 1,5,2,5 : ratio", "~P\n")):
        text = ("~V\nVERS. 2.0 : v\nWRAP. NO : w\n~W\nSTRT.M 1.0 : s\nSTOP.M 2.0 : s\nSTEP.M 1.0 : s\nNULL. -999.25 : n\n" + ("" if sec else line + "\n") +
                (sec + line + "\n" if sec else "") + "~C\nDEPT.M : d\nA. : a\n~A\n1.0 5\n2.0 6\n")
        for ver in (2.0, 1.2):
            cycle(run, {"kind": "text", "text": text}, dict(PLAIN, version=ver), {}, K, ["special:comma-list"], pend)
    # the four ~Well mnemonics whose 1.2 layout is value : descr, spelt in lower / mixed case, read with every mnemonic_case (the reader's
    # and the writer's order look-ups must agree on them under every spelling; no random draw: seeded change C11-s)
    for names in (("Strt", "Stop", "Step", "Null"), ("strt", "stop", "step", "null"), ("STRT", "STOP", "STEP", "Null"), ("STRT", "STOP", "STEP", "nULL")):
        for inver in ("1.2", "2.0"):
            if inver == "1.2":
                well = ("%s.M 1.0 : START DEPTH\n%s.M 2.0 : STOP DEPTH\n%s.M 1.0 : STEP\n%s. -999.25 : NULL VALUE\nCOMP. COMPANY : ANY OIL\n" % names)
            else:
                well = ("%s.M 1.0 : START DEPTH\n%s.M 2.0 : STOP DEPTH\n%s.M 1.0 : STEP\n%s. -999.25 : NULL VALUE\nCOMP. ANY OIL : COMPANY\n" % names)
            text = "~V\nVERS. %s : v\nWRAP. NO : w\n~W\n" % inver + well + "~C\nDEPT.M : d\nA. : a\n~A\n1.0 5\n2.0 6\n"
            for mc in ("preserve", "lower", "upper"):
                for ver in (None, 1.2, 2.0):
                    cycle(run, {"kind": "text", "text": text}, dict(PLAIN, version=ver), {"mnemonic_case": mc}, K, ["special:well-order-case"], pend)
    for text, tag in special_docs(rng):
        for j in range(run.budget(2, 6)):
            cfg = PLAIN if j == 0 else gen_cfg(rng, plain=rng.random() < 0.3)
            cycle(run, {"kind": "text", "text": text}, cfg, {}, K, ["special:" + tag], pend)
    # the example corpus, as it is and mutated
    files = corpus()
    for rel in files:
        big = os.path.getsize(os.path.join(EX, rel)) > 200000
        n = run.budget(1 if big else 2, 2 if big else 8)
        for j in range(n):
            cfg = dict(PLAIN, version=rng.choice([1.2, 2.0, None])) if j == 0 else gen_cfg(rng)
            cycle(run, {"kind": "file", "file": rel}, cfg, {}, 3 if big else K, ["corpus"], pend)
        txt = file_text(rel)
        if txt is not None:
            for j in range(run.budget(1, 5)):
                m, what = mutate(rng, txt.replace("\r\n", "\n"))
                cycle(run, {"kind": "text", "text": m}, gen_cfg(rng, plain=rng.random() < 0.4), {}, K, ["corpus-mutated"] +
                      ["mut:" + w.split(":")[0] for w in what.split(",")[:2]], pend)
    # generated documents, as they are and mutated
    for i in range(run.budget(600, 6000)):
        r = rng.random()
        if r < 0.4:
            text, kw, tag = c16.gen_text(rng)
            tag = "literal"
            if rng.random() < 0.2:
                # the WRAP value in other spellings (the reader takes only the exact text YES for a wrapped file)
                text = text.replace("WRAP. NO : w\n", "WRAP. %s : w\n" % rng.choice(["Yes", "yes", "No", "no", "YES"]), 1)
        elif r < 0.75:
            try:
                text = ld.render(ld.gen_doc(rng), eol=rng.choice(["\n", "\n", "\r\n"]))
            except Exception:
                continue
            kw, tag = {}, "gen_doc"
        else:
            recipe, _t = c16.gen_scratch(rng)
            las = c16.build(recipe)
            if las is None:
                continue
            try:
                text = c16.write(las, gen_cfg(rng))
            except Exception:
                continue
            kw, tag = {}, "own-output"
        mutated = rng.random() < 0.6
        what = ""
        if mutated:
            text, what = mutate(rng, text.replace("\r\n", "\n"))
        if rng.random() < 0.15:
            kw = dict(kw, mnemonic_case=rng.choice(["preserve", "lower"]))
        cfg = gen_cfg(rng, plain=rng.random() < 0.3)
        cycle(run, {"kind": "text", "text": text}, cfg, kw, rng.choice([2, 3, K]), [tag, "mutated" if mutated else "as-generated"] +
              (["mut:" + w.split(":")[0] for w in what.split(",")[:2]] if mutated else []), pend,
              nontrivial=mutated or cfg != PLAIN)
    c16.flush(run, pend)
    # the object a read builds, data included (model LasioModel/ReadObjFull.lean, theorems Props/C11EndToEnd.lean): typed sections,
    # curve data and index_initial of `Ro.readObjFull` vs lasio.read, generated numeric files + the example corpus
    if run.model is not None:
        from .. import readobj_stream
        counts = readobj_stream.run_full_stream(run, run.budget(250, 3000), corpus=True)
        for k, v in counts.items():
            run.dist["ro.full:" + k] += v


# ------------------------------------------------------------------------------------------------ replay / shrink
class _R:
    def __init__(self):
        import collections
        self.failures, self.dist, self.model, self.traces = [], collections.Counter(), None, 0

    def case(self, *a, **k):
        pass

    def fail(self, clause, case, detail=None):
        f = dict(clause=clause, case=case, detail=detail)
        kid = classify(f)
        if kid is None or kid not in fw.known_ids(ID):
            self.failures.append(f)


def still_fails(src, cfg, kw, k, clause=None):
    r = _R()
    cycle(r, src, cfg, kw, k, [], [])
    fs = [f for f in r.failures if clause is None or f["clause"] == clause]
    return fs[0] if fs else None


def shrink(run, f):
    c = f["case"]
    src, cfg, kw, k = c["src"], c["cfg"], c["read_kw"], c["k"]
    if src["kind"] != "text":
        return f
    best = f
    lines = src["text"].split("\n")
    changed = True
    while changed and len(lines) < 400:
        changed = False
        for i in range(len(lines)):
            cand = lines[:i] + lines[i + 1:]
            g = still_fails({"kind": "text", "text": "\n".join(cand)}, cfg, kw, k, f["clause"])
            if g:
                lines, best, changed = cand, g, True
                break
    for key, val in PLAIN.items():
        if cfg.get(key) != val and key != "version":
            cand = dict(cfg)
            cand[key] = val
            g = still_fails({"kind": "text", "text": "\n".join(lines)}, cand, kw, k, f["clause"])
            if g:
                cfg, best = cand, g
    return best


def replay(run, payload):
    c = payload["case"]
    return still_fails(c["src"], c["cfg"], c["read_kw"], c["k"]) is None


def search(run, disagreements):
    for d in disagreements[:50]:
        c = d["case"]
        f = still_fails(c["src"], c["cfg"], c["read_kw"], c["k"])
        if f:
            run.fail(f["clause"], f["case"], f["detail"])
            return


LEVEL_TEXT = ("Machine-checked Lean 4 theorems about the writer side of the cycle and about one header line: C11_fmt_idem / C11_fmt_stable "
              "(re-printing the decimal of a printed %.Nf token, or any binary64 within half a unit of its last digit, reproduces the token: "
              "no accumulating precision loss), C11_standardize_idem (the header normalisations are idempotent), C11_suffix_stable (session "
              "mnemonics are a function of the list of original mnemonics: a section re-read from its own written originals gets the same "
              "session names, no growing suffixes), C11_item_fixed_point (a conformant header line, written, read, written again and read "
              "again gives the same item: no field migrates), C11_write_idempotent (re-export of C16_idempotent).  WHOLE FILE, header "
              "(Props/C11File.lean, on the whole-file reader model Rd.readLines and the header writer Wr.headerLines, C03_file used twice): "
              "C11_file_fixed_point — for a conformant object the second re-read equals the first re-read in every section (items, order, "
              "mnemonic, unit, value text, description, ~Other text), at any header widths; C11_file_iterate — so does the k-th, for every k; "
              "C11_file_invariant — the hypotheses hold again for the re-read object; each extra hypothesis has a counter-example theorem "
              "(duplicate WRAP, hidden value, blank last ~Other line, re-spelt number, changed mnemonic_case, numeric unit, blank mnemonic). "
              "WHOLE DATA SECTION (Props/C11Data.lean): the tokens of the second output are the tokens of the first (C11_data_tokens_fixed), the "
              "text is byte-identical when the index column has no NaN (C11_data_text_fixed), the re-read matrix is a fixed point "
              "(C11_data_reread_fixed, C11_data_iterate for every k), lifted to Dt.readData for unwrapped and WRAP=YES sections "
              "(C11_data_readData_*); hypotheses StrtodClose (float() of a printed token lies within half a unit of its last digit), "
              "NoNullClash, IndexOK, each with a counter-example replayed on the real code (a NaN in the INDEX column drifts when the index "
              "format does not print NULL exactly). "
              "NOT proved: the STRT/STOP/STEP / unit refresh inside the composed cycle, numbers whose str() differs from "
              "their spelling (repr round trip is the hypothesis SpeltConf), non-conformant lines: covered by the oracle (real read / write "
              "cycles on the corpus, generated documents and their mutations) and by the correspondence of every write of every cycle with "
              "the compiled writer model.")
LEVEL_NOTE = ("THE REFRESH INSIDE THE CYCLE (Props/C11Refresh.lean): C11_refresh_stable (for a re-read object no refresh is decided iff float(STOP text) == float(last index token)), C11_refresh_prec5 (a refreshing write over an index printed with 5 decimals is never refreshed again), C11_prepare_noop, C11_cycle_fixed_point (header sections, steering values, data tokens and in-memory STRT/STOP/STEP of the next cycle are those of the re-read object); counter-examples replayed on lasio: the recorded finding sss-shift-after-lossy-index-format over four cycles (stable from the third), and the re-spelling 1.00000 -> 1.0 of refreshed values (numerically equal). With the default `DLM . SPACE` item of lasio.LASFile() in ~Version (Props/C01FileDlm.lean, hypothesis DlmOK instead of 'no DLM item'): C03_file_dlm, C01_file_dlm(+_wrapYes, _unwrapped), C11_file_fixed_point_dlm / C11_file_iterate_dlm (all four steering values equal), C12_file_dlm; counter-examples DLM COMMA over blank-separated data (known finding dlm-not-space), DLM FOO (KeyError); two DLM items are ignored by the reader. proved: fixed-point properties of each writer-side ingredient, of a single conformant header line and of the whole written header "
              "(all sections, every number of cycles) and of the whole written data section; oracle + correspondence only: the refresh of "
              "STRT/STOP/STEP and units within the composed cycle, text columns, non-conformant lines (the known findings).")

RULE = RULE + ("; ALSO (fifth session): stream `ro.full` (LasioModel/ReadObjFull.lean: typed sections, every cell, index_initial vs lasio.read); special documents `decimal-unit`")
RULE = RULE + ("; (sixth session) directed `special:well-order-case`: STRT/STOP/STEP/NULL in lower and mixed case x input version 1.2 / 2.0 x "
               "mnemonic_case preserve / lower / upper x output version None / 1.2 / 2.0")
