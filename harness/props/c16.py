"""C16 — write() is deterministic, leaves data alone, states STRT/STOP/STEP truthfully."""
import glob
import io
import math
import os

from .. import framework as fw
from .. import lasobj as lo
from .. import lasdoc as ld
from .. import matrixgen as mg

ID = "C16"
MODULE = "LasioProofs.Props.C16"
RULE = ("histories = recipe (base object + edits) x writer options x 1..3 writes.  Bases: LASFile() + append_curve from generated specs "
        "(harness/lasobj.py: all value kinds, duplicate / blank / case-variant mnemonics), LAS texts read with lasio.read (generated "
        "literals with right / wrong / integer / text STOP, missing items, unit mismatches, lower-case mnemonics, three mnemonic_case "
        "settings) and files of tests/examples; edits: index cell changed in place, index replaced, index scaled in place, other curve "
        "edited, ~Well value / unit edited, curve unit edited, items appended / deleted, curves appended / deleted.  Index shapes: "
        "increasing, decreasing, single sample, two samples, irregular, returning to its start, constant, nearly constant (below format "
        "precision), with NaN, empty, no curve.  Options: version 1.2 / 2.0 / None, wrap None / True / False, fmt, column_fmt, "
        "len_numeric_field, spacers, data_width, header_width, mnemonics_header, data_section_header.  ORACLE on the real code: full "
        "snapshot (every field of every item with its Python type, mnemonic_transforms, every array element as float hex with dtype, "
        "index_initial, index_unit, custom sections) before and after every write: only the documented fields may differ and they "
        "differ as documented; write #2.. text byte-identical to write #1 and no further in-memory change; output re-read: STRT/STOP/STEP "
        "against in-memory and written first / last index and first increment, units against the index curve unit.  CORRESPONDENCE: "
        "every write vs model op wo.write (byte-exact text, canonical object dump afterwards, exception kind), step_diff = Python's "
        "index[1] - index[0].  non-trivial = the refresh condition of the property holds or the object was read and edited")
TRUSTED = ["binary64 subtraction index[1] - index[0] is an input of the model (computed by numpy), and so is str() of numeric header values",
           "Python %-formatting and textwrap as validated by C01; header line layout as validated by C03",
           "the truthfulness clause on the OUTPUT TEXT (re-read with lasio.read) is checked by the oracle; the theorem C16_truth is about the "
           "object in memory, whose header lines are the written text"]
ASSUMPTIONS = ["STRT/STOP/STEP keyword arguments are left to lasio", "header values are str / int / float / numpy scalars / None; units, "
               "descriptions and mnemonics are str; curve data are float64 (text curves: oracle only)",
               "C16_idempotent: STRT, STOP, STEP present; with wrap=True/False at most one item is named WRAP or has the original "
               "mnemonic WRAP (otherwise every write appends one more WRAP item: finding dup-wrap-grows)"]

EX = os.path.join(fw.REPO, "tests", "examples")
SSS = ("STRT", "STOP", "STEP")


# ------------------------------------------------------------------------------------------------ recipes
def fl(x):
    return float(x) if x in ("nan", "inf", "-inf") else float.fromhex(x)


def hx(x):
    x = float(x)
    return "nan" if x != x else ("inf" if x == math.inf else ("-inf" if x == -math.inf else x.hex()))


def apply_edits(las, edits):
    """in-memory edits of a recipe (before the first write: `edits`; between two writes: `mid_edits`)"""
    import numpy as np
    from lasio import HeaderItem
    for e in edits:
        op = e[0]
        if op == "index_set":
            las.curves[0].data[e[1]] = fl(e[2])
        elif op == "index_replace":
            las.curves[0].data = np.array([fl(x) for x in e[1]], dtype=float)
        elif op == "index_scale":
            las.curves[0].data *= fl(e[1])
        elif op == "index_shift":               # a bulk shift, small against the depths themselves
            las.curves[0].data += fl(e[1])
        elif op == "index_nudge":               # one sample corrected by a small amount
            las.curves[0].data[e[1]] += fl(e[2])
        elif op == "curve_set":
            las.curves[e[1]].data[e[2]] = fl(e[3])
        elif op == "well_value":
            las.well[e[1]].value = lo.dec(e[2])
        elif op == "well_unit":
            las.well[e[1]].unit = e[2]
        elif op == "curve_unit":
            las.curves[e[1]].unit = e[2]
        elif op == "curve_descr":
            las.curves[e[1]].descr = e[2]
        elif op == "append_item":
            las.sections[e[1]].append(HeaderItem(e[2][0], e[2][1], lo.dec(e[2][2]), e[2][3]))
        elif op == "delete_item":
            del las.sections[e[1]][e[2]]
        elif op == "append_curve":
            las.append_curve(e[1], np.array([fl(x) for x in e[3]], dtype=float), unit=e[2])
        elif op == "delete_curve":
            las.delete_curve(ix=e[1])
        elif op == "version_value":
            las.version[e[1]].value = lo.dec(e[2])
        else:
            raise ValueError(op)



def build(recipe, info=None):
    """the object of a recipe; None when the recipe cannot be built (an edit does not apply).  `info["at_read"]` receives the harness's
    own copy of the index taken straight after read() (None for an object built from scratch): the oracle decides 'the index was
    changed in memory' from this copy, never from lasio's own bookkeeping (LASFile.index_initial)"""
    import lasio
    import numpy as np
    from lasio import HeaderItem
    b = recipe["base"]
    try:
        if b["kind"] == "spec":
            las = lo.build(b["spec"])
        elif b["kind"] == "text":
            las = lasio.read(b["text"], **b.get("read_kw", {}))
        else:
            las = lasio.read(os.path.join(EX, b["file"]), **b.get("read_kw", {}))
        if info is not None:
            info["at_read"] = None
            if b["kind"] != "spec":
                try:
                    info["at_read"] = np.array(las.index, copy=True)
                except Exception:
                    info["at_read"] = None
                    info["no_index"] = True
        apply_edits(las, recipe.get("edits", []))
        return las
    except Exception:
        return None


def write(las, cfg):
    """`cfg["sss"]` (optional): the STRT / STOP / STEP keyword arguments as encoded values (lasobj.dec; ["none"] = not given)"""
    s = io.StringIO()
    kw = dict(cfg)
    kw["column_fmt"] = {int(k): v for k, v in cfg["column_fmt"]}
    sss = kw.pop("sss", None)
    if sss is not None:
        for name, v in zip(SSS, sss):
            kw[name] = lo.dec(v)
    las.write(s, **kw)
    return s.getvalue()


# ------------------------------------------------------------------------------------------------ snapshots
def tval(v):
    return [type(v).__name__] + list(lo.cv(v))


def fullsnap(las):
    """every observable field of the object"""
    import numpy as np
    secs = []
    for k, sec in las.sections.items():
        if isinstance(sec, str):
            secs.append([k, "text", sec])
        else:
            items = []
            for i in list.__iter__(sec):
                d = getattr(i, "data", None)
                if d is None:
                    dd = None
                else:
                    a = np.asarray(d)
                    dd = [a.dtype.str, list(a.shape), [hx(x) if a.dtype.kind == "f" else repr(x) for x in a.ravel().tolist()]]
                items.append([type(i).__name__, i.original_mnemonic, i.mnemonic, [type(i.unit).__name__, str(i.unit)], tval(i.value),
                              [type(i.descr).__name__, str(i.descr)], dd])
            secs.append([k, bool(getattr(sec, "mnemonic_transforms", False)), items])
    ii = las.index_initial
    return {"sections": secs,
            "index_initial": None if ii is None else [ii.dtype.str, [hx(x) if ii.dtype.kind == "f" else repr(x) for x in ii.tolist()]],
            "index_unit": las.index_unit}


def mcmp(tr, a, b):
    return (a.upper() == b.upper()) if tr else (a == b)


def useful(o):
    return "UNKNOWN" if o.strip() == "" else o


def frame(before, after, cfg, raised=False):
    """the documented differences and nothing else; returns a list of [clause, detail]"""
    out = []
    if before["index_initial"] != after["index_initial"]:
        out.append(["frame-index-initial", None])
    if before["index_unit"] != after["index_unit"]:
        out.append(["frame-index-unit", None])
    if [s[0] for s in before["sections"]] != [s[0] for s in after["sections"]]:
        return out + [["frame-section-keys", None]]
    for sb, sa in zip(before["sections"], after["sections"]):
        key = sb[0]
        if sb[1] == "text" or sa[1] == "text":
            if sb != sa:
                out.append(["frame-text-section", key])
            continue
        tr = sb[1]
        if sa[1] != tr:
            out.append(["frame-transforms", key])
        ib, ia = sb[2], sa[2]
        if key == "Version" and cfg["wrap"] is not None:
            grp = lambda it: mcmp(tr, useful(it[1]), "WRAP") or mcmp(tr, it[2], "WRAP")
            rb, ra = [i for i in ib if not grp(i)], [i for i in ia if not grp(i)]
            if rb != ra:
                out.append(["frame-version", {"before": rb, "after": ra}])
            continue
        if len(ib) != len(ia):
            out.append(["frame-item-count", key])
            continue
        for j, (p, q) in enumerate(zip(ib, ia)):
            same = lambda *idx: all(p[t] == q[t] for t in idx)
            if key == "Well":
                sss = any(mcmp(tr, p[2], m) for m in SSS)
                if not same(0, 1, 2, 5, 6):
                    out.append(["frame-well-item", {"index": j, "before": p, "after": q}])
                elif not sss:
                    if not same(3):
                        out.append(["frame-well-unit", {"index": j, "before": p, "after": q}])
                    elif not std_ok(p, q, raised):
                        out.append(["frame-well-value", {"index": j, "before": p, "after": q}])
            elif key == "Parameter":
                if not same(0, 1, 2, 3, 5, 6):
                    out.append(["frame-param-item", {"index": j, "before": p, "after": q}])
                elif not std_ok(p, q, raised):
                    out.append(["frame-param-value", {"index": j, "before": p, "after": q}])
            elif key == "Curves":
                if not (same(0, 1, 2, 4, 5, 6) and (j == 0 or same(3))):
                    out.append(["frame-curve-item" if same(6) else "frame-curve-data", {"index": j, "before": p[:6], "after": q[:6]}])
            else:
                if p != q:
                    out.append(["frame-other-section", {"section": key, "index": j, "before": p, "after": q}])
    return out


def std_expected(vb, unit):
    """typed form of standardize_value(value, unit)"""
    name, kind = vb[0], vb[1]
    if name in ("bool", "bool_"):
        return vb
    if kind == "none":
        falsy, iszero = True, False
    elif kind == "s":
        falsy, iszero = (vb[2] == ""), False
    elif kind == "i":
        falsy = iszero = (vb[2] == 0)
    else:
        falsy = iszero = (float.fromhex(vb[2]) == 0)
    if unit and falsy and not iszero:
        return ["int", "i", 0]
    if kind == "none":
        return ["str", "s", ""]
    return vb


def std_ok(p, q, raised):
    """q's value is standardize_value(p's value, unit) with the type kept (or untouched when the call raised half-way)"""
    return q[4] == std_expected(p[4], p[3][1]) or (raised and q[4] == p[4])


# ------------------------------------------------------------------------------------------------ model side
def pval(v, compared=False):
    """`compared`: the value takes part in a float comparison (STOP, VERS), so an int beyond 2^53 is outside the model"""
    import numpy as np
    if v is None:
        return ["none"]
    if isinstance(v, (bool, np.bool_)):
        return None
    if isinstance(v, str):
        return ["s", v]
    if isinstance(v, (int, np.integer)):
        if abs(int(v)) >= 2 ** 53:
            return None if compared else ["n", [int(v) < 0, str(abs(int(v))), 0], str(v)]
        return ["n", mg.enc(float(int(v))), str(v)]
    if isinstance(v, (float, np.floating)):
        return ["n", mg.enc(float(v)), str(v)]
    return None


def model_obj(las, why=None):
    """the object as the model wants it, or None when it is outside the model's domain"""
    try:
        return _model_obj(las)
    except _Outside as e:
        if why is not None:
            why.append(str(e))
        return None


class _Outside(Exception):
    pass


def _model_obj(las):
    import numpy as np
    o = {}
    names = {"Version": "version", "Well": "well", "Curves": "curves", "Parameter": "params"}
    text = []
    for k, kk in names.items():
        sec = las.sections.get(k)
        if sec is None or isinstance(sec, str):
            raise _Outside("section-shape")
        items = []
        for i in list.__iter__(sec):
            v = pval(i.value, compared=(k == "Well" and i.mnemonic.upper().startswith("STOP")) or (k == "Version" and i.mnemonic.upper().startswith("VERS")))
            if v is None or not all(isinstance(x, str) for x in (i.original_mnemonic, i.mnemonic, i.unit, i.descr)):
                raise _Outside("field-type")
            items.append([i.original_mnemonic, i.mnemonic, i.unit, v, i.descr])
            text.append(i.original_mnemonic + i.mnemonic)
        o[kk] = items
    if not ld.in_sigma("".join(text)):
        raise _Outside("alphabet")
    o["version_tr"] = bool(las.version.mnemonic_transforms)
    o["well_tr"] = bool(las.well.mnemonic_transforms)
    if not isinstance(las.sections.get("Other"), str):
        raise _Outside("other-shape")
    o["other"] = las.sections["Other"]
    data = []
    for c in las.curves:
        a = np.asarray(c.data)
        if a.ndim != 1 or a.dtype.kind != "f" or a.dtype.itemsize != 8:
            raise _Outside("curve-dtype-" + a.dtype.kind)
        data.append([mg.enc(x) for x in a.tolist()])
    o["data"] = data
    ii = las.index_initial
    if ii is None:
        o["index_initial"] = None
    else:
        if ii.ndim != 1 or ii.dtype.kind != "f" or ii.dtype.itemsize != 8:
            raise _Outside("index-initial-dtype")
        o["index_initial"] = [mg.enc(x) for x in ii.tolist()]
    return o


def dcell(c):
    if isinstance(c, str):
        return c
    x = math.ldexp(int(c[1]), c[2]) if c[2] else float(int(c[1]))
    return (-x if c[0] else x).hex()


def norm_obj(o):
    """cells decoded to float hex so that two encodings of one value compare equal"""
    def item(i):
        v = i[3]
        return [i[0], i[1], i[2], (["n", dcell(v[1]), v[2]] if v[0] == "n" else v), i[4]]
    return {"version": [item(i) for i in o["version"]], "version_tr": o["version_tr"], "well": [item(i) for i in o["well"]],
            "well_tr": o["well_tr"], "curves": [item(i) for i in o["curves"]], "params": [item(i) for i in o["params"]],
            "other": o["other"], "data": [[dcell(c) for c in col] for col in o["data"]],
            "index_initial": None if o["index_initial"] is None else [dcell(c) for c in o["index_initial"]]}


def step_diff(las):
    try:
        idx = las.index
        if len(idx) >= 2:
            return mg.enc(float(idx[1] - idx[0]))
    except Exception:
        pass
    return None


def model_cfg(cfg):
    v = cfg["version"]
    return {"version": None if v is None else ("1.2" if v == 1.2 else "2.0"), "wrap": cfg["wrap"], "header_width": cfg["header_width"],
            "fmt": cfg["fmt"], "column_fmt": [[int(k), f] for k, f in cfg["column_fmt"]], "len_numeric_field": cfg["len_numeric_field"],
            "lhs_spacer": cfg["lhs_spacer"], "spacer": cfg["spacer"], "data_width": cfg["data_width"],
            "data_section_header": cfg["data_section_header"], "mnemonics_header": cfg["mnemonics_header"]}


def wo_request(cfg, mo, sd):
    """the model request of one write; None when a STRT / STOP / STEP keyword value is outside the model's value types"""
    req = {"op": "wo.write", "cfg": model_cfg(cfg), "obj": mo, "step_diff": sd}
    if cfg.get("sss") is not None:
        vals = [pval(lo.dec(v)) for v in cfg["sss"]]
        if any(v is None for v in vals):
            return None
        req["sss"] = vals
    return req


EXC = {"KeyError": "KeyError", "IndexError": "IndexError", "AttributeError": "Other", "AssertionError": "Other", "TypeError": "TypeError",
       "ValueError": "ValueError"}


# ------------------------------------------------------------------------------------------------ the oracle's own readings
def refresh_condition(las, info=None):
    """'the index was created or changed in memory or the file's STOP disagreed with its data' read on the object BEFORE its
    first write (None = not decidable: no index / STOP missing).  With `info` (from build) the as-read index is the harness's own
    copy; lasio's index_initial is not consulted."""
    import numpy as np
    try:
        idx = np.asarray(las.index)
    except Exception:
        return None
    if info is not None and "at_read" in info:
        if info.get("no_index"):
            return None
        ii = info["at_read"]
    else:
        ii = las.index_initial
    if ii is None:
        return "created"
    try:
        if ii.shape != idx.shape or not bool(np.all(ii == idx)):
            return "changed"
    except Exception:
        return None
    try:
        stop = las.well["STOP"].value
        stop = float(stop)
    except Exception:
        return "stop-disagrees"
    try:
        if len(ii) and float(ii[-1]) != stop:
            return "stop-disagrees"
    except Exception:
        return None            # a text index
    return False


def ulp(x):
    return math.ulp(x) if math.isfinite(x) else 0.0


def close(got, exp, tol):
    try:
        got = float(got)
    except Exception:
        return False
    return abs(got - exp) <= tol + 2 * ulp(exp)


def truth(text, idx, cfg):
    """STRT/STOP/STEP of the output against the index in memory (`idx`, floats) and against the written index; [clause, detail] list"""
    import lasio
    out = []
    if len(idx) == 0 or not all(math.isfinite(x) for x in idx):
        return out, "skipped-nonfinite-or-empty-index"
    try:
        r = lasio.read(text)
    except Exception as e:
        return out, "unreadable-output"
    try:
        strt, stop, step = r.well["STRT"], r.well["STOP"], r.well["STEP"]
    except Exception as e:
        import re
        heads = [l.split(".")[0].strip().upper() for l in text.split("\n")]
        if any(heads.count(m) > 1 for m in SSS):
            return out, "reread-items-ambiguous(case variants)"
        return [["truth-items-missing", repr(e)]], None
    try:
        widx = [float(x) for x in r.index]
    except Exception as e:
        return out, "written-index-not-numeric"
    cf = dict((int(k), f) for k, f in cfg["column_fmt"]).get(0, cfg["fmt"])
    p = mg.fmt_parse(cf)
    if not close(strt.value, idx[0], 0.5e-5):
        out.append(["truth-strt", {"STRT": repr(strt.value), "index0": idx[0]}])
    if not close(stop.value, idx[-1], 0.5e-5):
        out.append(["truth-stop", {"STOP": repr(stop.value), "index_last": idx[-1]}])
    if len(idx) >= 2:
        inc = idx[1] - idx[0]
        if math.isfinite(inc) and not close(step.value, inc, 0.5e-5):
            out.append(["truth-step", {"STEP": repr(step.value), "first_increment": inc, "n": len(idx), "index0": idx[0], "index_last": idx[-1]}])
    if p is not None and len(widx) == len(idx) and all(math.isfinite(x) for x in widx):
        coarse = 0.5 * 10.0 ** (-p[1])
        if not close(strt.value, widx[0], 0.5e-5 + coarse):
            out.append(["truth-strt-written", {"STRT": repr(strt.value), "written": widx[0]}])
        if not close(stop.value, widx[-1], 0.5e-5 + coarse):
            out.append(["truth-stop-written", {"STOP": repr(stop.value), "written": widx[-1]}])
        if len(widx) >= 2 and not close(step.value, widx[1] - widx[0], 0.5e-5 + 2 * coarse):
            out.append(["truth-step-written", {"STEP": repr(step.value), "written_increment": widx[1] - widx[0], "n": len(idx),
                                               "index0": idx[0], "index_last": idx[-1]}])
    return out, None


def units_after(snap):
    """in memory: the three units equal the index curve's unit (whenever there is a curve)"""
    well = [s for s in snap["sections"] if s[0] == "Well"][0]
    curves = [s for s in snap["sections"] if s[0] == "Curves"][0]
    if not curves[2]:
        return []
    u = curves[2][0][3]
    out = []
    for m in SSS:
        for it in well[2]:
            if mcmp(well[1], it[2], m):
                if it[3] != u:
                    out.append(["truth-unit", {"item": m, "unit": it[3], "index_unit": u}])
                break
    return out


# ------------------------------------------------------------------------------------------------ one history
def history(run, recipe, cfgs, tags, pend, nontriv=None):
    """`cfgs`: the option records of the successive writes (equal records = the idempotence clause applies between them)"""
    info = {}
    las = build(recipe, info)
    if las is None:
        run.dist["recipe-not-buildable"] += 1
        return
    case = {"recipe": recipe, "cfgs": cfgs}
    cond = refresh_condition(las, info)
    edited = recipe["base"]["kind"] != "spec" and bool(recipe.get("edits"))
    run.case(case, nontrivial=bool(cond) or edited if nontriv is None else nontriv,
             tags=list(tags) + ["refresh=%s" % cond, "writes=%d" % len(cfgs), "version=%s" % cfgs[0]["version"], "wrap=%s" % cfgs[0]["wrap"]])
    prev = None            # (cfg, text, snapshot after)
    for w, cfg in enumerate(cfgs):
        mid = (recipe.get("mid_edits") or {}).get(str(w))
        if mid:
            # edits between two writes (arrays are edited in place): the next write must state what the object holds NOW
            try:
                apply_edits(las, mid)
            except Exception:
                run.dist["mid-edit-not-applicable"] += 1
                break
            prev = None
            cond = refresh_condition(las, info)
        before = fullsnap(las)
        why = []
        mo = model_obj(las, why) if run.model is not None else None
        sd = step_diff(las)
        try:
            idx = [float(x) for x in las.index]
        except Exception:
            idx = None
        text, exc = None, None
        try:
            text = write(las, cfg)
        except Exception as e:
            exc = e
        after = fullsnap(las)
        wcase = dict(case, write=w)
        # ---- frame
        for clause, detail in frame(before, after, cfg, raised=exc is not None):
            run.fail(clause, wcase, detail)
        # ---- correspondence
        req = wo_request(cfg, mo, sd) if mo is not None else None
        if req is not None:
            pend.append((wcase, req, text, exc, model_obj(las)))
        else:
            run.dist["outside-model-domain:" + (why[0] if why else "no-driver")] += 1
        if exc is not None:
            run.dist["write-raised:" + type(exc).__name__] += 1
            break
        # ---- determinism / idempotence
        if prev is not None and prev[0] == cfg:
            if text != prev[1]:
                run.fail("second-write-text", wcase, {"first": prev[1][:1500], "second": text[:1500]})
            if after != prev[2]:
                run.fail("second-write-memory", wcase, {"diff": snap_diff(prev[2], after)})
        prev = (cfg, text, after)
        # ---- truthfulness
        for clause, detail in units_after(after):
            run.fail(clause, wcase, detail)
        # (values passed as STRT= / STOP= / STEP= are the caller's own statement: they are stored as given, and a later plain write
        # need not replace them when the stored STOP happens to agree with the data, so the clause speaks about histories without them)
        if cond and idx is not None and not any(c.get("sss") is not None for c in cfgs[:w + 1]):
            fails, skip = truth(text, idx, cfg)
            if skip:
                run.dist["truth-" + skip] += 1
            else:
                run.dist["truth-checked"] += 1
            for clause, detail in fails:
                run.fail(clause, wcase, detail)
    if len(pend) >= 256:
        flush(run, pend)


def snap_diff(a, b):
    out = []
    if a["index_initial"] != b["index_initial"]:
        out.append("index_initial")
    for sa, sb in zip(a["sections"], b["sections"]):
        if sa != sb:
            if sa[1] == "text" or sb[1] == "text" or len(sa[2]) != len(sb[2]):
                out.append([sa[0], "shape"])
            else:
                out.extend([sa[0], j, p[:6], q[:6]] for j, (p, q) in enumerate(zip(sa[2], sb[2])) if p != q)
    return out[:6]


def flush(run, pend):
    if run.model is None or not pend:
        pend.clear()
        return
    ans = lo.ask(run.model, [p[1] for p in pend])
    for (case, req, text, exc, mafter), m in zip(pend, ans):
        run.traces += 1
        if m == "unmodelled":
            run.dist["model-unmodelled"] += 1
            continue
        if isinstance(m, dict) and "error" in m:
            run.disagree("wo.write", case, m, {"text": (text or "")[:300]}, in_domain=True)
            continue
        if exc is not None:
            want = EXC.get(type(exc).__name__)
            if not (isinstance(m, dict) and m.get("raise") == want):
                # an exception of the data part the model does not have (e.g. a format applied to a text cell) is out of domain
                run.disagree("wo.write-raise", case, m if not isinstance(m, dict) or "lines" not in m else {"lines": len(m["lines"])},
                             {"raise": repr(exc)[:300]}, in_domain=want is not None)
            else:
                run.dist["raise-agreed:" + want] += 1
            continue
        if not (isinstance(m, dict) and "lines" in m):
            run.disagree("wo.write", case, m, {"text": text[:1500]}, in_domain=True)
            continue
        mtext = "".join(l + "\n" for l in m["lines"])
        if mtext != text:
            k = next((i for i, (a, b) in enumerate(zip(mtext, text)) if a != b), min(len(mtext), len(text)))
            run.disagree("wo.write-text", case, {"around": mtext[max(0, k - 200):k + 200]}, {"around": text[max(0, k - 200):k + 200]}, in_domain=True)
            continue
        if mafter is None or norm_obj(m["after"]) != norm_obj(mafter):
            run.disagree("wo.write-after", case, obj_diff(norm_obj(m["after"]), norm_obj(mafter) if mafter else None), None, in_domain=True)
    pend.clear()


def obj_diff(a, b):
    if b is None:
        return "real object left the model domain"
    out = []
    for k in a:
        if a[k] != b[k]:
            if isinstance(a[k], list) and isinstance(b[k], list) and len(a[k]) == len(b[k]):
                out.extend([k, j, x, y] for j, (x, y) in enumerate(zip(a[k], b[k])) if x != y)
            else:
                out.append([k, a[k], b[k]])
    return out[:5]


# ------------------------------------------------------------------------------------------------ generators
INDEX_KINDS = ["increasing", "decreasing", "single", "two", "irregular", "returning", "constant", "near-constant", "nan", "empty",
               "fine-step", "big"]


def gen_index(rng, kind=None):
    kind = kind or rng.choice(INDEX_KINDS)
    n = rng.randint(3, 7)
    start = rng.choice([0.0, 100.0, 1500.5, -20.25, 0.1, 2999.999995])
    step = rng.choice([1.0, 0.5, 0.125, 0.1, 0.15, 10.0, 0.3048, 1e-3])
    if kind == "increasing":
        xs = [start + i * step for i in range(n)]
    elif kind == "decreasing":
        xs = [start - i * step for i in range(n)]
    elif kind == "single":
        xs = [start]
    elif kind == "two":
        xs = [start, start + rng.choice([step, -step])]
    elif kind == "irregular":
        xs = sorted(rng.uniform(0, 3000) for _ in range(n))
        if rng.random() < 0.3:
            rng.shuffle(xs)
    elif kind == "returning":
        xs = [start + i * step for i in range(n - 1)] + [start]
    elif kind == "constant":
        xs = [start] * n
    elif kind == "near-constant":
        xs = [start + i * 1e-7 for i in range(n)]
    elif kind == "nan":
        xs = [start + i * step for i in range(n)]
        xs[rng.choice([0, n - 1, 1])] = float("nan")
    elif kind == "empty":
        xs = []
    elif kind == "fine-step":
        xs = [start + i * 3e-6 for i in range(n)]
    else:
        xs = [1e15 + i * step for i in range(n)] if rng.random() < 0.5 else [rng.choice([1e22, -1e-7, 5e-324]) * (i + 1) for i in range(n)]
    return kind, xs


def gen_cfg(rng, plain=False):
    if plain:
        return dict(version=rng.choice([1.2, 2.0, None]), wrap=rng.choice([None, True, False]), fmt="%.5f", column_fmt=[],
                    len_numeric_field=None, lhs_spacer=" ", spacer=" ", data_width=79, header_width=60, mnemonics_header=False,
                    data_section_header="~ASCII")
    fmt = rng.choice(["%.5f", "%.5f", "%.2f", "%.8f", "%.0f", "%10.3f", "%.4f"])
    cf = []
    if rng.random() < 0.3:
        cf = [[0, rng.choice(["%.3f", "%.1f", "%12.6f"])]]
    if rng.random() < 0.1:
        cf = cf + [[rng.randint(1, 3), rng.choice(["%.1f", "%.6f"])]]
    cfg = dict(version=rng.choice([1.2, 2.0, None]), wrap=rng.choice([None, True, False]), fmt=fmt, column_fmt=cf,
               len_numeric_field=rng.choice([None, None, -1, 12, 16]), lhs_spacer=rng.choice([" ", "", "  "]),
               spacer=rng.choice([" ", "  ", "\t"]), data_width=rng.choice([79, 40, 120]), header_width=rng.choice([60, 60, 40, 5]),
               mnemonics_header=rng.random() < 0.3, data_section_header=rng.choice(["~ASCII", "~A", "~Ascii Log Data"]))
    if rng.random() < 0.12:
        # STRT / STOP / STEP passed by the caller (model `writeObjK`): frame, determinism and correspondence; the truthfulness
        # clause is about the values lasio computes itself and is not evaluated for these writes
        val = lambda: rng.choice([["none"], ["none"], ["f", float(rng.choice([0.0, 1.5, 100.0, -3.25])).hex()], ["i", rng.choice([0, 7, 2000])],
                                  ["s", rng.choice(["", "12.5", "top"])]])
        cfg["sss"] = [val(), val(), val()]
    return cfg


def gen_cfgs(rng):
    c = gen_cfg(rng, plain=rng.random() < 0.3)
    r = rng.random()
    if r < 0.2:
        return [c]
    if r < 0.6:
        return [c, dict(c)]
    if r < 0.85:
        return [c, dict(c), dict(c)]
    return [c, gen_cfg(rng), gen_cfg(rng)]          # changing options: frame + correspondence only


def gen_scratch(rng):
    ncur = rng.choice([0, 1, 1, 2, 3, 4])
    spec = lo.gen_spec(rng, ncurves=max(ncur, 1))
    kind, xs = gen_index(rng)
    if ncur == 0:
        spec["curves"] = []
        kind = "no-curve"
    else:
        for j, c in enumerate(spec["curves"]):
            if j == 0:
                c[4] = [hx(x) for x in xs]
            else:
                c[4] = [hx(rng.choice([rng.randint(-2000, 2000), round(rng.uniform(-1e4, 1e4), 3), 1e-07, 0.0, float("nan")])) for _ in xs]
    if rng.random() < 0.15:
        spec.setdefault("well_edit", {})["STRT"] = [lo.gen_unit(rng), rng.choice([["s", ""], ["none"], ["f", (5.0).hex()], ["s", "abc"]]), "START"]
    if rng.random() < 0.1:
        spec.setdefault("well_edit", {})["STOP"] = [lo.gen_unit(rng), rng.choice([["s", ""], ["i", 7], ["f", (0.0).hex()]]), "STOP"]
    if rng.random() < 0.08:
        spec["version_edit"] = {"VERS": ["", rng.choice([["f", (1.2).hex()], ["i", 2], ["s", "2.0"], ["f", (3.0).hex()], ["npf", (1.2).hex()]]), "v"]}
    if rng.random() < 0.04:
        spec["version_delete"] = [rng.choice(["WRAP", "VERS", "DLM"])]
    return {"base": {"kind": "spec", "spec": spec}, "edits": gen_edits(rng, ncur, len(xs), 0.25)}, "scratch:" + kind


def gen_edits(rng, ncur, nrows, p):
    out = []
    while rng.random() < p:
        r = rng.random()
        if r < 0.2 and ncur and nrows:
            out.append(["index_set", rng.randrange(nrows), hx(rng.choice([rng.uniform(0, 3000), 0.0, 12345.678]))])
        elif r < 0.35 and ncur:
            out.append(["index_replace", [hx(x) for x in gen_index(rng)[1]] if rng.random() < 0.5 or ncur > 1 else
                        [hx(x) for x in gen_index(rng, "increasing")[1]]])
            if ncur > 1:                        # keep the columns the same length
                kind, xs = gen_index(rng)
                xs = (xs * 8)[:nrows] if xs else [0.0] * nrows
                out[-1] = ["index_replace", [hx(x) for x in xs]]
        elif r < 0.40 and ncur and nrows:
            out.append(["index_scale", hx(rng.choice([0.3048, 2.0, 1.0, -1.0, 1.000001, 0.99999]))])
        elif r < 0.42 and ncur and nrows:
            # edits far below any relative tolerance but well above the five decimals of the header
            d = rng.choice([0.0001, 0.001, 0.01, 0.03, -0.002, 0.00002])
            out.append(["index_shift", hx(d)] if rng.random() < 0.5 else ["index_nudge", rng.choice([0, nrows - 1, rng.randrange(nrows)]), hx(d)])
        elif r < 0.52 and ncur > 1 and nrows:
            out.append(["curve_set", rng.randrange(1, ncur), rng.randrange(nrows), hx(rng.choice([1.5, float("nan"), -7.25]))])
        elif r < 0.62:
            out.append(["well_value", rng.choice(["STOP", "STRT", "STEP", "NULL", "COMP"]),
                        rng.choice([["f", (1234.5).hex()], ["i", 3], ["s", "12"], ["s", ""], ["none"], ["s", "text"], ["f", (0.0).hex()]])])
        elif r < 0.7:
            out.append(["well_unit", rng.choice(["STRT", "STOP", "STEP", "NULL"]), rng.choice(["", "FT", "m", ".1IN", "1000 lbf"])])
        elif r < 0.78 and ncur:
            out.append(["curve_unit", rng.randrange(ncur), rng.choice(["", "FT", "M", "us/ft"])])
        elif r < 0.84:
            out.append(["append_item", rng.choice(["Well", "Parameter", "Version"]), lo.gen_item(rng, "Well")])
        elif r < 0.88:
            out.append(["delete_item", "Well", rng.choice(["STEP", "NULL", "COMP", "STOP", "STRT"])])
        elif r < 0.93 and nrows:
            out.append(["append_curve", rng.choice(["NEW", "A", "DEPT"]), rng.choice(["", "V"]), [hx(float(i)) for i in range(nrows)]])
        elif r < 0.96 and ncur > 1:
            out.append(["delete_curve", rng.randrange(ncur)])
        elif ncur:
            out.append(["curve_descr", rng.randrange(ncur), "edited"])
    return out


def fnum(rng, x):
    return rng.choice(["%.5f", "%.1f", "%.4f", "%g", "%.3f"]) % x


def gen_text(rng):
    """a LAS literal: right / wrong / integer / text STOP, unit mismatches, empty values with units, missing items"""
    kind, xs = gen_index(rng, rng.choice(["increasing", "decreasing", "single", "two", "irregular", "returning", "constant", "increasing",
                                          "near-constant", "fine-step"]))
    xs = [float("%.6f" % x) for x in xs]
    ncur = rng.choice([1, 2, 3])
    stop_kind = rng.choice(["right", "right", "wrong", "int", "text", "empty", "rounded"])
    last = xs[-1]
    stop = {"right": repr(last), "wrong": repr(last + rng.choice([1.0, -0.5, 1e-3])), "int": str(int(last)), "text": "bottom",
            "empty": "", "rounded": "%.1f" % last}[stop_kind]
    cu = rng.choice(["M", "M", "FT", "", "m", ".1IN"])
    wu = rng.choice([cu, cu, "M", "FT", ""])
    case = rng.choice([str.upper, str.upper, str.lower, str.title])
    well = ["%s.%s %s : start" % (case("STRT"), wu, repr(xs[0])), "%s.%s %s : stop" % (case("STOP"), wu, stop)]
    r = rng.random()
    if r < 0.85:
        step_txt = fnum(rng, xs[1] - xs[0]) if len(xs) > 1 else "0"
        if rng.random() < 0.15:
            step_txt = rng.choice(["0", "0.0", "0.5", "-1", ""])      # a STEP that does not describe the data (irregular sampling: 0)
        well.append("%s.%s %s : step" % (case("STEP"), rng.choice([wu, wu, "M"]), step_txt))
    if rng.random() < 0.9:
        well.append("%s. %s : null" % (case("NULL"), rng.choice(["-999.25", "-9999", "-999.25"])))
    well += ["COMP. ACME : company", "EMPTYU.K  : empty with unit", "DATE. 2001-01-01 : d"]
    if rng.random() < 0.04:
        well.append("STOP.%s %s : second stop" % (wu, repr(last)))
    rng.shuffle(well)
    names = ["DEPT", "A", "B"][:ncur]
    if ncur == 3 and rng.random() < 0.3:
        names[2] = "A"
    curves = ["%s.%s : curve %d" % (m, cu if j == 0 else rng.choice(["", "V"]), j) for j, m in enumerate(names)]
    rows = [" ".join([fnum(rng, x)] + ["%.3f" % rng.uniform(-50, 50) if rng.random() < 0.9 else "-999.25" for _ in range(ncur - 1)]) for x in xs]
    vers = rng.choice(["2.0", "2.0", "1.2", "2"])
    lines = ["~Version", "VERS. %s : v" % vers, "WRAP. NO : w"]
    if rng.random() < 0.05:
        lines.append("WRAP. NO : w again")
    lines += ["~Well"] + well + ["~Curves"] + curves
    lines += ["~Params", "P1.K 5 : d", "P2.Q  : empty value with unit", "P3.  : nothing"]
    if rng.random() < 0.3:
        lines += ["~Other", "remark one", "remark two"]
    lines += ["~A"] + rows
    kw = {}
    if rng.random() < 0.3:
        kw["mnemonic_case"] = rng.choice(["preserve", "lower"])
    return "\n".join(lines) + "\n", kw, "text:%s:stop-%s" % (kind, stop_kind)


def corpus():
    fs = glob.glob(os.path.join(EX, "**", "*.las"), recursive=True) + glob.glob(os.path.join(EX, "**", "*.LAS"), recursive=True)
    return sorted(set(os.path.relpath(f, EX) for f in fs if os.path.getsize(f) < 60000))


def shape_of(recipe):
    las = build(recipe)
    if las is None:
        return None
    try:
        return len(las.curves), (len(las.index) if len(las.curves) else 0)
    except Exception:
        return None


# the candidate findings of this check, run first on every run
DUP_WRAP = {"base": {"kind": "spec", "spec": {"version": [["WRAP", "", ["s", "NO"], "second WRAP"]], "well": [], "params": [],
                                               "curves": [["DEPT", "M", ["s", ""], "", [(1.0).hex(), (2.0).hex()]]], "other": ""}}, "edits": []}
RETURNING = {"base": {"kind": "spec", "spec": {"version": [], "well": [], "params": [],
                                                "curves": [["DEPT", "M", ["s", ""], "", [(1.0).hex(), (2.0).hex(), (1.0).hex()]]], "other": ""}},
             "edits": []}
FINE_STEP = {"base": {"kind": "spec", "spec": {"version": [], "well": [], "params": [],
                                                "curves": [["TIME", "S", ["s", ""], "", [(0.0).hex(), (3e-6).hex(), (6e-6).hex()]]], "other": ""}},
             "edits": []}


def classify(failure):
    c = failure["case"]
    cl = failure["clause"]
    d = failure.get("detail") or {}
    if cl in ("second-write-text", "second-write-memory", "frame-version") and c["cfgs"][0]["wrap"] is not None:
        las = build(c["recipe"])
        if las is not None:
            tr = las.version.mnemonic_transforms
            n = sum(1 for i in list.__iter__(las.version) if mcmp(tr, useful(i.original_mnemonic), "WRAP") or mcmp(tr, i.mnemonic, "WRAP"))
            if n >= 2:
                return "dup-wrap-grows"
    return None


def run(run):
    pend = []
    plain = dict(version=2.0, wrap=None, fmt="%.5f", column_fmt=[], len_numeric_field=None, lhs_spacer=" ", spacer=" ", data_width=79,
                 header_width=60, mnemonics_header=False, data_section_header="~ASCII")
    history(run, DUP_WRAP, [dict(plain, wrap=True)] * 2, ["candidate:dup-wrap"], pend)
    # the input of the repaired finding "STEP dropped when STOP prints like STRT" (62bf842), re-run through the oracle on every run
    history(run, RETURNING, [plain] * 2, ["fixed-finding:returning-index"], pend)
    history(run, FINE_STEP, [plain] * 2, ["candidate:fine-step"], pend)
    rng = run.rng
    # objects built from scratch
    for _ in range(run.budget(1500, 12000)):
        recipe, tag = gen_scratch(rng)
        history(run, recipe, gen_cfgs(rng), [tag], pend)
    # objects read from literals, as read and edited
    for _ in range(run.budget(1000, 9000)):
        text, kw, tag = gen_text(rng)
        recipe = {"base": {"kind": "text", "text": text, "read_kw": kw}, "edits": []}
        sh = shape_of(recipe)
        if sh is None:
            run.dist["literal-unreadable"] += 1
            continue
        if rng.random() < 0.6:
            recipe["edits"] = gen_edits(rng, sh[0], sh[1], 0.7)
            tag += ":edited" if recipe["edits"] else ""
        history(run, recipe, gen_cfgs(rng), [tag.split(":stop-")[0], "stop-" + tag.split(":stop-")[1].split(":")[0],
                                             "edited" if recipe["edits"] else "as-read"], pend)
    # texts written by lasio itself, read back (then edited)
    for _ in range(run.budget(300, 3000)):
        r0, _tag = gen_scratch(rng)
        las = build(r0)
        if las is None:
            continue
        try:
            text = write(las, gen_cfg(rng))
        except Exception:
            continue
        recipe = {"base": {"kind": "text", "text": text, "read_kw": {}}, "edits": []}
        sh = shape_of(recipe)
        if sh is None:
            run.dist["own-output-unreadable"] += 1
            continue
        recipe["edits"] = gen_edits(rng, sh[0], sh[1], 0.5)
        cfgs = gen_cfgs(rng)
        if len(cfgs) >= 2 and rng.random() < 0.5:
            # in-place edits of the arrays between two writes (after the first write has looked at every array)
            mid = [e for e in gen_edits(rng, sh[0], sh[1], 0.7) if e[0] in ("index_set", "index_scale", "index_shift", "index_nudge", "curve_set")]
            if mid:
                recipe["mid_edits"] = {str(rng.randrange(1, len(cfgs))): mid}
        history(run, recipe, cfgs, ["own-output", "edited" if recipe["edits"] else "as-read"] + (["mid-edits"] if recipe.get("mid_edits") else []), pend)
    # the example corpus
    files = corpus()
    rng.shuffle(files)
    for rel in files[:run.budget(45, len(files))]:
        recipe = {"base": {"kind": "file", "file": rel}, "edits": []}
        sh = shape_of(recipe)
        if sh is None:
            run.dist["corpus-unreadable"] += 1
            continue
        for j in range(run.budget(2, 6)):
            rec = dict(recipe, edits=gen_edits(rng, sh[0], sh[1], 0.5) if j else [])
            history(run, rec, gen_cfgs(rng), ["corpus", "edited" if rec["edits"] else "as-read"], pend)
    flush(run, pend)


# ------------------------------------------------------------------------------------------------ replay / shrink / search
class _R:
    def __init__(self):
        import collections
        self.failures, self.dist, self.model, self.traces = [], collections.Counter(), None, 0

    def case(self, *a, **k):
        pass

    def fail(self, clause, case, detail=None):
        f = dict(clause=clause, case=case, detail=detail)
        kid = classify(f)
        if kid is None or kid not in fw.known_ids(ID):
            self.failures.append(f)


def still_fails(recipe, cfgs, clause=None):
    r = _R()
    history(r, recipe, cfgs, [], [])
    fs = [f for f in r.failures if clause is None or f["clause"] == clause]
    return fs[0] if fs else None


def shrink(run, f):
    c = f["case"]
    recipe, cfgs = c["recipe"], c["cfgs"]
    best = f
    changed = True
    while changed:
        changed = False
        for i in range(len(recipe.get("edits", []))):
            cand = dict(recipe, edits=recipe["edits"][:i] + recipe["edits"][i + 1:])
            g = still_fails(cand, cfgs, f["clause"])
            if g:
                recipe, best, changed = cand, g, True
                break
        if recipe["base"]["kind"] == "spec":
            spec = recipe["base"]["spec"]
            for k in ("version", "well", "params", "curves"):
                for i in range(len(spec.get(k, []))):
                    cs = dict(spec)
                    cs[k] = spec[k][:i] + spec[k][i + 1:]
                    cand = dict(recipe, base={"kind": "spec", "spec": cs})
                    g = still_fails(cand, cfgs, f["clause"])
                    if g:
                        recipe, best, changed = cand, g, True
                        break
                if changed:
                    break
    return best


def replay(run, payload):
    c = payload["case"]
    return still_fails(c["recipe"], c["cfgs"]) is None


def search(run, disagreements):
    """after a broken tie: re-run the oracle alone on the disagreeing histories"""
    for d in disagreements[:50]:
        c = d["case"]
        f = still_fails(c["recipe"], c["cfgs"])
        if f:
            run.fail(f["clause"], f["case"], f["detail"])
            return


LEVEL_TEXT = ("Machine-checked Lean 4 theorems about an executable object-level model of LASFile.write (Lasio.Wo.writeObj: WRAP placement, "
              "refresh decision, update_start_stop_step, update_units_from_index_curve, in-place standardisation, header text through the "
              "header-writer model of C03 and data text through the data-writer model of C01): C16_frame (field-by-field relation between "
              "the object before and after, from the closed form C16_closed_form: data, index_initial, curve order, all original and "
              "session mnemonics, descriptions, ~Other untouched; only STRT/STOP/STEP value+unit, curves[0].unit, the WRAP item and "
              "standardised ~W/~P values move; C16_frame_version: with a unique WRAP item nothing else in ~Version moves), "
              "C16_vers_untouched / C16_version_independent (the object afterwards does not depend on version=), C16_idempotent (a second "
              "write with the same options gives byte-identical lines and the same object; hypothesis WrapOK shown necessary by "
              "C16_counterexample_dup_wrap / _stale_suffix), C16_refresh_iff, C16_truth / C16_units / C16_no_refresh (values and units "
              "after the call).  Tie: every real write of the generated histories vs the compiled model (text byte-exact + object dump), "
              "and the property's oracle on the real code (full snapshots, repeated writes, re-read outputs).")
LEVEL_NOTE = ("binary64 subtraction and str() of numbers are inputs of the model.  The truthfulness clause about the re-read OUTPUT is "
              "oracle-only.  Known finding: duplicated WRAP items grow by one per write(wrap=...).  Repaired finding "
              "(62bf842): STEP was written as 0 / empty when STOP printed like STRT although the index had a first increment; its input "
              "[1, 2, 1] is run first on every run.")

RULE = RULE + ("; ALSO (fifth session): index edits far below any relative tolerance (shift / nudge by 2e-5 .. 3e-2, scale by 1.000001) before and between writes")
