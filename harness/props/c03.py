"""C03 — header round trip: write (1.2 / 2.0) then read returns the same header items and ~Other text."""
import io

import numpy as np

from .. import lasobj as lo

ID = "C03"
MODULE = "LasioProofs.Props.C03"
EXTRA_MODULES = ["LasioProofs.Props.C01File", "LasioProofs.Props.C01FileDlm"]
RULE = ("LASFile objects built from specs (default ~Version/~Well items plus 0..6 generated items per section: duplicate, blank and "
        "case-variant mnemonics, int/float/numpy/text/numeric-text/empty/None values, empty-with-unit, fields over letters, digits, "
        "punctuation, quotes, brackets, non-ASCII letters, one item made the widest of its section in each column) x version {1.2, 2.0} "
        "x mnemonic_case {preserve, upper, lower}: (i) header text of the real las.write up to the ~A line vs model wr.header, byte-exact, "
        "and the in-place normalised ~W/~P values; (ii) every written section re-read by the real parse_header_items_section / "
        "SectionParser (num() disabled) vs model wr.readsection / wr.readitem; oracle: lasio.read(written, mnemonic_case) sections vs the "
        "original object's under the documented differences. Exhaustive part: a 4-item section, every item in turn the widest x "
        "empty/non-empty unit x empty/non-empty value per item, in all four sections at once. Non-conformant items form a context stream "
        "(model vs real only). non-trivial = some generated item has a unit and an empty/None value, or is a duplicate/case variant, or is "
        "a 1.2 ~Well item written description-first, or is strictly the widest of its section")
TRUSTED = ["Python str methods ljust/strip/splitlines/upper/lower and %-formatting of str (compared byte-exactly on every case)",
           "C04 (header line grammar) for the single-line round trip; num() (C08) is not part of this model: values are compared as raw text in "
           "the correspondence and through the real num() in the oracle"]
ASSUMPTIONS = ["LAS-conformant fields as in the property text; additionally a mnemonic does not start with '#' or '~' (such a line IS a comment / "
               "section title in LAS; theorem C03_counterexample_comment_mnemonic)",
               "~Other text in normal form: lines separated by '\\n', stripped, not starting with '~', no trailing newline",
               "VERS (and WRAP when wrap= is passed) are the writer's own items for the target version, not the object's",
               "characters outside the model's upper/lower alphabet (Basic.lean) are not generated"]

VERSIONS = [(1.2, "1.2"), (2.0, "2.0")]
CASES = ["preserve", "upper", "lower"]
TITLES = {"Version": "~Version", "Well": "~Well", "Curves": "~Curve Information", "Parameter": "~Params"}
VERS_ITEMS = {"1.2": ["VERS", "", 1.2, "CWLS LOG ASCII STANDARD - VERSION 1.2"],
              "2.0": ["VERS", "", 2.0, "CWLS log ASCII Standard -VERSION 2.0"]}
WRAP_ITEMS = {True: ["WRAP", "", "YES", "Multiple lines per depth step"], False: ["WRAP", "", "NO", "One line per depth step"]}


def casef(c):
    return {"preserve": (lambda s: s), "upper": str.upper, "lower": str.lower}[c]


class NoNum:
    """disable SectionParser.num so that the real constructors return the raw value text"""

    def __enter__(self):
        from lasio.reader import SectionParser
        self.cls = SectionParser
        self.old = SectionParser.num
        SectionParser.num = lambda self_, x, default=None: x

    def __exit__(self, *a):
        self.cls.num = self.old


# ------------------------------------------------------------------ real side
def real_write(spec, v, wrap):
    las = lo.build(spec)
    s = io.StringIO()
    kw = {} if wrap is None else {"wrap": wrap}
    try:
        las.write(s, version=v, **kw)
    except Exception as e:
        # an exception raised while the DATA section is written leaves the complete header in the file object
        part = s.getvalue()
        return las, (part if "\n~ASCII" in part else None), type(e).__name__
    return las, s.getvalue(), None


def real_read_section(kind, vfloat, lines, c):
    from lasio import reader
    text = TITLES.get(kind, kind) + "\n" + "".join(l + "\n" for l in lines)
    try:
        with NoNum():
            sec = reader.parse_header_items_section(io.StringIO(text), (0, len(lines) + 3), vfloat, mnemonic_case=c)
    except Exception:
        return None
    return [[i.original_mnemonic, i.unit, i.value, i.descr] for i in list.__iter__(sec)]


def real_read_item(kind, vfloat, line, c):
    from lasio import reader
    try:
        p = reader.SectionParser(TITLES.get(kind, kind), version=vfloat)
        with NoNum():
            d = reader.read_header_line(line, section_name=p.section_name2)
            d["name"] = casef(c)(d["name"])
            i = p(**d)
    except Exception:
        return None
    return [i.original_mnemonic, i.unit, i.value, i.descr]


def split_sections(lines):
    """{kind: item lines} of a written header (title lines start with '~')"""
    out, cur = {}, None
    keys = {"~V": "Version", "~W": "Well", "~C": "Curves", "~P": "Parameter", "~O": "Other"}
    for ln in lines:
        if ln.startswith("~") and ln[:2] in keys and ln.rstrip("-").rstrip() in ("~Version", "~Well", "~Curve Information", "~Params", "~Other"):
            cur = keys[ln[:2]]
            out.setdefault(cur, [])
        elif cur:
            out[cur].append(ln)
    return out


# ------------------------------------------------------------------ oracle
def same_value(exp, got):
    en, gn = isinstance(exp, (int, float, np.integer, np.floating)), isinstance(got, (int, float, np.integer, np.floating))
    if en and gn:
        return bool(exp == got) or (exp != exp and got != got)
    if en or gn:
        return False
    return exp == got


def expected_sections(spec, vkey, wrap):
    """the items the read-back must give: the original object's, with the documented differences taken from the real
    update methods (STRT/STOP/STEP value+unit, first curve unit), VERS/WRAP from the writer"""
    orig = lo.build(spec)
    upd = lo.build(spec)
    lo.pre_write_update(upd)
    out = {}
    for k in lo.SECTIONS:
        rows = []
        for idx, (a, b) in enumerate(zip(lo.section_items(orig, k), lo.section_items(upd, k))):
            m, u, v, d = a.original_mnemonic, a.unit, a.value, a.descr
            replaced = False       # the writer puts a new item (upper-case mnemonic) in place of this one
            if k == "Well" and a.mnemonic in ("STRT", "STOP", "STEP"):
                u, v = b.unit, b.value
            if k == "Curves" and idx == 0:
                u = b.unit
            if k == "Version" and a.mnemonic == "VERS":
                m, u, v, d = VERS_ITEMS[vkey]
                replaced = True
            if k == "Version" and a.mnemonic == "WRAP" and wrap is not None:
                m, u, v, d = WRAP_ITEMS[wrap]
                replaced = True
            rows.append([m, u, lo.standardize(v, u) if k in ("Well", "Parameter") else v, d, replaced])
        out[k] = rows
    return out, orig.other


def oracle(run, spec, vfloat, vkey, wrap, c, text, case, pre=None):
    """`pre`: the written object was itself obtained by reading (mnemonic_case=pre) the 2.0 output of the built object: the
    expected items are the same, the mnemonics mapped by `pre` first"""
    import lasio
    from lasio.reader import SectionParser
    exp, exp_other = expected_sections(spec, vkey, wrap)
    try:
        got = lasio.read(text, mnemonic_case=c)
    except Exception as e:
        run.fail("readable", case, {"exc": repr(e)})
        return
    P = SectionParser("~W", version=2.0)
    f0, f1 = casef(c), casef(pre or "preserve")
    f01 = lambda s_: f0(f1(s_))
    for k in lo.SECTIONS:
        gi = lo.section_items(got, k)
        if len(gi) != len(exp[k]):
            run.fail("item-count", case, {"section": k, "expected": len(exp[k]), "observed": len(gi),
                                          "origs": [r[0] for r in exp[k]], "got": [i.original_mnemonic for i in gi]})
            continue
        for idx, (r, g) in enumerate(zip(exp[k], gi)):
            m, u, v, d, replaced = r
            f = f0 if replaced else f01
            if k == "Curves":
                ev = str(v)
            elif k in ("Version", "Well") and f(m).upper() in ("API", "UWI"):
                ev = str(v)
            else:
                # independent reading of "numbers compared numerically": the hand-written literal recogniser of the C08 oracle,
                # not lasio's own num() (a defect in num() would otherwise hide on both sides)
                from . import c08
                e8, _ = c08.oracle(str(v))
                ev = str(v) if e8[0] == "str" else e8[1]
            obs = [g.original_mnemonic, g.unit, g.value, g.descr]
            ok = g.original_mnemonic == f(m) and g.unit == str(u) and same_value(ev, g.value) and g.descr == str(d)
            if not ok:
                run.fail("item-roundtrip", case, {"section": k, "index": idx, "orig": m,
                                                  "expected": [f(m), str(u), lo.cv(ev), str(d)],
                                                  "observed": [obs[0], obs[1], lo.cv(obs[2]), obs[3]]})
    if got.other != exp_other:
        run.fail("other-text", case, {"expected": exp_other, "observed": got.other})


# ------------------------------------------------------------------ one case
def spec_in_domain(spec):
    las = lo.build(spec)
    upd = lo.build(spec)
    lo.pre_write_update(upd)
    for k in lo.SECTIONS:
        for a, b in zip(lo.section_items(las, k), lo.section_items(upd, k)):
            if not lo.item_ok(a.original_mnemonic, b.unit, b.value if (k == "Well" and a.mnemonic in ("STRT", "STOP", "STEP")) else a.value,
                              a.descr, k):
                return False
    return lo.other_ok(las.other)


def reread_in_domain(spec):
    """second-generation objects (read from lasio's own output, written again): a blank mnemonic is only in the property's
    domain 'on lines with no further period'; a numeric value that read() turned into a float is printed with a period by the
    second write (`. 145151824474974882991` -> 1.4515182447497488e+20), so such items leave the domain"""
    from . import c08
    las = lo.build(spec)
    for k in ("Version", "Well", "Parameter"):
        for a in lo.section_items(las, k):
            if str(a.original_mnemonic).strip() == "":
                e8, _ = c08.oracle(str(a.value))
                if e8[0] == "flt":
                    return False
    return True


def nontrivial(spec, vkey):
    for k, key in (("version", "Version"), ("well", "Well"), ("params", "Parameter")):
        items = spec.get(k, [])
        names = [i[0] for i in items]
        for m, u, v, d in items:
            if u and v[0] in ("none",) or (u and v == ["s", ""]):
                return True
            if names.count(m) > 1 or m.strip() == "" or m in lo.CASE_VARIANTS:
                return True
            if key == "Well" and vkey == "1.2":
                return True
            if len(m) > 12 or len(u) > 12:
                return True
    return False


def check_spec(run, spec, vfloat, vkey, wrap, cases, tag, pend, in_domain=None, oracle_on=None, reread=None):
    """reread=c: the object written is not the built one but the one obtained by reading its own output with
    mnemonic_case=c (index_initial set, mnemonic_transforms on for upper/lower)"""
    if in_domain is None:
        in_domain = spec_in_domain(spec)
    if oracle_on is None:
        oracle_on = in_domain and (reread is None or reread_in_domain(spec))
    case = {"spec": spec, "version": vkey, "wrap": wrap}
    if reread is None:
        las, text, exc = real_write(spec, vfloat, wrap)
        twin = lo.build(spec)
    else:
        import lasio
        case["reread"] = reread
        _, text0, exc0 = real_write(spec, 2.0, None)
        if text0 is None:
            return
        try:
            las = lasio.read(text0, mnemonic_case=reread)
            twin = lasio.read(text0, mnemonic_case=reread)
        except Exception:
            return
        s = io.StringIO()
        text, exc = None, None
        try:
            las.write(s, version=vfloat, **({} if wrap is None else {"wrap": wrap}))
            text = s.getvalue()
        except Exception as e:
            exc = type(e).__name__
            text = s.getvalue() if "\n~ASCII" in s.getvalue() else None
    try:
        lo.pre_write_update(twin)
    except Exception:
        return
    secs, other = lo.snapshot(twin)
    req = {"op": "wr.header", "version": vkey, "header_width": 60, "wrap": wrap,
           "version_tr": bool(getattr(twin.version, "mnemonic_transforms", False)), "sections": secs, "other": other}
    run.case(case, nontrivial=in_domain and nontrivial(spec, vkey),
             tags=[tag, "version=" + vkey, "domain=" + ("in" if in_domain else "context")])
    if text is None:
        pend.append(("header", case, req, {"raise": exc}, in_domain))
        return
    if exc is not None:
        run.dist["data-section-raised-after-header"] += 1
        oracle_on = False
    lines = text.split("\n")
    real_after = {"Well": [lo.wval(i.value) for i in lo.section_items(las, "Well")],
                  "Parameter": [lo.wval(i.value) for i in lo.section_items(las, "Parameter")]}
    real_vafter = [[i.original_mnemonic, i.mnemonic, str(i.unit), str(i.value), str(i.descr)] for i in lo.section_items(las, "Version")]
    pend.append(("header", case, req, {"text": text, "values_after": real_after, "version_after": real_vafter}, in_domain))
    # (ii) sections re-read
    hdr = []
    for ln in lines:
        if ln.startswith("~ASCII"):
            break
        hdr.append(ln)
    parts = split_sections(hdr)
    for c in cases:
        for k in lo.SECTIONS:
            ls = parts.get(k, [])
            pend.append(("readsection", dict(case, mnemonic_case=c, section=k),
                         {"op": "wr.readsection", "version": vkey, "kind": k, "case": c, "lines": ls},
                         real_read_section(k, vfloat, ls, c), in_domain))
        if oracle_on:
            oracle(run, spec, vfloat, vkey, wrap, c, text, dict(case, mnemonic_case=c), pre=reread)
    c0 = cases[0]
    for k in lo.SECTIONS:
        for ln in parts.get(k, []):
            s = ln.strip()
            pend.append(("readitem", dict(case, mnemonic_case=c0, section=k, line=s),
                         {"op": "wr.readitem", "version": vkey, "kind": k, "case": c0, "line": s},
                         real_read_item(k, vfloat, s, c0), in_domain))


def flush(run, pend):
    if run.model is None:
        pend.clear()
        return
    ans = run.model.ask([p[2] for p in pend])
    for (stream, case, req, real, indom), m in zip(pend, ans):
        run.traces += 1
        if stream == "header":
            if "raise" in real:
                ok = isinstance(m, dict) and m.get("raise") == real["raise"]
            else:
                ok = isinstance(m, dict) and "lines" in m
                if ok:
                    mtext = "".join(l + "\n" for l in m["lines"])
                    ok = real["text"].startswith(mtext) and real["text"][len(mtext):].startswith("~ASCII") \
                        and m["values_after"] == real["values_after"] and m["version_after"] == real["version_after"]
            if not ok:
                mm = m
                rr = {k: v for k, v in real.items() if k != "lines"}
                if isinstance(m, dict) and "lines" in m and "text" in real:
                    rl = real["text"].split("\n")
                    k = next((i for i, (a, b) in enumerate(zip(m["lines"], rl)) if a != b), min(len(m["lines"]), len(rl)))
                    mm = {"first_diff_line": k, "lines": m["lines"][k:k + 2], "values_after": m["values_after"], "version_after": m["version_after"]}
                    rr = {"first_diff_line": k, "lines": rl[k:k + 2], "values_after": real["values_after"], "version_after": real["version_after"]}
                run.disagree("wr.header", case, mm, rr, in_domain=indom)
        else:
            if m != real:
                run.disagree("wr." + stream, dict(case, request=req), m, real, in_domain=indom)
    pend.clear()


# ------------------------------------------------------------------ generators of special streams
def exhaustive_specs():
    """a 4-item section: item w strictly the widest (mnemonic, unit and value columns) x unit empty or not x value empty or not"""
    names = ["AA", "Null", "AA", "Cé"]
    for w in range(4):
        for umask in range(16):
            for vmask in range(16):
                items = []
                for i in range(4):
                    wide = i == w
                    m = names[i] + ("LONGEST" if wide else "")
                    u = "" if (umask >> i) & 1 == 0 else ("KG/M3.LONGUNIT" if wide else "M" + str(i))
                    if (vmask >> i) & 1 == 0:
                        v = ["s", ""] if i % 2 == 0 else ["none"]
                    else:
                        v = ["s", "a much longer value (text) %d" % i] if wide else [["i", 7], ["f", (2.5).hex()], ["s", "txt"], ["s", "1.50"]][i]
                    items.append([m, u, v, "descr %d" % i if i != 2 else ""])
                curves = [["DEPT", "M", ["s", ""], "depth", [(0.0).hex(), (1.0).hex()]]] + \
                         [[m, u, (["s", ""] if v == ["none"] else v), d, [(1.0).hex(), (2.0).hex()]] for m, u, v, d in items]
                yield {"version": [list(i) for i in items], "well": [list(i) for i in items], "params": [list(i) for i in items],
                       "curves": curves, "other": "note %d" % w}


CONTEXT_ITEMS = [
    ["TIME", "", ["s", "12:30"], "start time"], ["A.B", "M", ["i", 1], "dotted mnemonic"], ["A:B", "", ["s", "x"], "colon mnemonic"],
    ["N", "100", ["i", 5], "numeric unit"], ["N", "(M)", ["i", 5], "bracketed unit"], ["N", "[M]", ["s", ""], "bracketed unit"],
    ["N", "K M", ["i", 5], "blank in unit"], ["#C", "M", ["i", 1], "comment mnemonic"], ["~T", "", ["i", 1], "title mnemonic"],
    ["N", "M.", ["i", 1], "unit ending with period"], ["N", ".M", ["i", 1], "unit starting with period"], ["N", "M..S", ["i", 1], "dotdot unit"],
    ["V", "", ["s", "1..2"], "dotdot value"], ["D", "", ["s", "x"], "descr: with colon"], ["", "M.S", ["s", "1.5"], "blank mnemonic, periods"],
    [" ", "", ["s", "x"], "blank mnemonic of one space"], [" P", "", ["s", " padded "], " padded descr "], ["T", "", ["s", "line\nbreak"], "d"],
    ["N", "1000 lbf", ["i", 5], "digits blank suffix unit"], ["Q", "U:S", ["s", "x 12"], "d"],
]


def context_specs(rng, n):
    for i in range(n):
        spec = lo.gen_spec(rng)
        k = rng.choice(["version", "well", "params"])
        it = list(rng.choice(CONTEXT_ITEMS))
        if k == "version" and it[0].upper() in ("VERS", "WRAP", "DLM"):
            continue
        spec[k] = spec[k] + [it]
        if rng.random() < 0.3:
            c = list(rng.choice(CONTEXT_ITEMS))
            spec["curves"] = spec["curves"] + [[c[0], c[1], c[2] if c[2][0] == "s" else ["s", str(lo.dec(c[2]))], c[3], spec["curves"][0][4]]]
        if rng.random() < 0.2:
            spec["other"] = rng.choice(["trailing newline\n", " padded line ", "a\r\nb", "~tilde line", "a\n\nb", "x\x0cy"])
        yield spec


KNOWN_CASE = {"version": [], "well": [["Null", "", ["s", "the value"], "the descr"]], "params": [],
              "curves": [["DEPT", "M", ["s", ""], "", [(1.0).hex(), (2.0).hex(), (3.0).hex()]]], "other": ""}


# ------------------------------------------------------------------ run
def run(run):
    pend = []

    def maybe_flush():
        if len(pend) >= 3000:
            flush(run, pend)

    # the input of the repaired defect well-case-variant-order-1.2 (lasio 4979e47): `Null` in a 1.2 ~Well section read with
    # mnemonic_case upper / lower; run first on every run
    check_spec(run, KNOWN_CASE, 1.2, "1.2", None, CASES, "repaired-case-variant-input", pend, in_domain=True)
    # exhaustive widest x unit x value
    n = 0
    for spec in exhaustive_specs():
        for vfloat, vkey in VERSIONS:
            check_spec(run, spec, vfloat, vkey, None, [CASES[n % 3]], "exhaustive-widest", pend, in_domain=True)
        n += 1
        maybe_flush()
    run.dist["exhaustive-widest-specs"] = n
    # generated conformant objects
    for i in range(run.budget(700, 20000)):
        spec = lo.gen_spec(run.rng)
        vfloat, vkey = VERSIONS[i % 2]
        wrap = [None, None, True, False][i % 4]
        indom = spec_in_domain(spec)
        check_spec(run, spec, vfloat, vkey, wrap, CASES, "generated", pend, in_domain=indom)
        maybe_flush()
    # objects that come from reading (index_initial set; mnemonic_transforms on), written again: correspondence only
    for i in range(run.budget(150, 3000)):
        spec = lo.gen_spec(run.rng)
        vfloat, vkey = VERSIONS[i % 2]
        check_spec(run, spec, vfloat, vkey, [None, True, False][i % 3], CASES, "reread", pend, reread=CASES[(i // 2) % 3])
        maybe_flush()
    # ~Version without WRAP / VERS, duplicated VERS / WRAP: KeyError for wrap=None, append instead of replace
    for i, (dele, extra) in enumerate([(["WRAP"], []), (["VERS"], []), (["WRAP", "VERS"], []), ([], [["WRAP", "", ["s", "YES"], "second"]]),
                                      ([], [["VERS", "", ["f", (2.0).hex()], "second"]]), ([], [["wrap", "", ["s", "NO"], "lower"]]),
                                      (["DLM"], [])]):
        for wrap in (None, True, False):
            for vfloat, vkey in VERSIONS:
                spec = lo.gen_spec(run.rng)
                spec["version_delete"] = dele
                spec["version"] = extra
                check_spec(run, spec, vfloat, vkey, wrap, ["preserve"], "version-section-edits", pend, in_domain=True, oracle_on=False)
    flush(run, pend)
    # context stream: non-conformant items (model vs real only)
    for i, spec in enumerate(context_specs(run.rng, run.budget(300, 6000))):
        vfloat, vkey = VERSIONS[i % 2]
        check_spec(run, spec, vfloat, vkey, None, [CASES[i % 3]], "context", pend, in_domain=False)
        maybe_flush()
    flush(run, pend)
    run.exhaustive = False


def search(run, disagreements):
    pend = []
    for i in range(run.budget(3000, 40000)):
        spec = lo.gen_spec(run.rng)
        if not spec_in_domain(spec):
            continue
        vfloat, vkey = VERSIONS[i % 2]
        las, text, exc = real_write(spec, vfloat, None)
        if text is None:
            continue
        for c in CASES:
            oracle(run, spec, vfloat, vkey, None, c, text, {"spec": spec, "version": vkey, "wrap": None, "mnemonic_case": c})
        if run.failures:
            return


def still_fails(spec, vkey, wrap, c, reread=None):
    class R:
        failures = []

        def fail(self, clause, case, detail=None):
            f = dict(clause=clause, case=case, detail=detail)
            self.failures.append(f)
    r = R()
    r.failures = []
    vfloat = 1.2 if vkey == "1.2" else 2.0
    try:
        if not spec_in_domain(spec):
            return None
        if reread is None:
            las, text, exc = real_write(spec, vfloat, wrap)
        else:
            import lasio
            _, text0, _ = real_write(spec, 2.0, None)
            if text0 is None:
                return None
            las = lasio.read(text0, mnemonic_case=reread)
            s_ = io.StringIO()
            las.write(s_, version=vfloat, **({} if wrap is None else {"wrap": wrap}))
            text = s_.getvalue()
        if text is None:
            return None
        case = {"spec": spec, "version": vkey, "wrap": wrap, "mnemonic_case": c}
        if reread is not None:
            case["reread"] = reread
        oracle(r, spec, vfloat, vkey, wrap, c, text, case, pre=reread)
    except Exception:
        return None
    return r.failures[0] if r.failures else None


def shrink(run, f):
    c = f["case"]
    if "spec" not in c or "mnemonic_case" not in c:
        return f
    spec, vkey, wrap, mc = c["spec"], c["version"], c.get("wrap"), c["mnemonic_case"]
    rr = c.get("reread")
    best = f
    changed = True
    while changed:
        changed = False
        for k in ("version", "well", "params", "curves"):
            for i in range(len(spec.get(k, []))):
                if k == "curves" and len(spec[k]) == 1:
                    continue
                cand = dict(spec)
                cand[k] = spec[k][:i] + spec[k][i + 1:]
                g = still_fails(cand, vkey, wrap, mc, rr)
                if g:
                    spec, best, changed = cand, g, True
                    break
        for k in ("other", "well_edit"):
            if spec.get(k):
                cand = dict(spec)
                cand[k] = "" if k == "other" else {}
                g = still_fails(cand, vkey, wrap, mc, rr)
                if g:
                    spec, best, changed = cand, g, True
    return best


def replay(run, payload):
    c = payload["case"]
    if "spec" not in c:
        return True
    cs = [c["mnemonic_case"]] if "mnemonic_case" in c else CASES
    return all(still_fails(c["spec"], c["version"], c.get("wrap"), mc, c.get("reread")) is None for mc in cs)


LEVEL_TEXT = ("Machine-checked Lean 4 theorems about an executable model of the header part of lasio.writer.write (value normalisation, "
              "order tables regenerated from defaults.ORDER_DEFINITIONS, section widths, line formatter, WRAP/VERS substitution, splitlines) "
              "and of its inverse through the reader (loop body of parse_header_items_section, SectionParser constructors): for every item "
              "list the padding between unit and right-hand field is >= 1 (C03_pad_ge_one), the written line of a conformant item parses back "
              "to the item under every mnemonic_case (C03_item, on top of C04_main_all), a whole section reads back in order with duplicates "
              "(C03_section), standardize_value is idempotent, splitlines/join is the identity on normal-form ~Other text. Tie: byte-exact "
              "differential comparison of the compiled model with las.write and with the real section parser, and the property's oracle "
              "through lasio.read.")
LEVEL_NOTE = ("With the default `DLM . SPACE` item of lasio.LASFile() in ~Version (Props/C01FileDlm.lean, hypothesis DlmOK instead of 'no DLM item'): C03_file_dlm, C01_file_dlm(+_wrapYes, _unwrapped), C11_file_fixed_point_dlm / C11_file_iterate_dlm (all four steering values equal), C12_file_dlm; counter-examples DLM COMMA over blank-separated data (known finding dlm-not-space), DLM FOO (KeyError); two DLM items are ignored by the reader. Whole file including the data section and the steering values: Props/C01File.lean (C01_file). num() is not part of this model (values are raw text; the oracle applies the real num). The reader's section finding / ~Other "
              "collection is covered by the oracle only. Forced hypothesis: mnemonic not starting with '#'/'~'. The order lookup is the two-step "
              "(exact, then upper-cased) one of both reader and writer; C03_case_stable proves they agree under every mnemonic_case.")
