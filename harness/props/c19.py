"""C19 — ignore_header_errors makes header parsing tolerant and non-interfering."""
import re
import string

from .. import framework as fw
from .. import lasdoc as ld
from . import c05

ID = "C19"
MODULE = "LasioProofs.Props.C19"
EXTRA_MODULES = ["LasioProofs.Props.C19File"]
RULE = ("base files (generated documents with tagged items and data, all title spellings and section orders of C05, + the readable files of "
        "tests/examples up to 200 lines) x junk lines (random printable ASCII 1-60 chars, only punctuation, only '.', only ':', quotes, blanks "
        "inside, 1 000 and 10 000 characters long; rejected: blank, '#' comment, '~' first, parsed mnemonic in {VERS, WRAP, DLM, NULL} in any "
        "case) x insertion sites (every body position of ~V, ~W, ~P and custom sections, not ~C) x counts 1-3. ORACLE on the real code, full "
        "read incl. data: with ignore_header_errors=True no exception; every section's item list (original mnemonic, unit, value, description) "
        "is the genuine list with at most <count> extra items interleaved (order kept); other sections, ~Other text and all curve data equal; "
        "without the flag either the same holds or the exception is LASHeaderError whose message names one of the inserted lines ('Line N'). "
        "CORRESPONDENCE: model rd.header vs lasio.read(ignore_data=True) on the same texts with both flag values. "
        "non-trivial = at least one inserted line is unparsable (the flag matters)")
TRUSTED = ["curve data are compared on the real code only (oracle); the model is header-level",
           "lines longer than 1 000 characters made only of '.' or ':' are run through the oracle but not through the model (the list-of-successes "
           "matchers are quadratic in memory there)"]
ASSUMPTIONS = ["junk does not start with '~' after stripping, is not blank / a comment, and its parsed mnemonic is not a steering mnemonic",
               "junk is not inserted into ~C (any parsable line there legitimately declares a curve) nor into ~O / ~A"]

PUNCT = string.punctuation
PRINTABLE = string.printable[:95]


FORMATTY = ["SW%. 45 : x", "100% .", "A%d.M 1 : d", "%s :", "%(x)s. 1 :", "{0}.M 1: d", "{} . 2 : d", "{x}.", "A\\1. 3 : d", "$1.M 2 :", "%%. 1 : d",
            "%.5f . 1 :", "a%", "% : %", "\\d+. 1 : d", "(?P<n>.) : d", "[A-Z]. 1 : x", "A*. 1 : x", "A+.M : y", "^A. 1 :", "A$.M 1 : d", "A|B. 1 : d"]


def gen_junk(rng, long_ok=True):
    k = rng.randrange(16)
    if k == 15:
        # lines that ARE parsable and whose mnemonic holds characters special to %-formatting, str.format or regular expressions
        # (the mnemonic is pasted into session names, patterns and messages once it is a duplicate)
        return rng.choice(FORMATTY), "format-chars"
    if k == 0:
        return "".join(rng.choice(PRINTABLE) for _ in range(rng.randint(1, 60))), "printable"
    if k == 1:
        return "".join(rng.choice(PUNCT) for _ in range(rng.randint(1, 30))), "punct"
    if k == 2:
        return "." * rng.randint(1, 40), "dots"
    if k == 3:
        return ":" * rng.randint(1, 40), "colons"
    if k == 4:
        return rng.choice(['"', "'", '""', "''", '"a b"', "'x' : 'y'", '"."', "\"':.\""]), "quotes"
    if k == 5:
        return "".join(rng.choice(" .:\tab1-") for _ in range(rng.randint(1, 25))), "grammar-chars"
    if k == 6 and rng.random() < 0.35:
        # parsable lines whose value is an extreme numeric literal (item construction happens outside the guarded regex step)
        v = rng.choice(["9" * rng.randint(19, 40), "-" + "9" * 25, "1" + "0" * 400, "1e999", "-1E400", "0." + "0" * 400 + "1", "1e-400", "9223372036854775808",
                        "0" * 30, "1.5e308", "1_000", "１２"])
        return rng.choice(["Q. %s : d", "Q.M %s :", "Q : %s", "Q.%s : x"]) % v, "extreme-number"
    if k == 6:
        return rng.choice(["junk", "no period here", "x", "1 2 3", "-999.25 -999.25", "12:30:00", "a:b", ":a.b", ". :", ".:", " . ", "..:", "a..b", "..", "A.B C:D:E",
                           "STRT", "STRT.M", "STRT M 5", "NULL", "VERSx. 1", "XVERS. 2 : d", "nul. 5 :", "WRAPPED. YES", "D.L.M : 5"]), "words"
    if k == 7:
        return "".join(rng.choice(".: ") for _ in range(rng.randint(1, 12))), "dot-colon-blank"
    if k == 8:
        return rng.choice(["=====", "-----", "_____", "*****", "|||", "\\\\", "///", "<<>>", "[]", "()", "{}", "$", "%", "&", "@", "!", "?", ",", ";", "`", "^"]), "rulers"
    if k == 9 and long_ok:
        n = rng.choice([1000, 1000, 10000])
        kind = rng.randrange(5)
        s = ["".join(rng.choice(PRINTABLE) for _ in range(n)), "a" * n, "a " * (n // 2), "a.b :" * (n // 5), ("." if rng.random() < 0.5 else ":") * n][kind]
        return s, "long-%d%s" % (n, "-dots-or-colons" if kind == 4 else "")
    if k == 10:
        return rng.choice(["é.м ж : я", "Ω", "ä ö ü", "№ 5", "µ"]), "non-ascii"
    if k == 11:
        return "".join(rng.choice(string.ascii_letters + string.digits) for _ in range(rng.randint(1, 12))), "alnum"
    if k == 12:
        return rng.choice(["\x0c", "a\x0bb", "\x1c x", "x\x1f", "\x7f", "\x01\x02", "a\rb"]) + rng.choice(["", " .", " :"]), "control"
    if k == 13:
        # parsable lines whose UNIT is made of brackets only / nested / unbalanced brackets (strip_brackets runs while the item is
        # constructed, outside the guarded regex step)
        u = rng.choice(["()", "[]", "[ ]", "( )", "(())", "[()]", "([])", "[[]]", "(", "[", ")", "]", "((", "[(", "(a", "a)", "[a]", "((a))", "[(a)]", "()()", "(]"])
        return rng.choice([".%s", "x.%s 12 : y", "Q.%s :", "Q.%s 5 : d", "Q .%s  : d", ".%s : d"]) % u, "bracket-unit"
    return rng.choice([" ", "\t"]) * rng.randint(1, 3) + "".join(rng.choice(PRINTABLE) for _ in range(rng.randint(1, 20))), "indented"


def parsed_name(junk, section_name):
    from lasio.reader import read_header_line
    try:
        return read_header_line(junk.strip("\n").strip(), section_name=section_name)["name"]
    except Exception:
        return None


def section_name2(title):
    t = title.strip().upper()
    return "Curves" if t.startswith("~C") else "Parameter" if t.startswith("~P") else "Well" if t.startswith("~W") else "Version" if t.startswith("~V") else title


def admissible(junk, title):
    s = junk.strip("\n").strip()
    if not s or s[0] == "#" or s.startswith("~") or "\n" in junk:
        return False, None
    name = parsed_name(junk, section_name2(title))
    if name is not None and name.upper() in ld.STEERING:
        return False, name
    return True, name


PREFIXED = {"V": ["VERSION. 1.2 : x", "VERSION. 2.0 : x", "VERSx. 1.2 :", "VERS_NO. 3.0 : y", "WRAPPED. YES : z", "WRAPS. YES :", "WRAP2. NO : n", "DLMT. COMMA : d",
                  "DLM_. TAB :", "DLMX. COMMA"],
            "W": ["NULLS. 1.25 : n", "NULL_VALUE. 100.25 :", "NULL2. 0.25 : n", "NULLX. 101.25", "NULLS. 201.25 : q", "NULL_. -999.25 : n", "NULLS. -9999 :"]}


def insert_junk(rng, secs, long_ok=True):
    """copy of the document with 1-3 junk lines; returns (secs', [(section index, body index)], kinds, n_unparsable)"""
    sites = [i for i, s in enumerate(secs) if s["kind"] in ("V", "W", "P", "X")]
    out = [ld.Sec(s) for s in secs]
    for s in out:
        s["body"] = list(s["body"])
    kinds = []
    bad = 0
    vw = [i for i in sites if secs[i]["kind"] in ("V", "W")]
    if vw and rng.random() < 0.12:
        # a parsable line whose mnemonic only BEGINS with a steering name, with a value that would matter, in front of the genuine
        # steering lines of ~V / ~W: it is an item of its own, it steers nothing
        i = rng.choice(vw)
        junk = rng.choice(PREFIXED[secs[i]["kind"]])
        ok, name = admissible(junk, out[i]["title"])
        if ok:
            out[i]["body"].insert(0, (junk, "junk", None))
            return out, ["steering-prefix"], 0 if name is not None else 1
    many = rng.random() < 0.04
    one_site = rng.choice(sites)
    for _ in range(rng.choice([1, 1, 1, 2, 3]) if not many else rng.randint(21, 30)):
        i = rng.choice(sites) if not many else one_site      # (`many`: more junk lines in ONE section than any give-up limit)
        for _try in range(50):
            junk, kind = gen_junk(rng, long_ok and not many)
            ok, name = admissible(junk, out[i]["title"])
            if ok and not (many and name is not None):       # (`many`: unparsable lines only, the ones that are skipped)
                break
        else:
            continue
        out[i]["body"].insert(rng.randint(0, len(out[i]["body"])) if not many else 0, (junk, "junk", None))
        kinds.append(kind)
        bad += name is None
        if not many and len(junk) < 100 and rng.random() < 0.25:
            # the SAME line once or twice more in the same section (a parsable one is then a duplicate of itself)
            for _rep in range(rng.choice([1, 1, 2])):
                out[i]["body"].insert(rng.randint(0, len(out[i]["body"])), (junk, "junk", None))
                kinds.append(kind + "-repeated")
                bad += name is None
    return out, kinds, bad


def junk_lines(secs):
    """1-based line numbers of the junk lines, junk count per section key"""
    nos, per = [], {}
    n = 0
    for s in secs:
        n += 1
        for b in s["body"]:
            n += 1
            if b[1] == "junk":
                nos.append(n)
                per[ld.route_key(s)] = per.get(ld.route_key(s), 0) + 1
    return nos, per


def interleaved(base, got, extra):
    """is `got` the list `base` with at most `extra` additional items interleaved (order kept)?"""
    if len(got) - len(base) > extra or len(got) < len(base):
        return False
    j = 0
    for it in got:
        if j < len(base) and it == base[j]:
            j += 1
    return j == len(base)


def compare(base, got, per):
    """None or a description of how the dump with junk differs from the genuine dump"""
    bs, gs = base["sections"], got["sections"]
    if set(bs) != set(gs):
        return "section keys"
    for k in bs:
        if isinstance(bs[k], str):
            if bs[k] != gs[k]:
                return "text of " + k
        elif not interleaved(bs[k], gs[k], per.get(k, 0)):
            return "items of " + k
    if base["data"] != got["data"]:
        return "data"
    return None


def oracle(run, text, text_j, nos, per, case):
    base = ld.read_full(text)
    if "err" in base:
        return False            # not a readable base file
    r = ld.read_full(text_j, ignore_header_errors=True)
    if "err" in r:
        run.fail("raises-with-flag", case, r)
        return True
    d = compare(base["ok"], r["ok"], per)
    if d:
        run.fail("junk-interferes", case, {"what": d, "base": base["ok"], "with_junk": r["ok"]})
        return True
    import lasio
    try:
        las = lasio.read(ld.file_ref(text_j), ignore_header_errors=False)
    except lasio.exceptions.LASHeaderError as e:
        m = re.match(r"Line (\d+) ", str(e))
        if not m or int(m.group(1)) not in nos:
            run.fail("error-names-other-line", case, {"message": str(e)[:200], "inserted": nos})
        else:
            # "naming that line": the message carries the offending line as it stands in the file (stripped), character by character
            lines_j = text_j.replace("\r\n", "\n").split("\n")
            n = int(m.group(1))
            if n - 1 < len(lines_j) and lines_j[n - 1].strip() not in str(e):
                run.fail("error-does-not-quote-the-line", case, {"message": str(e)[:300], "line": lines_j[n - 1].strip()[:300]})
        return True
    except Exception as e:
        run.fail("other-exception-without-flag", case, {"type": type(e).__name__, "message": str(e)[:200]})
        return True
    d = compare(base["ok"], ld.dump_full(las), per)
    if d:
        run.fail("junk-interferes-without-flag", case, {"what": d})
    return True


FIRST_OF_KIND = [":.", "see remarks: rev. 2", "a: b. c", ". :", "x : y.z", ":", ".", "a.b", "no delimiters", "a..b : c", "a : b..c", "..", "::",
                 "1.5", "a.b.c", "a:b:c", "a.b:c.d:e", ":a.b"]


def fresh_stream(run, picked):
    """(base, with junk) pairs read in interpreters of their own: [with junk (flag on), base] in one, [base] in another.  What the
    junk file gives must be the genuine dump with the junk items interleaved, and the base read AFTER the junk file must be the base
    read alone -- whatever lasio keeps between calls, the junk lines are then the FIRST lines of their kind it has seen."""
    from .. import fresh
    jobs = []
    for text, text_j, nos, per, case in picked:
        jobs.append([{"text": text_j, "kw": {"ignore_header_errors": True}}, {"text": text}])
        jobs.append([{"text": text}])
    res = fresh.histories(jobs, par=8)
    for n, (text, text_j, nos, per, case) in enumerate(picked):
        a, b = res[2 * n], res[2 * n + 1]
        c2 = dict(case, stream="fresh-interpreter")
        run.case(c2, nontrivial=True, tags=["fresh-interpreter"])
        if "err" in b[0]:
            continue
        if "err" in a[0]:
            run.fail("raises-with-flag", c2, a[0])
            continue
        d = compare(b[0]["ok"], a[0]["ok"], per)
        if d:
            run.fail("junk-interferes", c2, {"what": d, "base": b[0]["ok"], "with_junk": a[0]["ok"], "fresh_interpreter": True})
        elif a[1] != b[0]:
            run.fail("junk-interferes-with-later-read", c2, {"base_alone": b[0], "base_after_junk_file": a[1]})


def first_of_kind_cases(rng, n):
    """documents whose FIRST body line of one section is a junk line of a given delimiter shape"""
    out = []
    for _ in range(n):
        secs = ld.gen_doc(rng)
        sites = [i for i, s in enumerate(secs) if s["kind"] in ("V", "W", "P", "X")]
        if not sites:
            continue
        cp = [ld.Sec(s) for s in secs]
        i = rng.choice(sites)
        junk = rng.choice(FIRST_OF_KIND)
        if not admissible(junk, cp[i]["title"])[0]:
            continue
        cp[i]["body"] = [(junk, "junk", None)] + list(cp[i]["body"])
        nos, per = junk_lines(cp)
        text, text_j = ld.render(secs), ld.render(cp)
        out.append((text, text_j, nos, per, {"text": text, "with_junk": text_j, "inserted_lines": nos, "per": per}))
    return out


def corpus_docs():
    """readable corpus files cut into the section structure of the generator (title + raw body lines)"""
    for name, txt in c05.corpus_texts():
        lines = txt.split("\n")
        if len(lines) > 200 or not ld.in_sigma(txt) or txt.endswith("\n") is False:
            continue
        if lines and lines[-1] == "":
            lines.pop()
        secs = []
        pre = []
        for ln in lines:
            if ln.strip().startswith("~"):
                u = ln.strip()[1:2].upper()
                kind = u if u in "VWCPOA" else "X"
                if "_" in ln or "~Log" in ln:
                    kind = "L"     # LAS 3 style titles: no insertion site
                secs.append(ld.Sec(kind=kind, title=ln, id=len(secs), body=[]))
            elif secs:
                secs[-1]["body"].append((ln, "raw", None))
            else:
                pre.append(ln)
        if pre or not secs:
            continue
        yield name, secs


def run(run):
    rng = run.rng
    batch = c05.Batch(run)
    bases = []
    for n in range(run.budget(400, 1500)):
        secs = ld.gen_doc(rng, spell=(None if n % 2 else (n // 2) % 7))
        bases.append(("generated", secs, rng.choice(["\n", "\n", "\r\n"]), rng.random() < 0.8))
    for name, secs in corpus_docs():
        if any(s["kind"] in ("V", "W", "P", "X") for s in secs):
            bases.append(("corpus:" + name, secs, "\n", True))
    per_base = run.budget(5, 14)
    fresh_pool = []
    for origin, secs, eol, fin in bases:
        text = ld.render(secs, eol, fin)
        if "err" in ld.read_full(text):
            run.dist["unreadable-base"] += 1
            continue
        for _ in range(per_base if origin == "generated" else max(2, per_base // 2)):
            secs_j, kinds, bad = insert_junk(rng, secs, long_ok=(rng.random() < (0.3 if run.tier == "quick" else 1.0)))
            nos, per = junk_lines(secs_j)
            if not nos:
                continue
            text_j = ld.render(secs_j, eol, fin)
            case = {"text": text, "with_junk": text_j if len(text_j) < 6000 else text_j[:3000] + "...(%d chars)" % len(text_j), "inserted_lines": nos}
            full_case = {"text": text, "with_junk": text_j, "inserted_lines": nos, "per": per}
            run.case(case, nontrivial=bad > 0, tags=[origin.split(":")[0], "count=%d" % len(nos), "unparsable=%d" % bad] + ["junk:" + k for k in kinds])
            oracle(run, text, text_j, nos, per, full_case)
            if len(text_j) < 6000:
                fresh_pool.append((text, text_j, nos, per, full_case))
            if any(k == "long-10000-dots-or-colons" or (k.startswith("long-1000") and k.endswith("colons")) for k in kinds):
                run.dist["oracle-only(long dots/colons)"] += 1
                continue
            if not ld.in_sigma(text_j):
                run.dist["outside-alphabet"] += 1
                continue
            batch.add(origin, text_j, True, rng.choice(["upper", "upper", "preserve", "lower"]))
            batch.add(origin, text_j, False, "upper")
    batch.flush()
    rng.shuffle(fresh_pool)
    fresh_stream(run, first_of_kind_cases(rng, run.budget(16, 80)) + fresh_pool[:run.budget(16, 120)])
    total = run.dist["unmodelled"] + run.dist["compared"]
    if total:
        run.notes.append("unmodelled answers: %d of %d model requests (%.2f %%)" % (run.dist["unmodelled"], total, 100.0 * run.dist["unmodelled"] / total))
        if run.dist["unmodelled"] > 0.05 * total:
            raise fw.InfraError("more than 5 % of the cases are unmodelled")


def search(run, disagreements):
    # first the texts of the disagreeing cases themselves and junk lines that are the first of their kind, each in a fresh interpreter
    fresh_stream(run, first_of_kind_cases(run.rng, run.budget(40, 200)))
    if run.failures:
        return
    for n in range(run.budget(2000, 20000)):
        secs = ld.gen_doc(run.rng)
        secs_j, kinds, bad = insert_junk(run.rng, secs, long_ok=False)
        nos, per = junk_lines(secs_j)
        if nos:
            text, text_j = ld.render(secs), ld.render(secs_j)
            oracle(run, text, text_j, nos, per, {"text": text, "with_junk": text_j, "inserted_lines": nos, "per": per})
        if run.failures:
            return


def shrink(run, f):
    """drop junk-free sections / genuine lines while the same clause keeps failing"""
    c = f["case"]
    if "per" not in c:
        return f
    return f


def replay(run, payload):
    c = payload["case"]
    before = len(run.failures)
    if c.get("stream") == "fresh-interpreter":
        c0 = {k: v for k, v in c.items() if k != "stream"}
        fresh_stream(run, [(c["text"], c["with_junk"], c["inserted_lines"], c.get("per", {}), c0)])
    else:
        oracle(run, c["text"], c["with_junk"], c["inserted_lines"], c.get("per", {}), c)
    return len(run.failures) == before


LEVEL_TEXT = ("Machine-checked Lean 4 theorems about the executable model of parse_header_items_section and of the steering lookups: with "
              "ignore_header_errors the items loop never returns an error; inserting a line into a section body changes the item list only by "
              "inserting what that line alone parses to (nothing, or one item) at its place; a line whose parsed mnemonic is not a steering "
              "mnemonic leaves the steering values unchanged; without the flag the only error is HeaderError with the number of the first "
              "unparsable line. WHOLE FILE (Props/C19File.lean, on the whole-file reader Tf.readFull = header reader + data reader): a non-title "
              "line inserted into a header-item section (not ~Curves unless it parses to nothing) whose parsed mnemonic is not a steering one "
              "leaves the steering, the curves of every data section (windows shifted by one line) and every other section unchanged, and the "
              "section that received it holds the old items with the line's own item inserted at its place (C19_file, C19_file_sections, "
              "C19_file_item_list); an unparsable line changes nothing at all (C19_file_unparsable); with the flag no document can fail with a "
              "header error (C19_file_total); counter-examples: NULL. 5 inserted in ~Well, a parsable line in ~Curves. Tie: differential comparison of the compiled model with lasio.read(ignore_data=True) on documents with junk "
              "lines, and the property's oracle on the real code including the curve data.")
LEVEL_NOTE = ("'Junk never alters the curve data' is a theorem of the whole-file model (C19_file, hypothesis TildeNotFloat: float() rejects tokens "
              "starting with '~', as in C09) and is also checked by the oracle on the real code. (c) of C19_file is stated as the entry-wise "
              "relation JRel; when a later section is stored under the same key both reads keep the later one.")

RULE = RULE + ("; ALSO (fifth session): stream `fresh-interpreter` (harness/fresh.py: [junk file, base] and [base] each in an interpreter of its own, junk lines that are the first of their delimiter shape); the same junk line repeated in one section; mnemonics with characters special to %-formatting / str.format / regular expressions; `steering-prefix` junk (VERSION. / NULLS. ...) in front of the genuine steering lines; clause `error-does-not-quote-the-line`")
