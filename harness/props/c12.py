"""C12 — the content recovered from a written file does not depend on how it was written."""
import glob
import io
import os

from .. import framework as fw
from .. import lasobj as lo

ID = "C12"
MODULE = "LasioProofs.Props.C12"
EXTRA_MODULES = ["LasioProofs.Props.C12File", "LasioProofs.Props.C01FileDlm"]
RULE = ("pairs of writer configurations (version 1.2/2.0, wrap on/off, fmt / column_fmt of equal precision with different field widths, "
        "len_numeric_field None/-1/wide, lhs_spacer, spacer, data_width, mnemonics_header, data_section_header) applied to twins of the "
        "same object; both outputs re-read with the real reader; canonical header dumps compared apart from VERS and WRAP, curve data "
        "compared exactly. Objects: generated LASFile objects (harness/lasobj.py: duplicate / blank / case-variant mnemonics, all value "
        "kinds, widest-item layouts, plus ~Well values containing ':') and every file of tests/examples re-read (unreadable / unwritable "
        "files and outputs unreadable under BOTH configurations are counted and skipped). Correspondence: for generated objects the header "
        "text of each output vs model wr.header. non-trivial = the two configurations differ in version (the ~Well layout on disk "
        "is swapped) or in wrap")
TRUSTED = ["the data-section half of the property (numeric formatting, textwrap, data reader) is checked by the oracle on the real code only; "
           "its models/theorems belong to C01/C02/C10/C11",
           "Python %-formatting: formats of equal precision print the same digits whatever the field width"]
ASSUMPTIONS = ["curve data is numeric (files with text curves: only the headers are compared; a text cell containing blanks is not "
               "re-readable under any configuration)", "both numeric formats have the same precision; spacers are non-empty white space (an empty spacer with len_numeric_field=-1 glues "
               "columns together)", "~Well values contain no ':' (known finding well-colon-value-1.2 otherwise)",
               "outputs that the reader rejects under BOTH configurations (e.g. text curves containing blanks) are outside the property"]

KNOWN_SPEC = {"version": [], "well": [["TIME", "", ["s", "12:30"], "start time"]], "params": [],
              "curves": [["DEPT", "M", ["s", ""], "", [(1.0).hex(), (2.0).hex(), (3.0).hex()]]], "other": ""}


def gen_cfg(rng, p, conv="f"):
    w = rng.choice([None, 12, 14])
    fmt = "%%.%d%s" % (p, conv) if w is None else "%%%d.%d%s" % (w, p, conv)
    cfg = dict(version=rng.choice([1.2, 2]), wrap=rng.choice([True, False]), fmt=fmt,
               len_numeric_field=rng.choice([None, None, -1, 16, 22]), lhs_spacer=rng.choice([" ", "", "  "]),
               spacer=rng.choice([" ", "  ", "   "]), data_width=rng.choice([79, 40, 120, 200, 24, 30]),
               mnemonics_header=rng.choice([False, False, True]), data_section_header=rng.choice(["~ASCII", "~A", "~Ascii Log Data"]))
    if rng.random() < 0.25:
        cfg["column_fmt"] = {0: "%%%d.%d%s" % (rng.choice([9, 13]), p, conv)}
    return cfg


def gen_pair(rng):
    p = rng.choice([2, 4, 5])
    conv = "e" if rng.random() < 0.12 else "f"       # exponent notation: tokens such as 1.20000e-05 (equal precision on both sides)
    a, b = gen_cfg(rng, p, conv), gen_cfg(rng, p, conv)
    if rng.random() < 0.2:
        # a per-column format of ANOTHER precision, the same on both sides (the two configurations still print every column with
        # equal precision)
        cf = {rng.choice([0, 0, 1]): "%%.%d%s" % (p + rng.choice([1, 2, 3]), conv)}
        a["column_fmt"] = dict(cf)
        b["column_fmt"] = dict(cf)
    r = rng.random()
    if r < 0.35:                    # pure version swap
        b = dict(a)
        b["version"] = 2 if a["version"] == 1.2 else 1.2
    elif r < 0.5:                   # pure wrap swap
        b = dict(a)
        b["wrap"] = not a["wrap"]
    return a, b


def vkey(v):
    return "1.2" if v == 1.2 else "2.0"


def write(las, cfg):
    s = io.StringIO()
    las.write(s, **cfg)
    return s.getvalue()


def strip_vers_wrap(canon):
    out = []
    for k, x in canon:
        if k == "Version" and not isinstance(x, str):
            x = [i for i in x if i[1].upper() not in ("VERS", "WRAP")]
        if not isinstance(x, str):
            # session mnemonics are a function of the list of original mnemonics (C13): compared through the originals
            x = [[i[0], i[2], i[3], i[4]] for i in x]
        out.append([k, x])
    return out


KNOWN_DESCR_SPEC = {"version": [], "well": [["LOC", "", ["s", "A"], "location: site"]], "params": [],
                    "curves": [["DEPT", "M", ["s", ""], "", [(1.0).hex(), (2.0).hex(), (3.0).hex()]]], "other": ""}
KNOWN_BLANK_SPEC = {"version": [], "well": [["", "", ["s", "x"], "a.b"]], "params": [],
                    "curves": [["DEPT", "M", ["s", ""], "", [(1.0).hex(), (2.0).hex(), (3.0).hex()]]], "other": ""}
KNOWN_DLM_SPEC = {"version": [], "version_edit": {"DLM": ["", ["s", "COMMA"], "Column Data Section Delimiter"]}, "well": [], "params": [],
                  "curves": [["DEPT", "M", ["s", ""], "", [(1.0).hex(), (2.0).hex(), (3.0).hex()]],
                             ["A", "", ["s", ""], "", [(4.0).hex(), (5.0).hex(), (6.0).hex()]],
                             ["B", "", ["s", ""], "", [(7.0).hex(), (8.0).hex(), (9.0).hex()]]], "other": ""}


def dlm_of(las):
    try:
        return str(las.version["DLM"].value)
    except Exception:
        return None


def classify(failure):
    d = failure.get("detail") or {}
    c = failure["case"]
    if failure["clause"] in ("one-output-unreadable", "data-config-independence", "data-version-swap") \
            and (c.get("dlm") or "SPACE").upper() not in ("SPACE", "") and (bool(c["a"]["wrap"]) or bool(c["b"]["wrap"])):
        # (a wrapped output of such an object is cut at the declared delimiter: whether it still reshapes depends on how the
        # blank-separated values fall on the physical lines, i.e. on data_width and the field widths of that configuration)
        return "dlm-not-space-wrapped"
    if failure["clause"] == "version-swap" and d.get("section") == "Well" and ":" in (d.get("orig_value") or ""):
        return "well-colon-value-1.2"
    if failure["clause"] == "version-swap" and d.get("section") == "Well" and ":" in (d.get("orig_descr") or ""):
        return "well-colon-descr-2.0"
    if failure["clause"] == "version-swap" and d.get("section") == "Well" and d.get("orig_mnemonic") is not None and d["orig_mnemonic"].strip() == "" \
            and "." in (d.get("orig_unit") or "") + (d.get("orig_value") or "") + (d.get("orig_descr") or ""):
        return "well-blank-mnemonic-period"
    return None


def compare(run, make, a, b, case, origs, numeric=True, read_case="preserve"):
    """write twins under a and b, re-read, compare. `make()` builds a fresh twin. Returns the two texts (or None).
    numeric=False (text curves): the data section is outside the property, only the headers are re-read and compared."""
    import lasio
    try:
        ta = write(make(), a)
        tb = write(make(), b)
    except Exception as e:
        run.dist["unwritable"] += 1
        return None
    ra = rb = None
    ea = eb = None
    try:
        ra = lasio.read(ta, mnemonic_case=read_case, ignore_data=not numeric)
    except Exception as e:
        ea = repr(e)
    try:
        rb = lasio.read(tb, mnemonic_case=read_case, ignore_data=not numeric)
    except Exception as e:
        eb = repr(e)
    if ra is None and rb is None:
        run.dist["both-outputs-unreadable"] += 1
        return ta, tb
    clause = "version-swap" if vkey(a["version"]) != vkey(b["version"]) else "config-independence"
    if ra is None or rb is None:
        run.fail("one-output-unreadable", case, {"a": ea, "b": eb})
        return ta, tb
    ca, cb = strip_vers_wrap(lo.canon_sections(ra)), strip_vers_wrap(lo.canon_sections(rb))
    if [k for k, _ in ca] != [k for k, _ in cb]:
        run.fail(clause, case, {"section": None, "keys_a": [k for k, _ in ca], "keys_b": [k for k, _ in cb]})
    for (k, xa), (_, xb) in zip(ca, cb):
        if isinstance(xa, str) or isinstance(xb, str):
            if xa != xb:
                run.fail(clause, case, {"section": k, "a": xa, "b": xb})
            continue
        if len(xa) != len(xb):
            run.fail(clause, case, {"section": k, "len_a": len(xa), "len_b": len(xb)})
            continue
        for i, (p, q) in enumerate(zip(xa, xb)):
            if p != q:
                ov = origs.get(k)
                run.fail(clause, case, {"section": k, "index": i, "a": p, "b": q,
                                        "orig_value": ov[i][0] if ov and len(ov) == len(xa) else None,
                                        "orig_descr": ov[i][1] if ov and len(ov) == len(xa) else None,
                                        "orig_mnemonic": ov[i][2] if ov and len(ov) == len(xa) else None,
                                        "orig_unit": ov[i][3] if ov and len(ov) == len(xa) else None})
    if numeric and lo.canon_data(ra) != lo.canon_data(rb):
        run.fail("data-" + clause, case, {"a": lo.canon_data(ra)[:3], "b": lo.canon_data(rb)[:3]})
    return ta, tb


def orig_values(las):
    """value / descr texts of the object about to be written (Version is compared apart from VERS/WRAP, so those are dropped)"""
    out = {}
    for k in lo.SECTIONS:
        items = lo.section_items(las, k)
        if k == "Version":
            items = [i for i in items if i.mnemonic not in ("VERS", "WRAP")]
        out[k] = [[str(i.value), str(i.descr), i.original_mnemonic, str(i.unit)] for i in items]
    return out


def nontrivial(a, b):
    return vkey(a["version"]) != vkey(b["version"]) or a["wrap"] != b["wrap"]


def model_header(run, spec, cfg, text, case, pend):
    twin = lo.build(spec)
    try:
        lo.pre_write_update(twin)
    except Exception:
        return
    secs, other = lo.snapshot(twin)
    req = {"op": "wr.header", "version": vkey(cfg["version"]), "header_width": 60, "wrap": cfg["wrap"],
           "version_tr": False, "sections": secs, "other": other}
    pend.append((case, req, text, cfg["data_section_header"]))


def flush(run, pend):
    if run.model is None or not pend:
        pend.clear()
        return
    ans = run.model.ask([p[1] for p in pend])
    for (case, req, text, dsh), m in zip(pend, ans):
        run.traces += 1
        ok = isinstance(m, dict) and "lines" in m
        if ok:
            mtext = "".join(l + "\n" for l in m["lines"])
            ok = text.startswith(mtext) and text[len(mtext):].startswith(dsh)
        if not ok:
            run.disagree("wr.header", case, m if not isinstance(m, dict) else {"lines": m.get("lines", m)}, {"text": text[:1500]},
                         in_domain=True)
    pend.clear()


def corpus_files():
    root = os.path.join(fw.REPO, "tests", "examples")
    fs = glob.glob(os.path.join(root, "**", "*.las"), recursive=True) + glob.glob(os.path.join(root, "**", "*.LAS"), recursive=True)
    return sorted(set(fs))


def run_spec(run, spec, a, b, tag, pend, with_model=True):
    case = {"spec": spec, "a": a, "b": b, "dlm": dlm_of(lo.build(spec))}
    run.case(case, nontrivial=nontrivial(a, b), tags=[tag, "versions=%s/%s" % (vkey(a["version"]), vkey(b["version"])),
                                                    "wrap=%s/%s" % (a["wrap"], b["wrap"])])
    pre = lo.build(spec)
    try:
        lo.pre_write_update(pre)
    except Exception:
        pass
    res = compare(run, lambda: lo.build(spec), a, b, case, orig_values(pre))
    if res and with_model:
        model_header(run, spec, a, res[0], dict(case, which="a"), pend)
        model_header(run, spec, b, res[1], dict(case, which="b"), pend)


def date_columns(run, only=None):
    """objects with a TEXT column of ISO dates (digit-hyphen-digit tokens, the documented case of the reader's hyphen rule) among
    negative numbers, so that every physical line of every layout holds a hyphen: written unwrapped and wrapped at several data
    widths (rows that fit one line, rows continued on a second and third line), the outputs must read back alike"""
    import lasio
    import numpy as np
    base = dict(version=2, fmt="%.5f", len_numeric_field=None, lhs_spacer=" ", spacer=" ", mnemonics_header=False, data_section_header="~ASCII")
    shapes = only or [(r, c, pos, w) for r in (2, 3, 5) for c in (2, 4, 6) for pos in (1, c) for w in (24, 30, 40, 60)]
    for r, c, pos, w in shapes:
        def make():
            las = lasio.LASFile()
            las.append_curve("DEPT", np.array([-1000.0 - 0.5 * i for i in range(r)]), unit="M")
            k = 0
            for j in range(1, c + 1):
                if j == pos:
                    las.append_curve("DATE", np.array(["2020-%02d-%02d" % (1 + i % 12, 10 + i) for i in range(r)]))
                else:
                    k += 1
                    las.append_curve("N%d" % k, np.array([-(100.0 * k + i + 0.25) for i in range(r)]))
            return las
        for a, b in ((dict(base, wrap=False, data_width=79), dict(base, wrap=True, data_width=w)),
                     (dict(base, wrap=True, data_width=79), dict(base, wrap=True, data_width=w))):
            case = {"stream": "date-column", "shape": [r, c, pos, w], "a": a, "b": b, "dlm": "SPACE"}
            run.case(case, nontrivial=True, tags=["date-column", "width=%d" % w])
            try:
                ta, tb = write(make(), a), write(make(), b)
                ra, rb = lasio.read(ta), lasio.read(tb)
            except Exception as e:
                run.fail("one-output-unreadable", case, {"error": repr(e)[:300]})
                continue
            if lo.canon_data(ra) != lo.canon_data(rb):
                run.fail("data-config-independence", case, {"a": lo.canon_data(ra)[:3], "b": lo.canon_data(rb)[:3]})


def overflowing_fields(run, only=None):
    """rows of EQUAL text length in which a value wider than its padded field sits in different columns (row 0: after a line break
    of the wrapped layout, row 1: before it): wrapped and unwrapped outputs read back alike"""
    import lasio
    import numpy as np
    base = dict(version=2, fmt="%.5f", lhs_spacer=" ", spacer=" ", mnemonics_header=False, data_section_header="~ASCII")
    shapes = only or [(c, lnf, w, j0, j1) for c in (6, 8, 9) for lnf in (10, 12) for w in (79, 60, 40)
                      for j0, j1 in ((c - 1, 1), (c - 1, c // 2), (2, c - 2), (1, c - 1))]
    for c, lnf, w, j0, j1 in shapes:
        big = 10 ** (lnf - 6) * 1.5         # one character wider than the field under %.5f
        def make():
            las = lasio.LASFile()
            las.append_curve("DEPT", np.array([1.0, 2.0, 3.0]), unit="M")
            for j in range(1, c):
                col = [10.0 * j + 0.5, 10.0 * j + 1.5, 10.0 * j + 2.5]
                if j == j0:
                    col[0] = big
                if j == j1:
                    col[1] = big
                las.append_curve("N%d" % j, np.array(col))
            return las
        a, b = dict(base, wrap=False, len_numeric_field=lnf, data_width=79), dict(base, wrap=True, len_numeric_field=lnf, data_width=w)
        case = {"stream": "overflowing-field", "shape": [c, lnf, w, j0, j1], "a": a, "b": b, "dlm": "SPACE"}
        run.case(case, nontrivial=True, tags=["overflowing-field", "width=%d" % w])
        try:
            ta, tb = write(make(), a), write(make(), b)
            ra, rb = lasio.read(ta), lasio.read(tb)
        except Exception as e:
            run.fail("one-output-unreadable", case, {"error": repr(e)[:300]})
            continue
        if lo.canon_data(ra) != lo.canon_data(rb):
            run.fail("data-config-independence", case, {"a": lo.canon_data(ra)[:3], "b": lo.canon_data(rb)[:3]})


def run(run):
    import lasio
    pend = []
    date_columns(run)
    overflowing_fields(run)
    base = dict(wrap=False, fmt="%.5f", len_numeric_field=None, lhs_spacer=" ", spacer=" ", data_width=79,
                mnemonics_header=False, data_section_header="~ASCII")
    # the known finding, re-run through the oracle on every run
    run_spec(run, KNOWN_SPEC, dict(base, version=1.2), dict(base, version=2), "known-input", pend)
    # mirror image of the known finding (reported): a ~Well DESCRIPTION containing ':' written as 2.0
    run_spec(run, KNOWN_DESCR_SPEC, dict(base, version=1.2), dict(base, version=2), "colon-descr-input", pend)
    # blank mnemonic with a further period on the line (reported): `.  a.b : x` (1.2) reads as mnemonic 'a', unit 'b'
    run_spec(run, KNOWN_BLANK_SPEC, dict(base, version=1.2), dict(base, version=2), "blank-period-input", pend)
    # genuine defect found by this check (reported): ~Version DLM other than SPACE is written as it is while the data is
    # blank-separated; the wrapped output is then split at the declared delimiter
    run_spec(run, KNOWN_DLM_SPEC, dict(base, version=2, wrap=False), dict(base, version=2, wrap=True), "dlm-input", pend)
    # a DLM COMMA / TAB object written unwrapped, once with blanks and once with its own delimiter between the columns: both
    # outputs are read back alike (the blanks are found by the sniffer / the fast engine, the delimiter by the declared splitter)
    for dlm, sp in (("COMMA", ","), ("COMMA", " , "), ("TAB", "\t")):
        spec = dict(KNOWN_DLM_SPEC, version_edit={"DLM": ["", ["s", dlm], "Column Data Section Delimiter"]})
        for lnf in (None, -1):
            run_spec(run, spec, dict(base, version=2, len_numeric_field=lnf), dict(base, version=2, spacer=sp, lhs_spacer="", len_numeric_field=lnf),
                     "dlm-own-spacer", pend)
    # generated objects
    for i in range(run.budget(1500, 30000)):
        spec = lo.gen_spec(run.rng, ncurves=run.rng.choice([1, 2, 3, 5, 9]))
        if i % 10 == 0:
            spec["well"] = spec["well"] + [[lo.gen_mnemonic(run.rng, lo.AVOID["Well"]), lo.gen_unit(run.rng),
                                            ["s", run.rng.choice(["12:30", "13/05/2001 08:15:00", "a: b", "x :y"])], lo.gen_text(run.rng)]]
        if i % 10 == 5:
            k = run.rng.choice(["version", "well", "params"])
            spec[k] = spec[k] + [[lo.gen_mnemonic(run.rng, lo.AVOID["Version"] + lo.AVOID["Well"]), lo.gen_unit(run.rng),
                                  lo.gen_value(run.rng), run.rng.choice(["location: site", "a :b", "hh:mm"])]]
        if i % 20 == 7:
            spec["well"] = spec["well"] + [["", lo.gen_unit(run.rng), ["s", run.rng.choice(["x", "1.5"])], run.rng.choice(["a.b", "d"])]]
        a, b = gen_pair(run.rng)
        run_spec(run, spec, a, b, "generated", pend)
        if len(pend) >= 512:
            flush(run, pend)
    flush(run, pend)
    # objects obtained by READING (mnemonic_case lower / upper: case-normalised sections, mnemonic_transforms on) and then written
    # under two configurations
    for i in range(run.budget(150, 3000)):
        spec = lo.gen_spec(run.rng, ncurves=run.rng.choice([1, 2, 3]))
        try:
            text = write(lo.build(spec), dict(base, version=run.rng.choice([1.2, 2])))
        except Exception:
            continue
        mc = run.rng.choice(["lower", "upper", "lower"])
        a, b = gen_pair(run.rng)
        if i % 3 == 0:
            a, b = dict(base, version=1.2), dict(base, version=2)
        try:
            probe = lasio.read(text, mnemonic_case=mc)
        except Exception:
            continue
        case = {"reread_text": text, "mnemonic_case": mc, "a": a, "b": b, "dlm": dlm_of(probe)}
        run.case(case, nontrivial=True, tags=["reread", "case=" + mc, "versions=%s/%s" % (vkey(a["version"]), vkey(b["version"]))])
        compare(run, lambda: lasio.read(text, mnemonic_case=mc), a, b, case, orig_values(probe), read_case=mc)
    # corpus
    skipped = 0
    for path in corpus_files():
        rel = os.path.relpath(path, os.path.join(fw.REPO, "tests", "examples"))
        try:
            probe = lasio.read(path, mnemonic_case="preserve")
        except Exception:
            run.dist["corpus-unreadable"] += 1
            continue
        origs = orig_values(probe)
        try:
            numeric = probe.data.dtype.kind == "f"
        except Exception:
            numeric = True
        if not numeric:
            run.dist["corpus-text-curves(header-only)"] += 1
        for j in range(run.budget(3, 12)):
            a, b = gen_pair(run.rng)
            if j == 0:
                a, b = dict(base, version=1.2), dict(base, version=2)
            case = {"file": rel, "a": a, "b": b, "dlm": dlm_of(probe)}
            run.case(case, nontrivial=nontrivial(a, b), tags=["corpus", "versions=%s/%s" % (vkey(a["version"]), vkey(b["version"]))])
            res = compare(run, lambda: lasio.read(path, mnemonic_case="preserve"), a, b, case, origs, numeric=numeric)
            if res is None:
                skipped += 1
    run.dist["corpus-pairs-unwritable"] = skipped


def still_fails(spec_or_file, a, b):
    import lasio

    class R:
        def __init__(self):
            self.failures = []
            import collections
            self.dist = collections.Counter()

        def fail(self, clause, case, detail=None):
            f = dict(clause=clause, case=case, detail=detail)
            kid = classify(f)
            if kid is None or kid not in fw.known_ids(ID):
                self.failures.append(f)
    r = R()
    try:
        if isinstance(spec_or_file, dict) and "reread_text" in spec_or_file:
            text, mc = spec_or_file["reread_text"], spec_or_file["mnemonic_case"]
            probe = lasio.read(text, mnemonic_case=mc)
            compare(r, lambda: lasio.read(text, mnemonic_case=mc), a, b, dict(spec_or_file, a=a, b=b, dlm=dlm_of(probe)), orig_values(probe),
                    read_case=mc)
        elif isinstance(spec_or_file, dict):
            pre = lo.build(spec_or_file)
            lo.pre_write_update(pre)
            compare(r, lambda: lo.build(spec_or_file), a, b, {"spec": spec_or_file, "a": a, "b": b, "dlm": dlm_of(pre)}, orig_values(pre))
        else:
            path = os.path.join(fw.REPO, "tests", "examples", spec_or_file)
            probe = lasio.read(path, mnemonic_case="preserve")
            compare(r, lambda: lasio.read(path, mnemonic_case="preserve"), a, b, {"file": spec_or_file, "a": a, "b": b, "dlm": dlm_of(probe)},
                    orig_values(probe),
                    numeric=probe.data.dtype.kind == "f")
    except Exception:
        return None
    return r.failures[0] if r.failures else None


def fix_cfg(c):
    c = dict(c)
    if "column_fmt" in c:
        c["column_fmt"] = {int(k): v for k, v in c["column_fmt"].items()}
    return c


def shrink(run, f):
    c = f["case"]
    if "spec" not in c:
        return f
    spec, a, b = c["spec"], c["a"], c["b"]
    best = f
    changed = True
    while changed:
        changed = False
        for k in ("version", "well", "params", "curves"):
            for i in range(len(spec.get(k, []))):
                if k == "curves" and len(spec[k]) == 1:
                    continue
                cand = dict(spec)
                cand[k] = spec[k][:i] + spec[k][i + 1:]
                g = still_fails(cand, a, b)
                if g:
                    spec, best, changed = cand, g, True
                    break
        for k in list(b):
            if k != "version" and a.get(k) != b.get(k):
                cand = dict(b)
                if k in a:
                    cand[k] = a[k]
                else:
                    del cand[k]
                g = still_fails(spec, a, cand)
                if g:
                    b, best, changed = cand, g, True
    return best


def replay(run, payload):
    c = payload["case"]
    if c.get("stream") in ("date-column", "overflowing-field"):
        before = len(run.failures)
        (date_columns if c["stream"] == "date-column" else overflowing_fields)(run, only=[tuple(c["shape"])])
        return len(run.failures) == before
    a, b = fix_cfg(c["a"]), fix_cfg(c["b"])
    if "reread_text" in c:
        return still_fails({"reread_text": c["reread_text"], "mnemonic_case": c["mnemonic_case"]}, a, b) is None
    return still_fails(c["spec"] if "spec" in c else c["file"], a, b) is None


LEVEL_TEXT = ("Machine-checked Lean 4 theorems about the executable writer/reader header model of C03: the header text is a function of "
              "(version, wrap, header_width) only and header_width reaches only the five title lines (C12_header_independent, "
              "C12_header_width_titles_only); for a conformant item the line written for 1.2 and the line written for 2.0 read back, each under "
              "its own version, to the same item (C12_version_swap, C12_section_version_swap); the ~Well value with a colon is the "
              "counter-example showing the hypothesis is needed. Tie: header text of both outputs vs the compiled model, and the property's "
              "oracle (two real writes, two real reads, canonical dumps and data compared) on generated objects and the example corpus.")
LEVEL_NOTE = ("With the default `DLM . SPACE` item of lasio.LASFile() in ~Version (Props/C01FileDlm.lean, hypothesis DlmOK instead of 'no DLM item'): C03_file_dlm, C01_file_dlm(+_wrapYes, _unwrapped), C11_file_fixed_point_dlm / C11_file_iterate_dlm (all four steering values equal), C12_file_dlm; counter-examples DLM COMMA over blank-separated data (known finding dlm-not-space), DLM FOO (KeyError); two DLM items are ignored by the reader. WHOLE FILE (Props/C12File.lean): C12_file — one object written under two configurations (version, wrap, header width, data formats of equal per-column precision, spacers, data width, data-section header) and read by Tf.readFull: the Well / Curves / Parameter / Other sections are identical, the Version items are equal once VERS and WRAP are filtered out, the steering values are the written ones, the curves are equal (C12_file_parsed through readModel; corollaries C12_file_version_swap, C12_file_wrap_swap, C12_file_layout); counter-examples: a ~Version item whose SESSION mnemonic is WRAP (SessionsSane), unequal precision. Only the header half is modelled and proved here; independence of the curve data from wrap / widths / spacers / data_width / "
              "header style is checked by the oracle on the real code (theorems in C01/C10/C11). Known finding: a ~Well value containing ':' "
              "written as 1.2 re-reads split at the last colon.")

RULE = RULE + ("; ALSO (fifth session): directed streams `date-column` (a text column of ISO dates among negative numbers, unwrapped vs wrapped at data widths 24..60) and `overflowing-field` (rows of equal length with an over-wide value in different columns)")
