"""C09 — Reading is invariant under presentation-only changes of the text."""
import os
import re

from .. import framework as fw
from .. import datadoc as dd
from .. import lasdoc as ld
from .. import transforms as tf

ID = "C09"
MODULE = "LasioProofs.Props.C09"
EXTRA_MODULES = ["LasioProofs.Props.C09Redelim", "LasioProofs.Props.C09RedelimFile", "LasioProofs.Props.C09Compose"]
RULE = ("(0) first, on every run, the inputs of the repaired defects: DLM COMMA rows `1,2,3` re-padded with blanks and back; a blank line "
        "inserted between two data rows of a file without ~C read with engine='normal'; a '#' comment containing a hyphen inserted into a data "
        "section whose every row has a date `2018-05-22`; 21 comment lines inserted at the start of ~A; a 14-curve WRAP=YES file re-wrapped at "
        "every width from one token per line to all 14 on one line. (1) base files: generated PlainData documents (datadoc.plain_doc: WRAP=NO, "
        "0..6 declared curves, blank/comment lines, CRLF, sections after ~A), generated wrapped documents (WRAP=YES, d=1..14 curves, every "
        "depth step partitioned at random, numbers / words / dates), generated TAB- and COMMA-delimited documents (with and without padding "
        "blanks, numeric and text cells), generated full-header documents (lasdoc.gen_doc: ~V ~W ~C ~P ~O, custom sections, ~A anywhere after "
        "~V, 7 title spellings) and every readable file of tests/examples; (2) on each base 1..6 transformations drawn by "
        "transforms.compose: insert a blank or '#' comment line at any line of the file outside ~Other, new padding around any non-title line, "
        "re-pad the separators of a data line for the declared delimiter, lay a conformant header line out again with six new paddings, LF<->CRLF, "
        "drop/add the final newline, re-wrap a WRAP=YES data section (widths: all 1, all d, one random width, random widths per line), declare "
        "another delimiter and re-delimit the data; the document is re-analysed with the real reader after every step. ORACLE (real code, "
        "engine='numpy' and engine='normal'): the header items of every section (original and session mnemonic, unit, typed value, "
        "description), the ~Other text and every curve (mnemonic, float cells as float.hex, text cells) of read(t') equal those of read(t); "
        "after a re-delimiting step the DLM item itself is exempt. CORRESPONDENCE: Python transformation = Lean `Tf.applyText` (driver op "
        "tf.apply) on every case; the whole-file model `Tf.readFull` (tf.read: header reader + data reader glued as in the theorems) vs the "
        "real read on base and transformed text. non-trivial = at least two transformations, or a transformation of the data section")
TRUSTED = ["the numeric services of C02 (token -> float table, NULL -> float) are parameters of `Tf.readFull`; the request carries them",
           "`Tf.relayout` uses the model header-line parser where transforms.py uses the real `read_header_line` (their agreement is C04's tie; "
           "a difference would show up in the tf.apply stream)",
           "Python `str.split()`, `str.strip()`, `str.split(ch)` = `pySplit`, `strip`, `splitOnChar` (C02's unit streams)"]
ASSUMPTIONS = ["base file readable (theorems: `Base`: `readFull d = .ok r`)",
               "nothing is inserted into / removed from a ~Other section (its text is content: theorem C09_other_is_content); title lines may be "
               "padded since the repair ab31372 of the ~Other loop",
               "re-padding / re-wrapping / re-delimiting: no quote character in the data lines touched (C09_quote_needed); re-wrapping: WRAP "
               "declared YES with d >= 1 declared curves, no token starting with '#' or '~', the run-on(-) substitution neutral on every token "
               "(`WrapOK`, C09_rewrap_needs_hyphen_neutral = known finding rewrap-hyphen-rule)",
               "numpy engine in effect: the two engines agree on every data section of the base (`AgreeAlone`; C09_agree_of_plain: every PlainData "
               "section of C02; C09_agree_needed = known finding numpy-midline-hash); float() rejects tokens starting with '~' (`TildeNotFloat`)",
               "header line layout: the parsed fields are conformant and the paddings admissible in the sense of C04 (`Conf`, `PadOK`), neither the "
               "line nor the mnemonic starts with '#' or '~' (`RelayOK`); TAB/COMMA re-padding and re-delimiting: tested on the real code, proved "
               "only as far as C09_repad_delimited_keeps_padding says (known finding dlm-pad-text for text cells)"]

ENGINES = ("numpy", "normal")
MODEL_MAX_LINES = 400


# ---------------------------------------------------------------------------------------------- the oracle
def strip_dlm(header):
    out = []
    for k, sec in header:
        if isinstance(sec, list) and k == "Version":
            sec = [it for it in sec if it[0].upper() != "DLM"]
        out.append([k, sec])
    return out


def canon(text, engine, cache=None, drop_dlm=False):
    key = (text, engine)
    if cache is not None and key in cache:
        r = cache[key]
    else:
        r = dd.real_read(text, engine=engine)
        if r["res"][0] == "ok":
            r["header"] = dd.canon_header(r["las"])
        r["las"] = None
        if cache is not None:
            cache[key] = r
    if r["res"][0] != "ok":
        return ["err", r["res"][1]], r
    h = r["header"]
    return ["ok", strip_dlm(h) if drop_dlm else h, r["res"][1]], r


def first_difference(a, b):
    if a[0] != b[0]:
        return {"outcome": [a[:2] if a[0] == "err" else "ok", b[:2] if b[0] == "err" else "ok"]}
    if a[0] == "err":
        return {"error": [a, b]}
    for (ka, sa), (kb, sb) in zip(a[1], b[1]):
        if ka != kb:
            return {"section-keys": [ka, kb]}
        if sa != sb:
            if isinstance(sa, list) and isinstance(sb, list):
                for x, y in zip(sa, sb):
                    if x != y:
                        return {"section": ka, "item": [x, y]}
                return {"section": ka, "item-count": [len(sa), len(sb)]}
            return {"section": ka, "text": [sa, sb]}
    if len(a[1]) != len(b[1]):
        return {"section-count": [len(a[1]), len(b[1])]}
    if len(a[2]) != len(b[2]):
        return {"curve-count": [len(a[2]), len(b[2])], "names": [[c[0] for c in a[2]], [c[0] for c in b[2]]]}
    for j, (x, y) in enumerate(zip(a[2], b[2])):
        if x != y:
            return {"curve": j, "base": [x[0], x[1], x[2][:6]], "transformed": [y[0], y[1], y[2][:6]]}
    return None


def oracle_pair(text, text2, drop_dlm, cache=None):
    """None when read(text2) equals read(text) for both engines; else (engine, detail)"""
    for eng in ENGINES:
        a, _ = canon(text, eng, cache, drop_dlm)
        if a[0] != "ok":
            continue        # not a readable base for this engine
        b, _ = canon(text2, eng, None, drop_dlm)
        if a != b:
            return eng, first_difference(a, b)
    return None


_DISK = {}


def disk_canon(text, engine, drop_dlm):
    """the text stored in a file (bytes as they are: LF / CRLF / mixed line ends) and read by path"""
    import tempfile
    if "dir" not in _DISK:
        base = os.path.join(fw.ROOT, ".scratch")
        os.makedirs(base, exist_ok=True)
        _DISK["dir"] = tempfile.mkdtemp(prefix="c09-", dir=base)
    path = os.path.join(_DISK["dir"], "t.las")
    with open(path, "w", encoding="utf-8", newline="") as f:
        f.write(text)
    import lasio
    try:
        las = lasio.read(path, engine=engine, encoding="utf-8")
        h = dd.canon_header(las)
        return ["ok", strip_dlm(h) if drop_dlm else h, dd.canon_curves(las)]
    except IndexError as e:
        return ["err", "IndexError"]
    except ValueError as e:
        return ["err", "ReshapeError" if "Cannot reshape" in str(e) else "Other:ValueError"]
    except Exception as e:
        return ["err", "Other:" + type(e).__name__]


def readable(text, cache):
    return any(canon(text, eng, cache)[0][0] == "ok" for eng in ENGINES)


# ---------------------------------------------------------------------------------------------- base documents
WORDS = ["abc", "SAND", "shale", "x1", "N/A", "q-r"]
DATES = ["2018-05-22", "2018-05-23", "1999-12-31", "2020-01-01"]


def token(rng, kind):
    if kind == "num":
        return dd.plain_token(rng)
    if kind == "word":
        return rng.choice(WORDS)
    return rng.choice(DATES)


def column_kinds(rng, d):
    r = rng.random()
    kinds = ["num"] * d
    if r < 0.25 and d >= 2:
        kinds[rng.randrange(1, d)] = "word"
    elif r < 0.4:
        kinds[0] = "date"
    return kinds


def wrapped_doc(rng, d=None, r=None):
    d = d or rng.choice([1, 2, 3, 4, 5, 7, 14])
    r = r or rng.randint(1, 5)
    kinds = column_kinds(rng, d)
    body = []
    for _ in range(r):
        row = [token(rng, k) for k in kinds]
        for part in dd.partition(rng, row):
            body.append(dd.lay_row(rng, part))
    if rng.random() < 0.4:
        body = dd.sprinkle(rng, body, 0.15, 0.15)
    head = dd.header(vers=rng.choice(["2.0", "1.2"]), wrap="YES", null=rng.choice(["-999.25", None]), declared=dd.names(d))
    text = dd.assemble(head, rng.choice(dd.TITLES[:4]), body, rng.choice(dd.AFTER), eol=rng.choice(["\n", "\n", "\r\n"]),
                       final_newline=rng.random() < 0.8)
    return text, {"kind": "wrapped", "d": d, "kinds": kinds}


def delimited_doc(rng):
    dlm = rng.choice(["COMMA", "TAB"])
    d = rng.randint(1, 5)
    r = rng.randint(1, 5)
    kinds = column_kinds(rng, d)
    kinds = ["num" if k == "date" else k for k in kinds]
    ch = "," if dlm == "COMMA" else "\t"
    padded = rng.random() < 0.5
    body = []
    for _ in range(r):
        row = [token(rng, k) for k in kinds]
        s = ""
        for i, c in enumerate(row):
            if i:
                s += (rng.choice(["", " ", "  "]) + ch + rng.choice(["", " ", "  "])) if padded else ch
            s += c
        body.append(rng.choice(["", "", " "]) + s)
    if rng.random() < 0.3:
        body = dd.sprinkle(rng, body, 0.15, 0.15)
    head = dd.header(vers="2.0", wrap="NO", null=rng.choice(["-999.25", None]), dlm=dlm, declared=dd.names(d))
    text = dd.assemble(head, "~A", body, rng.choice(dd.AFTER), eol=rng.choice(["\n", "\n", "\r\n"]), final_newline=rng.random() < 0.8)
    return text, {"kind": "delimited", "dlm": dlm, "kinds": kinds}


def gen_base(rng):
    r = rng.random()
    if r < 0.35:
        doc = dd.plain_doc(rng)
        return doc["text"], {"kind": "plain"}
    if r < 0.55:
        return wrapped_doc(rng)
    if r < 0.7:
        return delimited_doc(rng)
    secs = ld.gen_doc(rng, dlm="" if rng.random() < 0.8 else None)
    if rng.random() < 0.3:
        # the same line text in sections of different kinds (how a line is split depends on the section it stands in)
        twin = rng.choice(["LOC .   BLOCK 7: NORTH FLANK : LOCATION", "TIME . 12:30:15 : logging time: start", "RUN . 1 : a: b :c", "Q.U  v : d"])
        for sct in secs:
            if sct["kind"] in ("W", "P", "X") and rng.random() < 0.8:
                body = list(sct["body"])
                body.insert(rng.randint(0, len(body)), (twin, "item", None))
                sct["body"] = body
    text = ld.render(secs, rng.choice(["\n", "\n", "\r\n"]), rng.random() < 0.8)
    return text, {"kind": "header"}


def corpus_texts():
    root = os.path.join(fw.REPO, "tests", "examples")
    for base, _, files in sorted(os.walk(root)):
        for fn in sorted(files):
            if not fn.lower().endswith(".las"):
                continue
            path = os.path.join(base, fn)
            raw = open(path, "rb").read()
            txt = None
            for enc in ("utf-8-sig", "cp1252", "latin-1"):
                try:
                    txt = raw.decode(enc)
                    break
                except UnicodeDecodeError:
                    continue
            if txt is None or "\x00" in txt:
                continue
            # io.StringIO keeps '\r\n'; a lone '\r' is not a line end for it: what lasio sees when handed the text
            yield os.path.relpath(path, root), txt


# ---------------------------------------------------------------------------------------------- fixed inputs (run first)
H2 = "~V\nVERS. 2.0 :\nWRAP. NO :\n"
F_COMMA = H2 + "DLM. COMMA :\n~C\nA. :\nB. :\nC. :\n~A\n1,2,3\n4,5,6\n"
F_COMMA_PAD = H2 + "DLM. COMMA :\n~C\nA. :\nB. :\nC. :\n~A\n1 , 2 , 3\n 4,\t5 ,6 \n"
F_NOCURVES = H2 + "~A\n1 2\n3 4\n"
F_DATES = H2 + "~C\nD. :\nA. :\n~A\n2018-05-22 1\n2018-05-23 2\n2018-05-24 3\n"
F_21 = H2 + "~W\nNULL. -999.25 :\n~C\nA. :\nB. :\n~A\n1 2 3\n4 5 6\n"
F_WRAP14 = ("~V\nVERS. 2.0 :\nWRAP. YES :\n~C\n" + "".join("C%d. :\n" % j for j in range(14)) + "~A\n" +
            "".join(" ".join(str(100 * i + j) for j in range(7 * h, 7 * h + 7)) + "\n" for i in range(3) for h in range(2)))


def _ix(text, line):
    """index of the first physical line equal to `line` (without terminator)"""
    for i, l in enumerate(dd.split_lines(text)):
        if tf.split_eol(l)[0] == line:
            return i
    raise KeyError(line)


def fixed_inputs():
    a = _ix(F_COMMA, "1,2,3")
    yield "R2-comma-pad", F_COMMA, [["repadLine", a, "COMMA", [" , ", " ,"]], ["repadLine", a + 1, "COMMA", [", ", "\t,\t"]]]
    a = _ix(F_COMMA_PAD, "1 , 2 , 3")
    yield "R2-comma-unpad", F_COMMA_PAD, [["repadLine", a, "COMMA", [",", ","]], ["repadLine", a + 1, "COMMA", [",", ","]]]
    yield "R2-comma-blank", F_COMMA, [["insBlank", _ix(F_COMMA, "4,5,6"), ""], ["crlf"]]
    a = _ix(F_NOCURVES, "3 4")
    yield "R17-blank-no-curves", F_NOCURVES, [["insBlank", a, ""]]
    yield "R17-blank-no-curves-ws", F_NOCURVES, [["insBlank", a, " \t"], ["insBlank", a - 1, ""], ["insBlank", a + 3, ""]]
    a = _ix(F_DATES, "2018-05-23 2")
    yield "R17-hyphen-comment", F_DATES, [["insComment", a, "", " a - comment 2018-05-22"]]
    yield "R17-hyphen-comment-first", F_DATES, [["insComment", a - 1, " ", "-"], ["insComment", a + 3, "", "1-2"]]
    a = _ix(F_21, "1 2 3")
    yield "sniff21-comments", F_21, [["insComment", a, "", "c"]] * 21
    yield "sniff21-blanks", F_21, [["insBlank", a, ""]] * 25
    a = _ix(F_WRAP14, "~A")
    for w in range(1, 15):
        yield "R1-wrap14-width-%d" % w, F_WRAP14, [["rewrap", a, a + 6, 14, [w] * 14]]
    # repaired 627c42f: an empty ~A without declared curves + a blank / comment line gave one unnamed empty curve (numpy engine)
    yield "empty-data-blank", P_EMPTY, [["insBlank", 6, ""]]
    yield "empty-data-comment", P_EMPTY, [["insComment", 6, "", " c"]]
    yield "empty-data-inner", P_EMPTY + "~O\nx\n", [["insBlank", 6, " "], ["insComment", 6, "", "-"]]
    yield "R1-wrap14-ragged", F_WRAP14, [["rewrap", a, a + 6, 14, [3, 1, 5, 2]]]


# documented probes of real-code behaviour at the border of the property: (id, base, transformations)
P_COMMA = H2 + "DLM. COMMA :\n~C\nA. :\nB. :\n~A\n1,abc\n2,def\n"
P_TAB = H2 + "DLM. TAB :\n~C\nA. :\nB. :\n~A\n1\tabc\n2\tdef\n"
P_DATES = "~V\nVERS. 2.0 :\nWRAP. YES :\n~C\nD. :\nA. :\n~A\n2018-05-22 5\n2018-05-23 6\n"
P_HASH = H2 + "~A\n1 2 # t\n3 4 # u\n~O\nx\n"
P_EMPTY = H2 + "~W\nNULL. -999.25 :\n~A\n"
PROBES = [
    ("numpy-midline-hash", P_HASH, [["insBlank", _ix(P_HASH, "3 4 # u"), ""]]),
    ("dlm-pad-text", P_COMMA, [["repadLine", _ix(P_COMMA, "1,abc"), "COMMA", [" , "]]]),
    ("dlm-pad-text", P_TAB, [["repadLine", _ix(P_TAB, "1\tabc"), "TAB", [" \t "]]]),
    ("rewrap-hyphen-rule", P_DATES, [["rewrap", _ix(P_DATES, "~A"), _ix(P_DATES, "~A") + 2, 2, [1, 1]]]),
]


# ---------------------------------------------------------------------------------------------- classification of failures
def _touches_text_cell(text, ts):
    texts = [text]
    for t in ts:
        doc_lines = dd.split_lines(texts[-1])
        if t[0] == "repadLine" and t[2] != "SPACE":
            cells = tf.cells_of(t[2], tf.split_eol(doc_lines[t[1]])[0]) if t[1] < len(doc_lines) else []
            if any(not tf._is_number(c) for c in cells):
                return True
        if t[0] == "redelim" and (t[5] != "SPACE" or t[6] != "SPACE"):
            for l in tf.body_lines(doc_lines, t[1], t[2]):
                if not tf.is_skip(l) and any(not tf._is_number(c) for c in tf.cells_of(t[5], tf.split_eol(l)[0])):
                    return True
        texts.append("".join(tf.apply1(t, doc_lines)))
    return False


def _rewrap_not_hyphen_neutral(text, ts):
    texts = [text]
    for t in ts:
        doc_lines = dd.split_lines(texts[-1])
        if t[0] == "rewrap":
            words = [w for l in tf.body_lines(doc_lines, t[1], t[2]) if not tf.is_skip(l) for w in l.split()]
            if not all(tf.hyphen_neutral(w) for w in words):
                return True
        texts.append("".join(tf.apply1(t, doc_lines)))
    return False


def _data_rows(text):
    """the non-blank non-comment lines of the data windows of `text` (None when the header cannot be read)"""
    st = tf.header_steer(text)
    if st is None:
        return None
    lines = dd.split_lines(text)
    return [l for (a, b) in st["windows"] for l in tf.body_lines(lines, a, b) if not tf.is_skip(l)]


def classify(failure):
    """ids of the known findings of known_findings.txt"""
    c = failure.get("case") or {}
    if failure.get("clause") != "not-invariant" or "text" not in c:
        return None
    if _touches_text_cell(c["text"], c["ts"]):
        return "dlm-pad-text"
    if _rewrap_not_hyphen_neutral(c["text"], c["ts"]):
        return "rewrap-hyphen-rule"
    if (failure.get("detail") or {}).get("engine") == "numpy":
        rows = _data_rows(c["text"])
        if rows is not None and any("#" in l for l in rows):
            return "numpy-midline-hash"
    return None


# ---------------------------------------------------------------------------------------------- one case
class Pending:
    """model requests are batched"""

    def __init__(self, run):
        self.run = run
        self.items = []

    def add(self, req, fn):
        if self.run.model is None:
            return
        self.items.append((req, fn))
        if len(self.items) >= 128:
            self.flush()

    def flush(self):
        if not self.items:
            return
        ans = self.run.model.ask([r for r, _ in self.items])
        for (req, fn), a in zip(self.items, ans):
            self.run.traces += 1
            fn(a)
        self.items = []


def model_read_compare(run, pend, stream, text, eng, real, in_domain):
    """`Tf.readFull` on the text vs the real full read (header through lasdoc.header_diff, data through datadoc.canon_model)"""
    steer = real["steer"]
    if steer is None or not dd.modelled(steer, {}) or not ld.in_sigma(text) or text.count("\n") > MODEL_MAX_LINES:
        run.dist["model-read-skipped"] += 1
        return
    ft = dd.float_table(text)
    req = {"op": "tf.read", "text": text, "ignore": False, "case": "preserve", "engine": eng, "null_policy": "strict",
           "null": dd.null_text(steer["null"]), "floats": ft}

    def done(ans):
        if ans == "unmodelled":
            run.dist["model-read-unmodelled"] += 1
            return
        if not isinstance(ans, dict):
            run.disagree(stream + ":shape", {"text": text, "engine": eng}, ans, real["res"][:2], in_domain=in_domain)
            return
        if "err" in ans:
            if real["res"][0] == "ok" or ans["err"][0] not in real["res"][1]:
                # header errors of the model are LASHeaderError / KeyError ...: the real read raised something else
                rh = ld.read_real_header(text, False, "preserve")
                if rh != ans:
                    run.disagree(stream + ":outcome", {"text": text, "engine": eng}, ans, [real["res"][:2], rh], in_domain=in_domain)
            return
        o = ans["ok"]
        rh = ld.read_real_header(text, False, "preserve")
        m = {"ok": {"sections": o["sections"], "steer": o["steer"], "data": rh["ok"]["data"] if "ok" in rh else None}}
        d = ld.header_diff(m, rh)
        if d:
            run.disagree(stream + ":header:" + d, {"text": text}, m, rh, in_domain=in_domain)
            return
        wins = [[x["first"], x["last"]] for x in o["data"]]
        if wins != [list(w) for w in steer["windows"]]:
            run.disagree(stream + ":windows", {"text": text}, wins, steer["windows"], in_domain=in_domain)
            return
        dreq = {"engine": eng, "wrapped": str(steer["wrapped"]), "null_policy": "strict", "floats": ft}
        cm = dd.canon_model(o["data"][0]["res"], dreq, steer)
        if cm["res"] != real["res"][:2] or cm["trace"] != real["trace"]:
            run.disagree(stream + ":data", {"text": text, "engine": eng}, cm, {"res": real["res"][:2], "trace": real["trace"]},
                         in_domain=in_domain)
        else:
            run.dist["model-read-agrees"] += 1
    pend.add(req, done)


def check_case(run, pend, base, ts, texts, tags, cache, in_domain=True, model=True):
    final = texts[-1]
    case = {"text": base, "ts": ts}
    names = [t[0] for t in ts]
    data_kinds = {"repadLine", "rewrap", "redelim"}
    nontrivial = len(ts) >= 2 or bool(set(names) & data_kinds)
    run.case(case, nontrivial=nontrivial, tags=tags + ["n=%d" % len(ts)] + ["t:" + n for n in sorted(set(names))])
    drop = "redelim" in names
    # correspondence 1: the Python transformation is the Lean transformation
    if ld_json_ok(base):
        def done(ans, final=final, case=case):
            if ans != final:
                run.disagree("tf.apply", case, ans, final, in_domain=True)
        pend.add({"op": "tf.apply", "text": base, "ts": ts}, done)
    # the oracle on the real code
    bad = oracle_pair(base, final, drop, cache)
    if bad is not None:
        eng, detail = bad
        run.fail("not-invariant", case, {"engine": eng, "difference": detail, "transformed": final})
    elif run.rng.random() < 0.25 and "\r" not in final.replace("\r\n", "") and final.isascii():
        # the transformed text as a FILE (its line ends as they are, LF and CRLF possibly mixed) read by path: same result
        eng = run.rng.choice(ENGINES)
        a, _ = canon(base, eng, cache, drop)
        if a[0] == "ok":
            b = disk_canon(final, eng, drop)
            run.dist["disk-read"] += 1
            if a[:2] + [a[2]] != b:
                run.fail("not-invariant-on-disk", case, {"engine": eng, "difference": first_difference(a, b) if b[0] == "ok" else b,
                                                         "transformed": final})
    # correspondence 2: the whole-file model on the transformed text (and on the base, once per base)
    if model and run.model is not None:
        for eng in ENGINES:
            r = dd.real_read(final, engine=eng)
            model_read_compare(run, pend, "tf.read/transformed", final, eng, r, in_domain)


def ld_json_ok(text):
    return not any(0xD800 <= ord(c) <= 0xDFFF for c in text)


def run_base(run, pend, base, info, tags, n_cases, max_steps=6, in_domain=True, model=True):
    cache = {}
    if not readable(base, cache):
        run.dist["unreadable-base"] += 1
        return
    if model and run.model is not None:
        for eng in ENGINES:
            _, r = canon(base, eng, cache)
            model_read_compare(run, pend, "tf.read/base", base, eng, r, in_domain)
    for _ in range(n_cases):
        n = run.rng.randint(1, max_steps)
        ts, texts = tf.compose(run.rng, base, n)
        if not ts:
            continue
        check_case(run, pend, base, ts, texts, tags, cache, in_domain, model)


def run(run):
    try:
        _run(run)
    finally:
        if "dir" in _DISK:
            import shutil
            shutil.rmtree(_DISK.pop("dir"), ignore_errors=True)


def _run(run):
    rng = run.rng
    pend = Pending(run)
    # (0) the inputs of the repaired defects
    for name, base, ts in fixed_inputs():
        texts = [base]
        for t in ts:
            texts.append("".join(tf.apply1(t, dd.split_lines(texts[-1]))))
        check_case(run, pend, base, ts, texts, ["fixed-input"], {})
    for pid, base, ts in PROBES:
        texts = [base]
        for t in ts:
            texts.append("".join(tf.apply1(t, dd.split_lines(texts[-1]))))
        check_case(run, pend, base, ts, texts, ["probe:" + pid], {})
    # (1) generated bases
    for _ in range(run.budget(400, 9000)):
        base, info = gen_base(rng)
        run_base(run, pend, base, info, ["generated", "base=" + info["kind"]], run.budget(3, 4))
    # wide wrapped files: every width
    for d in (14, 7, 3):
        base, info = wrapped_doc(rng, d=d, r=3)
        doc = tf.Doc(base)
        w = doc.data_window()
        cache = {}
        if w is None or not readable(base, cache):
            continue
        for width in range(1, d + 1):
            ts = [["rewrap", w[0], w[1], d, [width] * d]]
            if tf.HYPHEN_REWRAP or all(tf.hyphen_neutral(x) for l in tf.body_lines(doc.lines, w[0], w[1]) for x in l.split()):
                check_case(run, pend, base, ts, [base, tf.apply(base, ts)], ["all-widths"], cache)
    # lines that cross depth steps: the whole body is one group, cut at every uniform width from 1 to all tokens on one line
    for d, r in ((4, 6), (3, 24), (14, 3)):
        for _try in range(20):
            base, info = wrapped_doc(rng, d=d, r=r)
            doc = tf.Doc(base)
            w = doc.data_window()
            cache = {}
            if w is not None and readable(base, cache) and (tf.HYPHEN_REWRAP or all(
                    tf.hyphen_neutral(x) for l in tf.body_lines(doc.lines, w[0], w[1]) for x in l.split())):
                break
        else:
            if w is not None and not readable(base, cache):
                # twenty well-formed wrapped documents in a row that the implementation cannot read: that is a behaviour of the
                # code under test, not of the harness
                run.fail("generated-wrapped-document-unreadable", {"base": base, "ts": []}, {"read": canon(base, ENGINES[0], cache)[0]})
            continue
        n = d * r
        for width in range(1, n + 1):
            ts = [["rewrap", w[0], w[1], n, [width] * (n // width + 1)]]
            check_case(run, pend, base, ts, [base, tf.apply(base, ts)], ["all-widths-across-steps"], cache)
    # (2) the example corpus
    names = list(corpus_texts())
    for name, txt in names:
        if len(txt.splitlines()) < 2:
            continue
        big = txt.count("\n") > 1500
        run_base(run, pend, txt, {"kind": "corpus"}, ["corpus"], 1 if big else run.budget(2, 12), model=not big)
        run.dist["corpus-files"] += 1
    pend.flush()
    if run.model is not None and run.dist["model-read-agrees"] == 0:
        raise fw.InfraError("the whole-file model was compared on no case")


# ---------------------------------------------------------------------------------------------- after a failure
def violates(text, ts, disk=False):
    final = tf.apply(text, ts)
    drop = any(t[0] == "redelim" for t in ts)
    if disk:
        for eng in ENGINES:
            a, _ = canon(text, eng, None, drop)
            if a[0] == "ok" and a[:2] + [a[2]] != disk_canon(final, eng, drop):
                return True
        return False
    return oracle_pair(text, final, drop) is not None


def shrink(run, f):
    c = f["case"]
    if "text" not in c or f["clause"] == "not-invariant-on-disk":
        return f
    text, ts = c["text"], list(c["ts"])
    # the single step that breaks the invariance
    texts = [text]
    for t in ts:
        texts.append("".join(tf.apply1(t, dd.split_lines(texts[-1]))))
    for i, t in enumerate(ts):
        if violates(texts[i], [t]):
            text, ts = texts[i], [t]
            break
    final = tf.apply(text, ts)
    bad = oracle_pair(text, final, any(t[0] == "redelim" for t in ts))
    if bad is None:
        return f
    return dict(clause=f["clause"], case={"text": text, "ts": ts}, detail={"engine": bad[0], "difference": bad[1], "transformed": final})


def search(run, disagreements):
    for d in disagreements[:50]:
        c = d["case"]
        if isinstance(c, dict) and "ts" in c and violates(c["text"], c["ts"]):
            run.fail("not-invariant", c, {"found": "replayed disagreement"})
            return
    pend = Pending(run)
    model, run.model = run.model, None
    try:
        for _ in range(run.budget(1500, 20000)):
            base, info = gen_base(run.rng)
            run_base(run, pend, base, info, ["search"], 3, model=False)
            if run.failures:
                return
    finally:
        run.model = model


def replay(run, payload):
    c = payload.get("case") or {}
    if "text" in c and "ts" in c:
        return not violates(c["text"], c["ts"], disk=payload.get("clause") == "not-invariant-on-disk")
    return True


LEVEL_TEXT = ("Machine-checked Lean 4 theorems about the executable models of the header-level reader (Lasio.Rd) and the data-section reader "
              "(Lasio.Dt) glued into one whole-file function `Tf.readFull`/`Tf.readModel` (header items of all sections, ~Other text, curves of all "
              "data sections), and about the presentation transformations as total functions on the line list (LasioModel/Transform.lean — the same "
              "functions the harness applies to the real reader's input). C09_step: insert blank / '#' comment line anywhere outside ~Other, new "
              "padding around any line, re-padding of a quote-free data line (SPACE delimiter), a conformant header item line laid out again with new "
              "paddings (through C04), LF<->CRLF, drop/add final newline, re-wrapping of a "
              "WRAP=YES section, each under an explicit decidable side condition, leave readModel of every readable document unchanged; "
              "C09_compose: so does every finite composition whose side conditions hold along the way (induction on the list). Line/window level: "
              "C09_strip_is_all, C09_repad_data (the data reader sees a quote-free line through its words only), C09_skip_data (flat item sequence, "
              "21-data-line sniffer sample, hyphen rule; engine may change numpy->normal), C09_rewrap, C09_skip_header, C09_header_padding "
              "(corollary of C04). Tie: Python transformation = Lean transformation on every case (tf.apply), whole-file model vs real read on "
              "base and transformed text (tf.read), and the property's oracle on the real code for both engines.")
LEVEL_NOTE = ("Props/C09Compose.lean: the COMPOSITION theorem over ALL transformations — OK' (= OK plus repadLine for TAB / COMMA on numeric cells), C09_step', C09_compose' / C09_compose_readModel'; with .redelim steps anywhere in the list: C09_compose_all (Base kept, parsed result equal up to the DLM item of ~Version (ParsedUpToDlm, an equivalence), steering delimiter = finalSteer, declared count unchanged, curves equal), C09_compose_all_no_redelim specialises to exact equality. Props/C09Redelim.lean: re-delimiting and TAB/COMMA re-padding of NUMERIC cells (NumCells/NumBody, SepsOK, FtStripOn/Converts as "
              "named hypotheses with counter-examples): line level (C09_redelim_line*), typed columns, window level (C09_redelim_engine, "
              "C09_redelim_sniff, C09_redelim_readData_* incl. the numpy engine), whole file for repadLine with TAB/COMMA "
              "(C09_repad_delimited_file, same conclusion as C09_step). Props/C09RedelimFile.lean: the WHOLE-FILE statement for .redelim "
              "(C09_redelim_file_replace: the DLM item line of ~Version replaced; C09_redelim_file_insert: a DLM line inserted): readFull of the "
              "re-delimited document succeeds, steer differs in dlm only, the ~Version items differ in the DLM item only, every other section "
              "and the curves of the data section are equal; document shape: ~Version first, one data section; counter-examples for a second "
              "DLM item, a second ~V section, two data sections. Known findings reproduced on every run: dlm-pad-text, rewrap-hyphen-rule, "
              "numpy-midline-hash. The numeric services (token->float table, NULL->float) are parameters of the model.")
