"""C17 — pickle and deepcopy reproduce a LASFile exactly, duplicates included."""
import copy
import glob
import hashlib
import io
import os
import pickle

from .. import framework as fw

ID = "C17"
MODULE = "LasioProofs.Props.C17"
RULE = ("objects x methods: (a) LASFiles — stale-suffix inputs first (duplicates + deletion), generated LASFiles (fresh and read from generated "
        "text x mnemonic_case; duplicated / blank / case-variant / X:<digits> mnemonics in ~W, ~P, ~C; float, int-like, str and empty curves; "
        "NaN and numeric header values; stale suffixes after deletions; hand-set odd session names) and every readable file of "
        "/repo/tests/examples/**/*.las; (b) each of their SectionItems; (c) single items; each x {pickle protocol 0..5, copy.deepcopy}. "
        "Oracle: canonical dump equal (sections in order, per item original + session mnemonic, unit, value incl. type, descr, arrays incl. "
        "dtype, index_unit, mnemonic_transforms, plain attributes), write() text byte-identical, then the copy is mutated (rename, value, "
        "array cell, append, delete) and the original's dump must not change. Correspondence: cp.item / cp.section answers of the Lean model "
        "vs the real rebuilt object, and the call pattern (no lasio code re-suffixes during a rebuild). non-trivial = some session mnemonic "
        "differs from its original mnemonic")
TRUSTED = ["pickle / copy / copyreg of CPython 3.12 (the three list-rebuild paths were determined experimentally and are re-checked per run by "
           "instrumenting SectionItems.assign_duplicate_suffixes)",
           "numpy array pickling and deep-copying (content + dtype are compared by the oracle, not modelled)",
           "write(): only used as an observer (byte-identity of two outputs); its own theorems are C03's"]
ASSUMPTIONS = ["C17_item: a CurveItem's data attribute is not None (CurveItem.__init__ turns None into an empty array; counter-example theorem)",
               "header values and units are str / int / float / None; curve data are ndarrays"]

METHODS = [("pickle", p) for p in range(6)] + [("deepcopy", None)]
NAMES = ["A", "a", "", " ", "A:1", "B", "GR"]


# ------------------------------------------------------------------------------------------------ dumps
def vtag(v):
    """a value with its type"""
    return "%s:%r" % (type(v).__name__, v)


def atag(a):
    import numpy as np
    if a is None:
        return None
    if isinstance(a, np.ndarray):
        return "%s%s:%r" % (a.dtype.str, list(a.shape), a.tolist())
    return "%s:%r" % (type(a).__name__, a)


def item_dump(it):
    from lasio import CurveItem
    return [type(it).__name__, it.original_mnemonic, it.mnemonic, vtag(it.unit), vtag(it.value), vtag(it.descr),
            atag(getattr(it, "data", None)), sorted(k for k in it.__dict__ if k not in
                                                   ("original_mnemonic", "mnemonic", "unit", "value", "descr", "data"))]


def section_dump(sec):
    from lasio import SectionItems
    if isinstance(sec, SectionItems):
        return {"type": "SectionItems", "tr": sec.mnemonic_transforms, "items": [item_dump(i) for i in list.__iter__(sec)],
                "extra": sorted(k for k in sec.__dict__ if k != "mnemonic_transforms")}
    return {"type": type(sec).__name__, "value": atag(sec) if not isinstance(sec, str) else sec}


def las_dump(las):
    d = {"sections": [[k, section_dump(v)] for k, v in las.sections.items()]}
    for k in sorted(las.__dict__):
        if k != "sections":
            v = las.__dict__[k]
            d[k] = atag(v) if hasattr(v, "dtype") else vtag(v)
    d["index_unit"] = vtag(las.index_unit)
    return d


def dump(obj):
    import lasio
    if isinstance(obj, lasio.LASFile):
        return las_dump(obj)
    if isinstance(obj, lasio.SectionItems):
        return section_dump(obj)
    return item_dump(obj)


def written(las):
    out = io.StringIO()
    try:
        try:
            las.write(out)
        except Exception:
            out = io.StringIO()
            las.write(out, version=2.0)
        return out.getvalue()
    except Exception as e:
        return "raises " + type(e).__name__


def clone(obj, method):
    if method[0] == "pickle":
        return pickle.loads(pickle.dumps(obj, protocol=method[1]))
    return copy.deepcopy(obj)


# ------------------------------------------------------------------------------------------------ generators
def rand_value(rng):
    # (numpy's `nan` is ONE module-level float object: deepcopy hands the same object back, pickle makes a new one)
    return rng.choice(["", "x", 1, 2.5, float("nan"), "15_9", None, -999.25, "A:1", __import__("numpy").nan])


def rand_array(rng, n):
    import numpy as np
    k = rng.randrange(9)
    if k == 5:      # numbers kept as text (a run number '0007', codes): the dtype and the texts are content
        return np.array([rng.choice(["0007", "12", "3.5", "-1e3", "1_0", " 4"]) for _ in range(n)])
    if k == 6:
        return np.array([rng.choice(["7", "08", 3, 2.5]) for _ in range(n)], dtype=object)
    if k == 7:
        return np.array([i / 3 for i in range(n)], dtype=np.float32)
    if k == 8:
        return np.array([i % 2 == 0 for i in range(n)]) if rng.random() < 0.5 else np.arange(n, dtype=np.int8)
    if k == 0:
        return np.array(["s%d" % i for i in range(n)])
    if k == 1:
        return np.array([float(i) if i % 2 else float("nan") for i in range(n)])
    if k == 2:
        return np.arange(n)
    if k == 3:
        return np.array([rng.choice(["a", "bb", ""]) for _ in range(n)], dtype=object)
    return np.array([rng.random() for _ in range(n)])


def fill_section(rng, sec, curve, n):
    from lasio import CurveItem, HeaderItem
    for _ in range(rng.randint(0, 5)):
        name = rng.choice(NAMES)
        if curve:
            it = CurveItem(name, rng.choice(["", "m", "US/F", "(ohm.m)", "[(v/v)]"]), rand_value(rng), rng.choice(["", "descr"]), rand_array(rng, n))
            if rng.random() < 0.4:
                # the array assigned afterwards, as read(), update_curve, las[m] = array and set_data do (not through the constructor)
                it.data = rand_array(rng, n)
        else:
            it = HeaderItem(name, rng.choice(["", "m", "[m]", "((x))"]), rand_value(rng), rng.choice(["", "descr"]))
        if rng.random() < 0.2:
            it.unit = rng.choice(["(ohm.m)", "[(ohm.m)]", "((v/v))", "[ft]"])       # a unit assigned after construction
        if rng.random() < 0.3 and len(sec):
            sec.insert(rng.randint(-1, len(sec)), it)
        else:
            sec.append(it)
    for _ in range(rng.choice([0, 0, 1, 2])):   # deletions leave stale suffixes
        if len(sec):
            list.pop(sec, rng.randrange(len(sec)))
    if rng.random() < 0.15 and len(sec):          # an odd, hand-set session name
        list.__getitem__(sec, rng.randrange(len(sec))).set_session_mnemonic_only(rng.choice(["zz:9", "A", "UNKNOWN:3", ""]))


def stale_las(kind):
    """the inputs of the deepcopy finding, run first on every check"""
    import lasio
    import numpy as np
    las = lasio.LASFile()
    las.append_curve("DEPT", np.array([1.0, 2.0, 3.0]), unit="m")
    for k in range(3):
        las.append_curve("A" if kind != "case" else ("A", "a", "A")[k], np.array([10.0 * k, 1.0, 2.0]))
    las.append_curve("", np.array(["x", "y", "z"]))
    if kind == "case":
        las.curves.mnemonic_transforms = True
        las.curves.assign_duplicate_suffixes()
    las.delete_curve(ix=1)
    for n in ("P", "P", "P", ""):
        las.params.append(lasio.HeaderItem(n, value=n + "v"))
    del las.params[0]
    las.well.append(lasio.HeaderItem("COMP", value="second COMP"))
    del las.well["COMP:1"]
    return las


def gen_las(rng):
    import lasio
    las = lasio.LASFile()
    n = rng.randint(0, 3)
    if rng.random() < 0.5:
        import numpy as np
        las.append_curve("DEPT", np.arange(n, dtype=float), unit=rng.choice(["m", "ft", "M", ".1IN", ""]))
    fill_section(rng, las.curves, True, n)
    fill_section(rng, las.params, False, n)
    if rng.random() < 0.5:
        fill_section(rng, las.well, False, n)
    for sec in (las.curves, las.params, las.well):
        if rng.random() < 0.3:
            sec.mnemonic_transforms = True
    if rng.random() < 0.3:
        las.other = "some other text\nline 2"
    if rng.random() < 0.3:
        las.index_unit = rng.choice(["M", "FT", None])
    if rng.random() < 0.2:
        las.sections["Custom"] = "free text"
    return las


def gen_text(rng):
    def pick(k):
        return [rng.choice(NAMES) for _ in range(k)]
    well, par, cur = pick(rng.randint(0, 3)), pick(rng.randint(0, 3)), pick(rng.randint(1, 4))
    well, par, cur = ([x for x in s if ":" not in x] for s in (well, par, cur))
    cur = cur or ["A"]
    lines = ["~Version", "VERS. 2.0 :", "WRAP. NO :", "~Well", "STRT.%s 10 :" % rng.choice(["M", "FT", "m"]), "STOP.M 20 :", "STEP.M 10 :",
             "NULL. -999.25 :"]
    lines += ["%s.U%d %d : w%d" % (n, i, i, i) for i, n in enumerate(well)]
    lines += ["~Parameter"] + ["%s.U%d %s : p%d" % (n, i, rng.choice(["1", "x", "2.5"]), i) for i, n in enumerate(par)]
    lines += ["~Curve", "DEPT.M : depth"] + ["%s.U%d : c%d" % (n, i, i) for i, n in enumerate(cur)]
    if rng.random() < 0.3:
        lines += ["~Other", "free text"]
    strcol = rng.random() < 0.4
    lines += ["~ASCII"] + [" ".join((("t%d" % r) if (strcol and j == len(cur)) else str(r * 10 + j)) for j in range(len(cur) + 1))
                           for r in range(1, 3)]
    return "\n".join(lines) + "\n"


def edit_index(las, rng):
    """a file that was READ and whose index is then edited in memory while its last sample still equals STOP: what the next write()
    states in STRT / STOP / STEP depends on what the object remembers of the index it was read with -- the copy has to remember it too"""
    import numpy as np
    try:
        d = las.curves[0].data
        if d.dtype.kind != "f" or len(d) < 2:
            return
        k = rng.randrange(4)
        if k == 0:
            d[0] = d[0] - 0.5                       # in place
        elif k == 1:
            for c in las.curves:                    # the top row cut off
                c.data = c.data[1:]
        elif k == 2:
            las.curves[0].data = np.concatenate([[d[0] + 0.25], d[1:]])
    except Exception:
        return


def corpus():
    return sorted(glob.glob(os.path.join(fw.REPO, "tests", "examples", "**", "*.las"), recursive=True))


# ------------------------------------------------------------------------------------------------ oracle
def mutate(obj, rng):
    """change the copy in every way the property lists"""
    import lasio
    import numpy as np
    if isinstance(obj, lasio.LASFile):
        for sec in obj.sections.values():
            if isinstance(sec, lasio.SectionItems):
                mutate(sec, rng)
        obj.index_unit = "changed"
        obj.sections["New"] = "x"
        try:
            obj.append_curve("NEWCURVE", np.zeros(len(obj.curves[0].data) if len(obj.curves) else 0))
            obj.delete_curve(ix=0)
        except Exception:
            pass
    elif isinstance(obj, lasio.SectionItems):
        for it in list(list.__iter__(obj)):
            mutate(it, rng)
        obj.append(lasio.HeaderItem("APPENDED", value=1))
        if len(obj) > 1:
            list.pop(obj, 0)
        obj.mnemonic_transforms = not obj.mnemonic_transforms
    else:
        obj.mnemonic = "RENAMED"
        obj.unit = "changed"
        obj.value = "changed"
        obj.descr = "changed"
        d = getattr(obj, "data", None)
        if isinstance(d, np.ndarray) and d.size:
            try:
                d[0] = d[-1] if d.dtype.kind in "OUS" else 12345
                d[...] = d[::-1].copy()
            except Exception:
                pass


def nontrivial(obj):
    import lasio
    if isinstance(obj, lasio.LASFile):
        return any(nontrivial(s) for s in obj.sections.values() if isinstance(s, lasio.SectionItems))
    if isinstance(obj, lasio.SectionItems):
        return any(nontrivial(i) for i in list.__iter__(obj))
    return obj.mnemonic != obj.original_mnemonic


ROT = [0]


def check_object(run, obj, label, origin, rng, level):
    """oracle on one object x all methods; returns the (method, copy, dump) triples for the correspondence.
    write() normalises the object it writes (STRT/STOP/STEP follow the index curve), so the copy is taken and dumped BEFORE either
    object is written, and both are written from the same state; the method that meets the pristine object rotates."""
    import lasio
    is_las = isinstance(obj, lasio.LASFile)
    ROT[0] += 1
    methods = METHODS[ROT[0] % len(METHODS):] + METHODS[:ROT[0] % len(METHODS)]
    out = []
    for method in methods:
        mname = "%s%s" % (method[0], "" if method[1] is None else method[1])
        case = {"object": label, "origin": origin, "method": mname, "level": level}
        run.case(case, nontrivial=nontrivial(obj), tags=[level, mname, origin.split(":")[0]])
        before = dump(obj)
        try:
            c = clone(obj, method)
        except Exception as e:
            run.fail("copy-raises", case, dict(exc=repr(e)))
            continue
        after = dump(c)
        if after != before:
            run.fail("observably-equal", case, diff(before, after))
        out.append((method, c, after))
        if is_las:
            t_copy, t_orig = written(c), written(obj)
            if t_copy != t_orig:
                run.fail("write-identical", case, first_diff(t_orig, t_copy))
            if dump(c) != dump(obj):
                run.fail("observably-equal-after-write", case, diff(dump(obj), dump(c)))
        before = dump(obj)
        c2 = clone(obj, method)
        try:
            mutate(c2, rng)
        except Exception as e:
            if len(run.notes) < 5:
                run.notes.append("mutate raised %r" % (e,))
        now = dump(obj)
        if now != before:
            run.fail("independent", case, diff(before, now))
        if is_las and written(obj) != t_orig:
            run.fail("independent-write", case, None)
    return out


def diff(a, b, path=""):
    if type(a) != type(b):
        return {"at": path, "before": a, "after": b}
    if isinstance(a, dict):
        for k in sorted(set(a) | set(b)):
            if a.get(k) != b.get(k):
                return diff(a.get(k), b.get(k), path + "/" + str(k))
    if isinstance(a, list):
        if len(a) != len(b):
            return {"at": path, "before": a, "after": b}
        for i, (x, y) in enumerate(zip(a, b)):
            if x != y:
                return diff(x, y, path + "/%d" % i)
    return {"at": path, "before": a, "after": b}


def first_diff(a, b):
    la, lb = a.splitlines(), b.splitlines()
    for i, (x, y) in enumerate(zip(la, lb)):
        if x != y:
            return {"line": i, "before": x, "after": y}
    return {"lines": [len(la), len(lb)]}


# ------------------------------------------------------------------------------------------------ correspondence
PATH = {"pickle0": "pickle01", "pickle1": "pickle01", "pickle2": "pickle2plus", "pickle3": "pickle2plus", "pickle4": "pickle2plus",
        "pickle5": "pickle2plus", "deepcopy": "deepcopy"}


def short(t):
    """tags are opaque to the model: long ones (big arrays) are sent as a digest to keep the request lines small"""
    if t is not None and len(t) > 200:
        return "sha1:" + hashlib.sha1(t.encode("utf-8", "surrogatepass")).hexdigest()
    return t


def item_req(it):
    from lasio import CurveItem
    return {"op": "cp.item", "item": [it.original_mnemonic, it.mnemonic, short(vtag(it.unit)), short(vtag(it.value)), short(vtag(it.descr))],
            "data": short(atag(getattr(it, "data", None))), "curve": isinstance(it, CurveItem), "old": False}


def item_real(d):
    # item_dump -> the model's answer shape
    return [d[1], d[2], short(d[3]), short(d[4]), short(d[5]), short(d[6]), d[0] == "CurveItem"]


def section_req(sec, path):
    return {"op": "cp.section", "path": path, "tr": bool(sec.mnemonic_transforms),
            "items": [[i.original_mnemonic, i.mnemonic, short(vtag(i.unit)), short(vtag(i.value)), short(vtag(i.descr))]
                      for i in list.__iter__(sec)]}


def section_real(d):
    return {"tr": d["tr"], "items": [[i[1], i[2], short(i[3]), short(i[4]), short(i[5])] for i in d["items"]]}


class Tie:
    def __init__(self, run):
        self.run, self.batch = run, []

    def add(self, stream, case, req, real, in_domain=True):
        self.batch.append((stream, case, req, real, in_domain))
        if len(self.batch) >= 128:
            self.flush()

    def flush(self):
        run = self.run
        if self.batch and run.model is not None:
            answers = run.model.ask([b[2] for b in self.batch], chunk=16)
            for (stream, case, req, real, dom), m in zip(self.batch, answers):
                run.traces += 1
                if m != real:
                    run.disagree(stream, dict(case, request=req), m, real, in_domain=dom)
        self.batch = []


def tie_object(tie, obj, label, origin, copies):
    import lasio
    for method, c, cd in copies:
        mname = "%s%s" % (method[0], "" if method[1] is None else method[1])
        case = {"object": label, "origin": origin, "method": mname}
        if isinstance(obj, lasio.SectionItems):
            tie.add("rebuildSection", case, section_req(obj, PATH[mname]), section_real(cd))
        elif not isinstance(obj, lasio.LASFile):
            tie.add("rebuildItem", case, item_req(obj), item_real(cd))


def old_deepcopy_simulation(tie, sec, label):
    """what copy._reconstruct did before SectionItems.__deepcopy__ existed (state first, then lasio's append per item):
    validates the documenting model `rebuildSectionOld` against a re-enactment on the real class (context only)"""
    from lasio import SectionItems
    if any(ord(ch) > 127 for i in list.__iter__(sec) for ch in i.original_mnemonic + i.mnemonic):
        return
    y = SectionItems()
    y.__dict__.update({"mnemonic_transforms": sec.mnemonic_transforms})
    for it in list.__iter__(sec):
        y.append(copy.deepcopy(it))
    tie.add("rebuildSectionOld(simulated)", {"object": label}, section_req(sec, "deepcopy_old"), section_real(section_dump(y)),
            in_domain=False)


def call_pattern(run, secs):
    """the rebuild paths must not run lasio's re-suffixing (model: rebuildSection never calls assignSuffixes)"""
    from lasio import SectionItems
    calls = []
    orig = SectionItems.assign_duplicate_suffixes

    def spy(self, *a, **k):
        calls.append(1)
        return orig(self, *a, **k)
    SectionItems.assign_duplicate_suffixes = spy
    try:
        for sec in secs:
            for method in METHODS:
                del calls[:]
                clone(sec, method)
                run.traces += 1
                if calls:
                    run.disagree("rebuild-call-pattern", {"method": str(method), "items": [i.mnemonic for i in list.__iter__(sec)]},
                                 "no call of assign_duplicate_suffixes", "%d calls" % len(calls), in_domain=True)
    finally:
        SectionItems.assign_duplicate_suffixes = orig


# ------------------------------------------------------------------------------------------------ run
def process_las(run, tie, las, origin, rng, deep=True):
    import lasio
    copies = check_object(run, las, "LASFile", origin, rng, "las")
    tie_object(tie, las, "LASFile", origin, copies)
    if not deep:
        return
    for name, sec in list(las.sections.items()):
        if not isinstance(sec, lasio.SectionItems):
            continue
        copies = check_object(run, sec, "section " + name, origin, rng, "section")
        tie_object(tie, sec, "section " + name, origin, copies)
        old_deepcopy_simulation(tie, sec, origin + " " + name)
        items = list(list.__iter__(sec))
        for it in (items if len(items) <= 4 else rng.sample(items, 4)):
            copies = check_object(run, it, "item %s/%s" % (name, it.mnemonic), origin, rng, "item")
            tie_object(tie, it, "item", origin, copies)


def run(run):
    import lasio
    rng = run.rng
    tie = Tie(run)
    stale = [stale_las(k) for k in ("plain", "case")]
    for k, las in zip(("plain", "case"), stale):
        process_las(run, tie, las, "stale:" + k, rng)
    call_pattern(run, [s for las in stale for s in las.sections.values() if isinstance(s, lasio.SectionItems)])
    for n in range(run.budget(250, 2500)):
        process_las(run, tie, gen_las(rng), "generated:%d" % n, rng)
    for n in range(run.budget(150, 1500)):
        text = gen_text(rng)
        mcase = rng.choice(["upper", "preserve", "lower"])
        try:
            las = lasio.read(text, mnemonic_case=mcase)
        except Exception:
            continue
        edit_index(las, rng)
        process_las(run, tie, las, "read:%s:%d" % (mcase, n), rng)
    files = corpus()
    if run.tier == "quick":
        files = [f for i, f in enumerate(files) if i % 3 == run.seed % 3]
    for f in files:
        try:
            las = lasio.read(f)
        except Exception:
            continue
        big = sum(getattr(c.data, "size", 0) for c in las.curves) > 20000
        if rng.random() < 0.5:
            edit_index(las, rng)
        process_las(run, tie, las, "corpus:" + os.path.relpath(f, fw.REPO), rng, deep=not big)
    tie.flush()


def replay(run, payload):
    import lasio
    import random
    case = payload["case"]
    origin = case.get("origin", "")
    rng = random.Random(0)
    tie = Tie(run)
    if origin.startswith("stale:"):
        process_las(run, tie, stale_las(origin.split(":")[1]), origin, rng)
    elif origin.startswith("corpus:"):
        process_las(run, tie, lasio.read(os.path.join(fw.REPO, origin.split(":", 1)[1])), origin, rng)
    else:
        # generated inputs depend on the seed: re-run the whole generated part
        probe = fw.Run(run.prop, run.tier, payload.get("seed", run.seed))
        probe.model = None
        globals()["run"](probe)
        run.failures.extend(probe.failures)
    return not run.failures


LEVEL_TEXT = ("Machine-checked Lean 4 theorems about an executable model of HeaderItem.__reduce__ / __init__ and of the three list-rebuild paths "
              "of the runtime (pickle 0/1, pickle 2..5, SectionItems.__deepcopy__): every item is reproduced with its original AND its session "
              "mnemonic whatever the latter looks like (C17_item, C17_item_fields), every section on every path with no hypothesis (C17_section_path, "
              "stale suffixes included: C17_section_stale), the LASFile as the map over its sections (C17_las). The two defects this property found "
              "are kept as counter-example theorems about the old code (C17_counterexample_session_reduce, C17_counterexample_deepcopy_old, with "
              "C17_deepcopy_old_canonical naming the hypothesis under which the old path was right). Tie: real pickle/deepcopy vs model per item "
              "and per section + call-pattern instrumentation; oracle: canonical dump, byte-identical write(), mutation independence.")
LEVEL_NOTE = ("Independence of the copy and byte-identity of write() are established by the oracle on the inputs run (object identity and the "
              "writer are outside this model). numpy's own pickling of arrays is trusted and compared (content + dtype).")

RULE = RULE + ("; ALSO (fifth session): the index of a READ file edited (in place, top row cut, first sample replaced) before the copy is taken; header values that are numpy's `nan` object")
