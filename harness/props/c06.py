"""C06 — NULL handling: header NULL -> NaN in non-index numeric curves only; null_policy='none' changes nothing; write->read keeps the mask."""
import io
import math

from .. import datadoc as dd

ID = "C06"
MODULE = "LasioProofs.Props.C06"
EXTRA_MODULES = ["LasioProofs.Props.C06File"]
RULE = ("documents with NULL in {-999.25, 999.25, -999 (integer), 0, -0.0, 1e30, -99999, non-numeric text, absent} spelled in several ways in the "
        "header (-999.25, -999.2500, -9.9925E2, +999.25, 1E+30 ...) x cells that are NULL-equal in other spellings, NULL +- 1 ulp neighbours, "
        "ordinary numbers, NaN tokens, occasional text cells (making the column a text column), in ANY column including the index x "
        "{unwrapped, wrapped} x engine in {numpy, normal} x null_policy in {strict, none}. Oracle on the real read: the whole result equals the "
        "expectation computed from the TEXT with float(): a cell is NaN iff its token is NaN, or (policy strict and column != 0 and the "
        "column is numeric and float(token) == float(NULL text)); every other numeric cell is bit-identical to float(token); text columns "
        "are untouched; with policy none nothing is replaced. Then write(StringIO, version=2.0) -> read: the NaN mask of every curve is "
        "unchanged. Every read is also compared with the Lean model. non-trivial = some non-index cell equals NULL or is a 1-ulp neighbour")
TRUSTED = ["binary64 conversion and IEEE `==` are runtime services: the model works on canonical float texts (float.hex) with `feq` (NaN equals "
           "nothing, +0 == -0); the harness computes the texts with Python's float()",
           "numpy boolean-mask assignment `a[a == v] = nan` = `nullCells` (map over the cells); comparison of a float array with a str/None NULL "
           "selects nothing",
           "header value parsing of the NULL item (number vs text) belongs to the header reader: the model receives the NULL the real reader computed",
           "the write->read cycle is checked by the oracle on the real code only (the writer's theorems are C03/C10's)"]
ASSUMPTIONS = ["write->read cycle: NULL is a number, every curve is numeric, the index has no NaN, and no cell is within the writer's rounding "
               "(%.5f) of NULL without being equal to it — otherwise formatting itself can create or hide a NULL (outside this property)"]

NULLS = [
    # (header spellings, value or None)
    (["-999.25", "-999.2500", "-9.9925E2", "-9.9925e+02", "-0999.25"], -999.25),
    (["999.25", "+999.25", "9.9925E2", "999,25", "+.99925e3"], 999.25),
    (["-999", "-999.0", "-9.99E2", "-999.", "-999.E0", "-.999E3", "-999,0"], -999.0),
    (["0", "0.0", "-0.0", "0E0"], 0.0),
    (["1e30", "1E+30", "1.0e30"], 1e30),
    (["-99999", "-99999.000", "-99999.", "-099999"], -99999.0),
    # more than six significant digits (a NULL that a short number format cannot carry)
    (["-99999.25", "-99999.2500", "-9.999925E4"], -99999.25),
    (["1234567.5", "1.2345675e6", "+1234567.50"], 1234567.5),
    (["-999.2501", "-9.992501E2"], -999.2501),
    (["-9999999.0", "-9999999.", "-9.999999E6"], -9999999.0),
    # an integer literal beyond 64 bits (np.int64 overflows; the value is the float)
    (["-99999999999999999999", "-100000000000000000000", "-1e20"], -1e20),
    (["N/A", "abc", "none", "- 999.25"], None),
    ([None], None),
]
ORDINARY = ["1", "2.5", "-3", "1000", "0.125", "-999", "999.25", "-999.25", "0", "1e30", "-99999", "5", "-0.0", "7.75", "inf", "-inf", "1e999"]
TEXTS = ["abc", "x1", "--", "N/A"]


def spellings(v):
    cands = [repr(v), "%.4f" % v, "%.10E" % v, "%.6e" % v, "%g" % v, "+" + repr(abs(v)) if v > 0 else repr(v), "0" + repr(v) if v >= 0 else "-0" + repr(-v)]
    if v == int(v) and abs(v) < 1e15:
        cands += [str(int(v)), "%d." % int(v), "%d.000" % int(v)]
    if v == 0:
        cands += ["-0.0", "0", "-0", "0e0", ".0"]
    out = []
    for s in cands:
        try:
            if float(s) == v and s not in out:
                out.append(s)
        except ValueError:
            pass
    return out


def gen_doc(rng, separated=False):
    specs, nullv = rng.choice(NULLS)
    ntext = rng.choice(specs)
    c = rng.randint(1, 5)
    r = rng.randint(1, 5)
    wrapped = rng.random() < 0.3
    text_col = rng.randrange(c) if (not separated and rng.random() < 0.2) else None
    cells = []
    interesting = False
    for i in range(r):
        row = []
        for j in range(c):
            k = rng.random()
            if nullv is not None and k < 0.35:
                row.append(rng.choice(spellings(nullv)))
                interesting = interesting or j > 0
            elif nullv is not None and k < 0.5 and not separated:
                row.append(repr(math.nextafter(nullv, rng.choice([-math.inf, math.inf]))))
                interesting = interesting or j > 0
            elif k < 0.56 and not (separated and j == 0):
                row.append(rng.choice(["NaN", "nan"]))
            elif text_col == j and k < 0.8:
                row.append(rng.choice(TEXTS))
            else:
                t = rng.choice(ORDINARY)
                if separated and nullv is not None and float(t) != nullv and abs(float(t) - nullv) < 0.01:
                    t = "12345"
                row.append(t)
        cells.append(row)
    d = c if (wrapped or rng.random() < 0.8) else rng.choice([0, c + 1])
    body = []
    for row in cells:
        if wrapped:
            body += [dd.lay_row(rng, part) for part in dd.partition(rng, row)]
        else:
            body.append(dd.lay_row(rng, row))
    if rng.random() < 0.3:
        body = dd.sprinkle(rng, body, 0.15, 0.1)
    head = dd.header(wrap="YES" if wrapped else "NO", null=ntext, declared=dd.names(d))
    after = rng.choice(dd.AFTER) if rng.random() < 0.3 else []
    if rng.random() < 0.2:
        # an item that merely happens to be called NULL in another section (only ~Well's NULL steers): its value is one of the
        # ordinary sample values, so that it would show if it were applied
        other = rng.choice([t for t in ORDINARY if nullv is None or float(t) != nullv])
        after = rng.choice([["~P", "NULL. %s : a parameter named NULL" % other], ["~Parameter", "X. 5 : d", "null. %s : p" % other],
                            ["~Tops", "NULL. %s : custom" % other]])
    text = dd.assemble(head, "~A", body, after, eol=rng.choice(["\n", "\n", "\r\n"]),
                       final_newline=rng.random() < 0.85)
    return dict(text=text, cells=cells, c=c, r=r, d=d, wrapped=wrapped, null_text=ntext, nullv=nullv, interesting=interesting)


def isfloat(t):
    try:
        float(t)
        return True
    except ValueError:
        return False


def expected(doc, policy):
    """curves 0..c-1 computed from the text"""
    cells, c, r, nullv = doc["cells"], doc["c"], doc["r"], doc["nullv"]
    out = []
    for j in range(c):
        col = [cells[i][j] for i in range(r)]
        if all(isfloat(t) for t in col):
            vals = []
            for t in col:
                v = float(t)
                if math.isnan(v):
                    vals.append("nan")
                elif policy == "strict" and j != 0 and nullv is not None and v == nullv:
                    vals.append("nan")
                else:
                    vals.append(dd.fhex(v))
            out.append(["f", vals])
        else:
            out.append(["s", [dd.canon_cell_text(t) for t in col]])
    return out


def oracle(run, doc, kw, res, case):
    policy = kw["null_policy"]
    if res["res"][0] != "ok":
        run.fail("read-error", case, res["res"])
        return
    got = [[k, v] for (_, k, v) in res["res"][1]][:doc["c"]]
    want = expected(doc, policy)
    if got == want:
        return
    for j, (g, w) in enumerate(zip(got, want)):
        if g == w:
            continue
        if g[0] != w[0] or len(g[1]) != len(w[1]):
            run.fail("column-kind", case, {"column": j, "got": g, "want": w})
            return
        for i, (a, b) in enumerate(zip(g[1], w[1])):
            if a != b:
                if w[0] == "s":
                    clause = "text-touched"
                elif policy == "none":
                    clause = "policy-none-changed"
                elif j == 0:
                    clause = "index-changed"
                elif b == "nan":
                    clause = "null-not-replaced"
                elif a == "nan":
                    clause = "spurious-nan"
                else:
                    clause = "value-changed"
                run.fail(clause, case, {"i": i, "j": j, "token": doc["cells"][i][j], "got": a, "want": b, "null": doc["null_text"]})
                return
    run.fail("shape", case, {"got": got, "want": want})


def mask(las):
    out = []
    for c in las.curves:
        d = c.data
        out.append([bool(x != x) for x in d.tolist()] if d.dtype.kind == "f" else None)
    return out


def cycle(run, doc, res, case):
    """write -> read keeps the NaN mask (real code only)"""
    import lasio
    las = res["las"]
    m1 = mask(las)
    if any(m is None for m in m1):
        return
    rng = getattr(run, "rng", None) or __import__("random").Random(0)
    narrow = case["narrow"] if "narrow" in case else (rng.choice(["float32", "float32", "float16"]) if rng.random() < 0.15 else None)
    if narrow:
        # every curve (the index too) held in a narrow float type: the samples the writer sees are numpy scalars that are not Python floats
        import warnings
        with warnings.catch_warnings():
            warnings.simplefilter("ignore")
            for c in las.curves:
                c.data = c.data.astype(narrow)
        m1 = mask(las)
        case = dict(case, narrow=narrow)
    if case.get("edit_in_place") or (not case.get("write_options") and rng.random() < 0.3 and len(m1) > 1 and m1[0]):
        # the object is written once (every array has been looked at), THEN samples are set to NaN in place, then it is written
        # again: the second output must carry the NULL at exactly the NaN positions the object holds now
        try:
            las.write(io.StringIO(), version=2.0)
            _ = las.data
        except Exception as e:
            run.fail("cycle-error", case, repr(e)[:200])
            return
        edits = case.get("edit_in_place") or [[rng.randrange(1, len(m1)), rng.randrange(len(m1[0]))] for _ in range(rng.randint(1, 3))]
        for j, i in edits:
            las.curves[j].data[i] = float("nan")
        m1 = mask(las)
        case = dict(case, edit_in_place=edits)
    s = io.StringIO()
    # any writer options: every NaN goes out as the text of the current NULL, whatever the number format
    opts = dict(version=rng.choice([1.2, 2.0]))
    if case.get("write_options"):        # replay / shrink: the recorded options
        opts = dict(case["write_options"])
        if "column_fmt" in opts:
            opts["column_fmt"] = {int(k): v for k, v in opts["column_fmt"].items()}
    elif rng.random() < 0.6:
        opts.update(fmt=rng.choice(["%.5f", "%.1f", "%10.3f", "%.0f", "%12.0f", "%.8f"]), len_numeric_field=rng.choice([None, -1, -1, 12, 20]),
                    wrap=rng.choice([None, False, True]))
        if rng.random() < 0.3:
            opts["column_fmt"] = {rng.randrange(len(m1)): rng.choice(["%.1f", "%7.1f", "%.3f"])}
    fmts = [opts.get("column_fmt", {}).get(j, opts.get("fmt", "%.5f")) for j in range(len(m1))]
    for j, c in enumerate(las.curves):
        if j > 0 and any((x == x) and abs(x) != float("inf") and float(fmts[j] % x) == doc["nullv"] for x in c.data.tolist()):
            run.dist["cycle-skipped(a finite sample prints like NULL)"] += 1      # C06_roundtrip_mask_needs_noNullClash
            return
    case = dict(case, write_options={k: (v if not isinstance(v, dict) else {str(a): b for a, b in v.items()}) for k, v in opts.items()})
    try:
        las.write(s, **opts)
        las2 = lasio.read(io.StringIO(s.getvalue()))
    except Exception as e:
        run.fail("cycle-error", case, repr(e)[:200])
        return
    m2 = mask(las2)
    run.dist["cycle"] += 1
    # "every NaN is emitted as the current NULL value": no NaN may go out spelled 'nan' (it would read back as NaN and hide in the mask)
    body = s.getvalue().split("\n~A", 1)[-1].split("\n", 1)[-1] if "\n~A" in s.getvalue() else ""
    if any(t.lower() in ("nan", "-nan", "+nan") for t in body.split()):
        run.fail("cycle-nan-text", case, {"written": s.getvalue()[-400:]})
    if m1 != m2:
        run.fail("cycle-mask", case, {"before": m1, "after": m2, "written": s.getvalue()[-400:]})


def check(run, doc, eng, pol, tag, do_cycle, mnemonic_case=None):
    kw = {"engine": eng, "null_policy": pol}
    if mnemonic_case is not None:
        kw["mnemonic_case"] = mnemonic_case       # (the NULL item is then stored as `null` / `Null`: it still steers)
    case = {"text": doc["text"], "kw": kw, "null": doc["null_text"], "cells": doc["cells"], "c": doc["c"], "r": doc["r"], "nullv": doc["nullv"]}
    run.case(case, nontrivial=doc["interesting"],
             tags=[tag, "eng=" + eng, "pol=" + pol, "wrapped" if doc["wrapped"] else "unwrapped",
                   "null=" + ("absent" if doc["null_text"] is None else "text" if doc["nullv"] is None else "num")])
    res = dd.real_read(doc["text"], **kw)
    oracle(run, doc, kw, res, case)
    dd.compare(run, tag + "/" + eng + "/" + pol, doc["text"], kw, res, True, case=case)
    if do_cycle and res["res"][0] == "ok" and pol == "strict" and doc["nullv"] is not None:
        cycle(run, doc, res, case)


def run(run):
    # the spellings of the property text, deterministic
    for ntext in ("-999.25", "-999.2500", "-9.9925E2"):
        for eng in ("numpy", "normal"):
            for pol in ("strict", "none"):
                cells = [["-999.25", "-999.25", "x"], ["1", "-999.2500", "-999.25"], ["2", "-9.9925E2", "y"], ["3", "-999.2500000000001", "4"]]
                text = dd.assemble(dd.header(null=ntext, declared=dd.names(3)), "~A", [" ".join(r) for r in cells], [])
                doc = dict(text=text, cells=cells, c=3, r=4, d=3, wrapped=False, null_text=ntext, nullv=-999.25, interesting=True)
                check(run, doc, eng, pol, "spelled", False)
    for n in range(run.budget(2500, 20000)):
        doc = gen_doc(run.rng)
        mc = [None, None, "lower", "preserve", "upper"][n % 5]
        for eng in ("numpy", "normal"):
            for pol in ("strict", "none"):
                check(run, doc, eng, pol, "random", False, mnemonic_case=mc)
    # DLM COMMA / TAB with empty fields: an empty field is a text cell, so its column is a text column and stays untouched
    # (COMMA only: lasio's TAB splitter collapses runs of TABs, so a TAB-delimited line cannot carry an empty field)
    for dlm, sep in (("COMMA", ","),):
        for variant in range(run.budget(12, 80)):
            rng = run.rng
            r, c = rng.randint(2, 5), rng.randint(2, 4)
            cells = [[rng.choice(["-999.25", "1.5", "7", "-999.2500"]) for _ in range(c)] for _ in range(r)]
            j0 = rng.randrange(1, c)
            cells[rng.randrange(r)][j0] = ""
            if rng.random() < 0.5:
                cells[rng.randrange(r)][c - 1] = ""
            for i in range(r):
                cells[i][0] = str(i + 1)
            text = dd.assemble(dd.header(null="-999.25", dlm=dlm, declared=dd.names(c)), "~A", [sep.join(row) for row in cells], [])
            doc = dict(text=text, cells=cells, c=c, r=r, d=c, wrapped=False, null_text="-999.25", nullv=-999.25, interesting=True)
            for eng in ("numpy", "normal"):
                for pol in ("strict", "none"):
                    check(run, doc, eng, pol, "delimited-empty-field", False)
    # write -> read cycle on well-separated numeric documents
    for _ in range(run.budget(1200, 10000)):
        doc = gen_doc(run.rng, separated=True)
        check(run, doc, run.rng.choice(["numpy", "normal"]), "strict", "cycle-doc", True)
    # context
    for _ in range(run.budget(600, 5000)):
        doc = dd.junk_doc(run.rng)
        kw = {"engine": run.rng.choice(["numpy", "normal"]), "null_policy": run.rng.choice(["strict", "none"])}
        res = dd.real_read(doc["text"], **kw)
        run.case({"text": doc["text"], "kw": kw}, nontrivial=False, tags=["context"])
        dd.compare(run, "context", doc["text"], kw, res, False)


def search(run, disagreements):
    for _ in range(run.budget(20000, 200000)):
        doc = gen_doc(run.rng)
        for eng in ("numpy", "normal"):
            for pol in ("strict", "none"):
                kw = {"engine": eng, "null_policy": pol}
                oracle(run, doc, kw, dd.real_read(doc["text"], **kw), {"text": doc["text"], "kw": kw, "null": doc["null_text"], "cells": doc["cells"],
                                                                   "c": doc["c"], "r": doc["r"], "nullv": doc["nullv"]})
        if run.failures:
            return


class _Probe:
    def __init__(self):
        self.failures = []
        import collections
        self.dist = collections.Counter()

    def fail(self, clause, case, detail=None):
        self.failures.append((clause, detail))


def violates(c):
    p = _Probe()
    doc = dict(text=c["text"], cells=c["cells"], c=c["c"], r=c["r"], nullv=c["nullv"], null_text=c["null"])
    res = dd.real_read(c["text"], **c["kw"])
    oracle(p, doc, c["kw"], res, c)
    if not p.failures and c.get("cycle") and res["res"][0] == "ok":
        cycle(p, doc, res, c)
    return p.failures


def shrink(run, f):
    c = f["case"]
    if "cells" not in c or f["clause"].startswith("cycle"):
        return f
    cells = [list(r) for r in c["cells"]]

    def build(cells):
        text = dd.assemble(dd.header(null=c["null"], declared=dd.names(len(cells[0]))), "~A", [" ".join(r) for r in cells], [])
        return dict(c, text=text, cells=cells, c=len(cells[0]), r=len(cells))
    if not violates(build(cells)):
        return f
    changed = True
    while changed:
        changed = False
        for i in range(len(cells)):
            if len(cells) > 1:
                cand = cells[:i] + cells[i + 1:]
                if violates(build(cand)):
                    cells, changed = cand, True
                    break
        for j in range(len(cells[0])):
            if len(cells[0]) > 1:
                cand = [r[:j] + r[j + 1:] for r in cells]
                if violates(build(cand)):
                    cells, changed = cand, True
                    break
    case = build(cells)
    fs = violates(case)
    return dict(clause=fs[0][0], case=case, detail=fs[0][1])


def replay(run, payload):
    c = payload.get("case") or {}
    if "cells" not in c:
        return True
    if payload.get("clause", "").startswith("cycle"):
        c = dict(c, cycle=True)
    return not violates(c)


LEVEL_TEXT = ("Machine-checked Lean 4 theorems about `applyNull`, the step of the modelled LASFile.read that replaces the header NULL, for an "
              "arbitrary float service: under the strict policy a numeric cell is NaN afterwards iff it was NaN or it lies in a numeric column "
              "other than column 0 and is == the numeric NULL (C06_iff_strict), every other cell keeps its value (C06_other_cells), column 0 and "
              "text columns are untouched (C06_index_kept, C06_text_untouched), a non-numeric NULL and the policy 'none' change nothing "
              "(C06_nonnumeric_null, C06_none), shapes are kept (C06_shape). Tie: every read of the generated documents (NULL values x spellings x "
              "1-ulp neighbours x columns x wrapped x engines x policies) is compared with the compiled model, and the oracle recomputes the "
              "expected result from the text with float().")
LEVEL_NOTE = ("WHOLE FILE (Props/C06File.lean): C06_file — for every document and option record, the curves of every data window are assignCurves d (applyNull (policy = strict) (nullOf steer.null) raw) of the engine's raw columns; C06_file_cells (NaN iff it was NaN or lies in a float column j != 0 and == NULL; column 0 and text columns untouched), C06_file_unchanged (policy none / no usable NULL), C06_file_null_source (the NULL is the single NULL item of the last ~W section, other sections never matter), counter-examples two NULL items, NULL text abc. 'However it is spelled' is a statement about binary64 parsing, which is a parameter of the model: the model sees canonical float "
              "texts, the harness/oracle establish that differently spelled tokens get equal texts. The write->read clause is checked by the "
              "oracle on the real code only, under the stated separation assumption.")

RULE = RULE + ("; ALSO (fifth session): write cycle with every curve cast to float32 / float16; clause `cycle-nan-text` (no NaN leaves spelled 'nan'); NULL values of more than six significant digits and an integer literal beyond 64 bits")
