"""C04 — Header line grammar: parsing inverts formatting under any padding."""
import itertools
import os

from .. import framework as fw

ID = "C04"
MODULE = "LasioProofs.Props.C04"
SECS = ["Version", "Well", "Curves", "Parameter", "~Custom", None]
RULE = ("(a) exhaustive: every string up to a length bound over three small alphabets ({a,1,blank,.,:}, the time look-around alphabet, "
        "and one with TAB and digits) x section kinds, model parse vs real read_header_line; (b) structured: conformant (mnemonic, unit, "
        "value, description) x six paddings x six section kinds laid out as MNEM.UNIT VALUE : DESCR, the real parse must return the fields "
        "(oracle) and equal the model; special forms (last colon, ~Parameter clock times for all 24 hours, NAME : VALUE, 1000 lbf, trailing-dot "
        "unit); (c) every header line of tests/examples; (d) malformed stream. non-trivial = the line has >= 2 of the characters . : or a "
        "digit-led unit or a time value, i.e. more than one regex alternative is in play")
TRUSTED = ["Python `re` implements the ten header fragments as the model's list-of-successes matchers say (largest exhaustive scope is spent here)"]
ASSUMPTIONS = ["header lines never contain '\\n' (they come from line splitting)",
               "PadOK: value non-empty -> blank before it; all-digit unit -> >= 2 blanks after it (a single blank is the documented `1000 lbf` form); ':' in a ~Parameter description -> blanks on both sides of the separator"]

LETTERS = "ABCXYZabcqrs"
DIGITS = "0123456789"
PUNCT = "-_/()[]%#'\"*+=<>"
NONASCII = "éÖмΩ"
PADS = ["", " ", "   ", "\t", " \t "]


def real(line, sec):
    from lasio.reader import read_header_line
    try:
        d = read_header_line(line, section_name=sec)
        return [d["name"], d["unit"], d["value"], d["descr"]]
    except AttributeError:
        return None


def req(line, sec):
    return {"op": "hl", "sec": sec if sec in ("Version", "Well", "Curves", "Parameter") else "other", "line": line}


# ------------------------------------------------------------------ generators
def word(rng, n, alpha):
    return "".join(rng.choice(alpha) for _ in range(n))


def gen_name(rng):
    base = LETTERS + DIGITS + "_-/" + NONASCII
    s = word(rng, rng.randint(1, 6), base)
    if rng.random() < 0.2 and len(s) >= 3:
        k = rng.randint(1, len(s) - 1)
        s = s[:k] + " " + s[k:]
    return s.strip() or "A"


def gen_unit(rng):
    r = rng.random()
    if r < 0.25:
        return ""
    if r < 0.33:
        return word(rng, rng.randint(1, 4), DIGITS)            # all-digit unit (needs two blanks)
    base = LETTERS + DIGITS + "/-%()[]" + NONASCII
    s = word(rng, rng.randint(1, 6), base)
    if rng.random() < 0.3 and len(s) >= 2:
        k = rng.randint(1, len(s) - 1)
        s = s[:k] + rng.choice(".:") + s[k:]
    return s


def gen_time(rng):
    hh, mm, ss = rng.randrange(24), rng.randrange(60), rng.randrange(60)
    t = "%02d:%02d" % (hh, mm)
    if rng.random() < 0.5:
        t += ":%02d" % ss
    if rng.random() < 0.4:
        t = rng.choice(["13/05/2001 ", "2019-01-31 ", "DEC-31 "]) + t
    return t


def gen_value(rng, sec):
    r = rng.random()
    if r < 0.2:
        return ""
    if sec == "Parameter" and r < 0.45:
        return gen_time(rng)
    base = LETTERS + DIGITS + PUNCT + "." + NONASCII
    s = word(rng, rng.randint(1, 8), base)
    if rng.random() < 0.4:
        s = s + " " + word(rng, rng.randint(1, 5), base)
    if sec == "Curves":
        while ".." in s:
            s = s.replace("..", ".")
    return s.strip()


def gen_descr(rng, sec):
    r = rng.random()
    if r < 0.2:
        return ""
    base = LETTERS + DIGITS + PUNCT + ". " + NONASCII
    s = word(rng, rng.randint(1, 12), base)
    if sec == "Parameter" and rng.random() < 0.4:
        k = rng.randint(0, len(s))
        s = s[:k] + rng.choice([":", " : ", ": "]) + s[k:]
    return s.strip()


def gen_case(rng, sec):
    f = [gen_name(rng), gen_unit(rng), gen_value(rng, sec), gen_descr(rng, sec)]
    p = [rng.choice(PADS) for _ in range(6)]
    return f, p


def pad_ok(f, p, sec):
    name, unit, value, descr = f
    if value and not p[2]:
        return False
    if unit and unit.isdigit() and len(p[2] + (p[3] if not value else "xx")) < 2:
        return False
    if sec == "Parameter" and ":" in descr and not (p[3] and p[4]):
        return False
    return True


def fix_pads(f, p, sec, rng):
    name, unit, value, descr = f
    p = list(p)
    if value and not p[2]:
        p[2] = rng.choice(PADS[1:])
    if unit and unit.isdigit() and len(p[2]) < 2:
        # an all-digit unit followed by a single blank is the documented `1000 lbf` form: keep two blanks after it
        p[2] = p[2] + rng.choice(["  ", " \t"])
    if sec == "Parameter" and ":" in descr:
        p[3] = p[3] or " "
        p[4] = p[4] or " "
    return p


def layout(f, p):
    return p[0] + f[0] + p[1] + "." + f[1] + p[2] + f[2] + p[3] + ":" + p[4] + f[3] + p[5]


def sep_passes(f, p):
    """does the delimiter colon pass the ~Parameter time look-around (model of the regex, used only to classify R19)"""
    line = layout(f, p)
    j = len(p[0] + f[0] + p[1] + "." + f[1] + p[2] + f[2] + p[3])
    b = line[max(0, j - 3):j]
    lb = len(b) == 3 and ((b[0] == " " and b[1] in "012" and b[2] in "0123") or b in (" hh", " HH"))
    a = line[j + 1:j + 3]
    la = len(a) == 2 and ((a[0] in "012345" and a[1] in DIGITS) or a in ("mm", "MM"))
    return not lb and not la


def classify(failure):
    """known finding R19: ~Parameter, unit with an interior colon, delimiter colon rejected by the time look-around"""
    c = failure["case"]
    if failure["clause"] == "layout-roundtrip" and c.get("sec") == "Parameter" and ":" in c["fields"][1] \
            and not sep_passes(c["fields"], c["pads"]):
        return "param-unit-colon-time-lookaround"
    return None


def check_layout(run, f, p, sec, tag):
    line = layout(f, p)
    got = real(line, sec)
    case = {"sec": sec, "fields": f, "pads": p, "line": line}
    nontrivial = sum(line.count(c) for c in ".:") >= 3 or (f[1][:1].isdigit()) or (":" in f[2])
    run.case(case, nontrivial=nontrivial, tags=[tag, "sec=%s" % sec, "unit=" + ("empty" if not f[1] else "digits" if f[1].isdigit() else "colon" if ":" in f[1] else "dot" if "." in f[1] else "plain"),
                                               "value=" + ("empty" if not f[2] else "time" if ":" in f[2] else "text")])
    if got != f:
        run.fail("layout-roundtrip", case, {"expected": f, "observed": got})
    return case, line, got


SPECIALS = [
    # (clause, section, line, expected)
    ("last-colon-outside-parameter", "Well", "COMP.   ACME : drilling : co", ["COMP", "", "ACME : drilling", "co"]),
    ("last-colon-outside-parameter", "Curves", "GR .GAPI  45 : 1 : gamma", ["GR", "GAPI", "45 : 1", "gamma"]),
    ("no-period-name-value", "Well", "WELL : 12-3", ["WELL", "", "12-3", ""]),
    ("no-period-name-value", "Parameter", "TIME : 12:30", ["TIME", "", "12:30", ""]),
    ("numeric-unit-single-blank", "Parameter", "TDEP .1000 lbf   5 : tension", ["TDEP", "1000 lbf", "5", "tension"]),
    ("numeric-unit-single-blank", "Well", "Q.1000 psi 3 : d", ["Q", "1000 psi", "3", "d"]),
    ("unit-trailing-dot", "Curves", "DEPT.M.   : depth", ["DEPT", "M", "", "depth"]),
    ("param-descr-colons", "Parameter", "RUN . 1 : a: b :c", ["RUN", "", "1", "a: b :c"]),
]


def specials(run):
    for clause, sec, line, exp in SPECIALS:
        got = real(line, sec)
        case = {"sec": sec, "line": line, "special": clause}
        run.case(case, nontrivial=True, tags=["special"])
        if got != exp:
            run.fail(clause, case, {"expected": exp, "observed": got})
        yield case, line, sec, got
    # clock times for all 24 hours x minutes sample x optional seconds/date inside ~Parameter
    for hh in range(24):
        for mm in (0, 5, 30, 59):
            for tail in ("", ":00", ":59"):
                for date in ("", "13/05/2001 "):
                    v = "%s%02d:%02d%s" % (date, hh, mm, tail)
                    for descr in ("start time", "start: time : x"):
                        line = "STIM.  %s : %s" % (v, descr)
                        got = real(line, "Parameter")
                        case = {"sec": "Parameter", "line": line, "special": "param-time"}
                        run.case(case, nontrivial=True, tags=["special-time"])
                        if got != ["STIM", "", v, descr]:
                            run.fail("param-time", case, {"expected": ["STIM", "", v, descr], "observed": got})
                        yield case, line, "Parameter", got


def special_structured(run, rng, i):
    """random instances of the documented special forms (each has its own theorem in Props/C04.lean)"""
    sec = SECS[i % len(SECS)]
    kind = ("no-period", "last-colon", "numeric-unit", "trailing-dot")[(i // len(SECS)) % 4]
    name = gen_name(rng)
    pads = [rng.choice(PADS) for _ in range(6)]
    base = LETTERS + DIGITS + PUNCT + NONASCII
    if kind == "no-period":
        value = word(rng, rng.randint(0, 6), base + ". ") + rng.choice(["", ":", " : ", "3:1", "12:30"]) + word(rng, rng.randint(0, 6), base + ".")
        if sec == "Curves":
            while ".." in value:
                value = value.replace("..", ".")
        line = pads[0] + name + pads[1] + ":" + pads[2] + value + pads[5]
        exp = [name, "", value.strip(), ""]
    elif kind == "last-colon":
        if sec == "Parameter":
            sec = "Well"
        unit = rng.choice(["", "M", "K/M3", "a.b"])
        v = word(rng, rng.randint(1, 5), base) + rng.choice([":", " : ", ": "]) + word(rng, rng.randint(1, 5), base + ".")
        if sec == "Curves":
            while ".." in v:
                v = v.replace("..", ".")
        d = word(rng, rng.randint(0, 8), base + ". ").strip()
        line = pads[0] + name + pads[1] + "." + unit + (pads[2] or " ") + v + pads[3] + ":" + pads[4] + d + pads[5]
        exp = [name, unit, v.strip(), d]
    elif kind == "numeric-unit":
        if sec == "Parameter":
            sec = "Well"
        digits = word(rng, rng.randint(1, 4), DIGITS)
        sfx = word(rng, rng.randint(1, 4), LETTERS + "/%")
        blank = rng.choice([" ", "\t"])
        value = gen_value(rng, sec).replace(":", "")
        d = gen_descr(rng, "Well")
        line = pads[0] + name + pads[1] + "." + digits + blank + sfx + (pads[2] or "  ") + value + pads[3] + ":" + pads[4] + d + pads[5]
        exp = [name, digits + blank + sfx, value.strip(), d]
    else:
        unit = rng.choice(["M", "FT", "K/M3", "lb"])
        value = gen_value(rng, sec).replace(":", "")
        d = gen_descr(rng, "Well")
        line = pads[0] + name + pads[1] + "." + unit + "." + (pads[2] or " ") + value + pads[3] + ":" + pads[4] + d + pads[5]
        exp = [name, unit, value.strip(), d]
    got = real(line, sec)
    case = {"sec": sec, "line": line, "special": kind, "expected": exp}
    run.case(case, nontrivial=True, tags=["special-" + kind, "sec=%s" % sec])
    if got != exp:
        run.fail("special-" + kind, case, {"expected": exp, "observed": got})
    return case, line, sec, got


def exhaustive(run):
    scopes = [("a1 .:", run.budget(6, 7)), ("2 :0hH.m", run.budget(5, 6)), ("a.:\t3M5 ", run.budget(4, 5))]
    for alpha, L in scopes:
        for n in range(0, L + 1):
            for tup in itertools.product(alpha, repeat=n):
                line = "".join(tup)
                for sec in ("Well", "Curves", "Parameter"):
                    yield line, sec


def corpus_lines():
    root = os.path.join(fw.REPO, "tests", "examples")
    for base, _, files in os.walk(root):
        for fn in sorted(files):
            if not fn.lower().endswith(".las"):
                continue
            try:
                txt = open(os.path.join(base, fn), encoding="latin-1").read()
            except Exception:
                continue
            sec = None
            for ln in txt.splitlines():
                s = ln.strip()
                if s.startswith("~"):
                    u = s.upper()
                    sec = "Curves" if u.startswith("~C") else "Parameter" if u.startswith("~P") else "Well" if u.startswith("~W") \
                        else "Version" if u.startswith("~V") else None if (u.startswith("~A") or u.startswith("~O")) else s
                    continue
                if sec and s and not s.startswith("#"):
                    yield s, sec


def run(run):
    pend = []

    def flush():
        if not pend or run.model is None:
            pend.clear()
            return
        ans = run.model.ask([req(l, s) for (_, l, s, _, _) in pend], chunk=256)
        for (case, line, sec, got, indom), m in zip(pend, ans):
            run.traces += 1
            if m != got:
                run.disagree("read_header_line", case if case else {"line": line, "sec": sec}, m, got, in_domain=indom)
        pend.clear()

    def add(case, line, sec, got, indom):
        pend.append((case, line, sec, got, indom))
        if len(pend) >= 4096:
            flush()

    # known finding R19 (re-run through the oracle on every run)
    case, line, got = check_layout(run, ["Q", "U:S", "x 12", "d"], ["", "", " ", "", " ", ""], "Parameter", "known-input")
    add(case, line, "Parameter", got, True)
    # (b) structured conformant layouts: oracle + correspondence (in-domain)
    for i in range(run.budget(20000, 400000)):
        sec = SECS[i % len(SECS)]
        f, p = gen_case(run.rng, sec)
        p = fix_pads(f, p, sec, run.rng)
        case, line, got = check_layout(run, f, p, sec, "structured")
        add(case, line, sec, got, True)
    for case, line, sec, got in specials(run):
        add(case, line, sec, got, True)
    for i in range(run.budget(6000, 120000)):
        case, line, sec, got = special_structured(run, run.rng, i)
        add(case, line, sec, got, True)
    for i in range(run.budget(3000, 60000)):
        doc_case(run, run.rng, i)
    # dotted curve mnemonics next to curve lines whose description holds a double dot, in every order within one process
    from . import c07
    c07.dotted_curves(run)
    # (a) exhaustive small scopes (context: most of these strings are junk, the property does not speak about them)
    n = 0
    for line, sec in exhaustive(run):
        got = real(line, sec)
        n += 1
        run.evaluations += 1
        if n % 97 == 0:
            run.case({"line": line, "sec": sec}, nontrivial=sum(line.count(c) for c in ".:") >= 2, tags=["exhaustive-sample"])
        add(None, line, sec, got, False)
    run.dist["exhaustive"] = n
    # (c) corpus header lines
    for line, sec in corpus_lines():
        if "\n" in line:
            continue
        got = real(line, sec)
        run.case({"line": line, "sec": sec}, nontrivial=sum(line.count(c) for c in ".:") >= 3, tags=["corpus"])
        add(None, line, sec, got, False)
    # (d) malformed stream
    junk = " .:~#-\"'()[]aA19\t,;="
    for _ in range(run.budget(3000, 60000)):
        line = word(run.rng, run.rng.randint(0, 14), junk)
        sec = run.rng.choice(SECS)
        got = real(line, sec)
        run.case({"line": line, "sec": sec}, nontrivial=False, tags=["malformed", "malformed-none" if got is None else "malformed-parsed"])
        add(None, line, sec, got, False)
    flush()


# ------------------------------------------------------------------ end to end: the line inside a document, through lasio.read
DOC_SECTIONS = [("Version", ["~Version", "~V", "~VERSION INFORMATION", "~v"]), ("Well", ["~Well", "~W", "~w", "~WELL INFORMATION BLOCK"]),
                ("Curves", ["~Curve", "~C", "~c", "~CURVE INFORMATION"]), ("Parameter", ["~Parameter", "~P", "~p", "~Par", "~PARAMETER INFORMATION", "~Params"]),
                ("Tops", ["~Tops"])]
TEXT_VALUES = ["12,25 then 8,5 hole", "LSD 12,4 SEC 7", "1,234,567", "a1,2b", "3,14 rad", "KB 12,5 ft", "|azimuth| < 5", "a | b", "x|y|z", "1,5-2,5",
               # integer literals at and beyond the 64-bit range (serial numbers): still the value field of the line
               "9223372036854775807", "9223372036854775808", "-9223372036854775809", "12345678901234567890123"]


def doc_case(run, rng, i):
    """`MNEM .UNIT  VALUE : DESCR` in every section kind and version, read by lasio.read: the item carries exactly the four fields
    (value through the literal recogniser of C08's oracle; LAS 1.2 ~Well lines are `MNEM.UNIT DESCR : VALUE`)"""
    import lasio
    from . import c08
    secname, titles = DOC_SECTIONS[i % len(DOC_SECTIONS)]
    title = rng.choice(titles)
    version = ("1.2", "2.0", "3.0")[(i // len(DOC_SECTIONS)) % 3]
    gsec = secname if secname != "Tops" else "other"
    f, p = gen_case(rng, gsec)
    if rng.random() < 0.25:
        f[rng.choice([2, 3])] = rng.choice(TEXT_VALUES)
        if gsec == "Curves":
            f[2] = f[2].replace("..", ".")
    if gsec != "Parameter" and ":" in f[3]:
        f[3] = f[3].replace(":", ";")
    if ":" in f[2] and gsec != "Parameter":
        f[2] = f[2].replace(":", ";")
    if gsec == "Parameter" and ":" in f[1]:
        f[1] = f[1].replace(":", ";")     # (units with a colon inside ~Parameter: the corner of the structured stream and its known finding)
    u = f[1]
    if len(u) >= 2 and ((u[0] == "[" and u[-1] == "]") or (u[0] == "(" and u[-1] == ")")):
        f[1] = "Q" + u          # a bracketed unit is un-bracketed by the reader (documented): not what this stream is about
    if f[0].upper() in ("VERS", "WRAP", "DLM", "NULL") or f[0][:1] in "#~" or f[0] != f[0].strip() or not f[0]:
        f[0] = "Q" + f[0].strip()
    p = fix_pads(f, p, gsec, rng)
    if not pad_ok(f, p, gsec):
        return
    line = layout(f, p)
    text = (title if secname == "Version" else "~Version") + "\nVERS. %s : v\nWRAP. NO : w\n" % version + ("" if secname == "Version" else title + "\n") + line + "\n~A\n"
    case = {"doc": text, "sec": secname, "version": version, "fields": f, "pads": p}
    run.case(case, nontrivial=True, tags=["document", "docsec=" + secname, "docversion=" + version])
    try:
        las = lasio.read(text, mnemonic_case="preserve")
        it = list.__getitem__(las.sections[secname], -1)
    except Exception as e:
        run.fail("document-read", case, {"exc": repr(e)})
        return
    swap = version == "1.2" and secname == "Well" and f[0].upper() not in ("STRT", "STOP", "STEP", "NULL")
    vtxt, dtxt = (f[3], f[2]) if swap else (f[2], f[3])
    got = [it.original_mnemonic, it.unit, c08.show(c08.canon(it.value)), it.descr]
    if secname == "Curves" or (f[0].upper() in ("API", "UWI") and secname != "Parameter"):
        exp_v = ("str", vtxt)
    else:
        exp_v = c08.oracle(vtxt)[0]
    bad = c08.judge(exp_v, c08.canon(it.value), vtxt)
    if [got[0], got[1], got[3]] != [f[0], f[1], dtxt] or bad is not None:
        run.fail("document-item", case, {"expected": [f[0], f[1], list(exp_v[:1]) + [repr(exp_v[1])], dtxt], "observed": got})


def search(run, disagreements):
    for d in disagreements[:200]:
        c = d["case"]
        if c and "fields" in c:
            check_layout(run, c["fields"], c["pads"], c["sec"], "search")
    for i in range(run.budget(30000, 300000)):
        special_structured(run, run.rng, i)
        if run.failures:
            return
    for i in range(run.budget(100000, 1000000)):
        sec = SECS[i % len(SECS)]
        f, p = gen_case(run.rng, sec)
        p = fix_pads(f, p, sec, run.rng)
        check_layout(run, f, p, sec, "search")
        if run.failures:
            return


def doc_replay(run, c):
    """re-run one document case from its recorded fields (the generator's adjustments are idempotent on them)"""
    import random

    class Fixed(random.Random):
        pass
    import lasio
    from . import c08
    secname, version, f = c["sec"], c["version"], c["fields"]
    las = lasio.read(c["doc"], mnemonic_case="preserve")
    it = list.__getitem__(las.sections[secname], -1)
    swap = version == "1.2" and secname == "Well" and f[0].upper() not in ("STRT", "STOP", "STEP", "NULL")
    vtxt, dtxt = (f[3], f[2]) if swap else (f[2], f[3])
    exp_v = ("str", vtxt) if (secname == "Curves" or (f[0].upper() in ("API", "UWI") and secname != "Parameter")) else c08.oracle(vtxt)[0]
    return [it.original_mnemonic, it.unit, it.descr] == [f[0], f[1], dtxt] and c08.judge(exp_v, c08.canon(it.value), vtxt) is None


def shrink(run, f):
    c = f["case"]
    if "fields" not in c or "doc" in c or "dotted" in c:
        return f
    fields, pads, sec = list(c["fields"]), list(c["pads"]), c["sec"]

    def bad(fs, ps):
        if not fs[0] or fs[0] != fs[0].strip() or fs[2] != fs[2].strip() or fs[3] != fs[3].strip() or not pad_ok(fs, ps, sec):
            return False
        if classify({"clause": "layout-roundtrip", "case": {"sec": sec, "fields": fs, "pads": ps}}):
            return False
        return real(layout(fs, ps), sec) != fs
    changed = True
    while changed:
        changed = False
        for i in range(4):
            for k in range(len(fields[i])):
                cand = list(fields)
                cand[i] = fields[i][:k] + fields[i][k + 1:]
                if bad(cand, pads):
                    fields, changed = cand, True
                    break
        for i in range(6):
            for repl in ("", " "):
                if pads[i] != repl and len(repl) < len(pads[i]):
                    cand = list(pads)
                    cand[i] = repl
                    if bad(fields, cand):
                        pads, changed = cand, True
    line = layout(fields, pads)
    return dict(clause=f["clause"], case={"sec": sec, "fields": fields, "pads": pads, "line": line},
                detail={"expected": fields, "observed": real(line, sec)})


def replay(run, payload):
    c = payload["case"]
    if "dotted" in c:
        from . import c07
        return not c07.violates(c)
    if "doc" in c:
        try:
            return doc_replay(run, c)
        except Exception:
            return False
    if "fields" in c:
        return real(layout(c["fields"], c["pads"]), c["sec"]) == c["fields"]
    if "special" in c:
        if "expected" in c:
            return real(c["line"], c["sec"]) == c["expected"]
        for clause, sec, line, exp in SPECIALS:
            if line == c["line"]:
                return real(line, sec) == exp
    return True


LEVEL_TEXT = ("Machine-checked Lean 4 theorems about an executable model of read_header_line/configure_metadata_patterns in which each regex "
              "fragment is a priority-ordered list-of-successes matcher: the layout MNEM.UNIT VALUE : DESCR with arbitrary blank/TAB padding parses "
              "back to its fields for all conformant field contents (unbounded lengths), plus the special forms. Tie: exhaustive small-scope and "
              "structured differential comparison of the compiled model with the real function, and the property's oracle on the real function.")
LEVEL_NOTE = ("Python's `re` backtracking order is modelled by hand (trusted, exhaustively compared on short strings). Known finding R19 "
              "(~Parameter, colon inside the unit, delimiter rejected by the time look-around) is carved out by an explicit hypothesis.")

RULE = RULE + ("; ALSO (fifth session): document stream values at and beyond the 64-bit integer range (2^63-1, 2^63, -2^63-1, 23 digits)")
