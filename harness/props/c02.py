"""C02 — the numpy engine and the normal engine read plain data sections identically."""
import itertools

from .. import datadoc as dd

ID = "C02"
MODULE = "LasioProofs.Props.C02"
EXTRA_MODULES = ["LasioProofs.Props.C02Tab", "LasioProofs.Props.C02File"]
RULE = ("(0) the inputs of the fixed findings first (21 leading comment/blank lines; ~A followed by a section; 1 row x 1 column; inner ~A "
        "ending in a blank line); (a) PlainData documents — WRAP=NO, default delimiter, r>=1 rows of c>=1 plain decimal tokens in many "
        "spellings, blanks/TABs with leading/trailing padding, blank and '#' comment lines at every position incl. first/last line of "
        "the section, CRLF, missing final newline, ~A last or followed by ~P/~O/custom sections, 0..6 declared curves: a deterministic "
        "sweep over (r,c,d) x layouts plus random documents; on each the oracle reads with engine='numpy' and engine='normal' and "
        "demands equal curves (names, kinds, bit-identical values, NaN positions), equal header sections and cell (i,j) = float(token); "
        "each engine separately is compared with the Lean model including the engine trace (which engine ran, whether numpy raised); "
        "(a') wide documents (20..700 columns, declared curves != columns) and TAB-delimited documents (DLM TAB declared; tab runs, tab/blank "
        "padding, tab-only blank lines): same oracle; the TAB documents are outside the theorems' PlainData (context for the correspondence); "
        "(b) context: junk documents (text cells, dates, run-on numbers, quotes, commas, DLM TAB/COMMA, WRAP YES, ragged rows, empty "
        "sections) x engines x null policies vs the model; (c) unit level: read substitutions, the three splitters and str.split on random "
        "strings, the sniffer on random sections. non-trivial = the document has a blank/comment line, a following section, CRLF, no "
        "final newline, one row or one column")
TRUSTED = ["binary64 conversion float()/np.float64() is a runtime service: the model is parametric in a token->float table computed by Python",
           "numpy.genfromtxt(skip_header, max_rows, unpack=True, loose=False, ndmin=2) behaves as the specification `numpyEngineLines` says "
           "(cut at '#', split on whitespace, skip empty lines, first line fixes the column count, ragged line or non-float token raises, stop "
           "after max_rows ROWS): compared on every document of this check",
           "Python `re.sub`/`findall` for the three READ_SUBS patterns and the splitter regexes = the hand-written scanners (unit-level stream)",
           "`\\d` of the READ_SUBS patterns is modelled on ASCII, Arabic-Indic and full-width digits only (the harness sends no other digits)",
           "the steering values (WRAP/NULL/DLM, section windows, number of declared curves) are taken from the locals of the running "
           "LASFile.read at the call of define_line_splitter, i.e. computed by the real header reader"]
ASSUMPTIONS = ["TabPlainData (DLM TAB declared): as PlainData with the inner separators of a data line restricted to non-empty runs of TABs (the "
               "padding at both ends of the physical line may be any whitespace)",
               "PlainData: every line of the ~A window is blank, a '#' comment, or c >= 1 quiet tokens (no blank, quote, '#', ctrl-Z inside; no "
               "read substitution matches inside — true of every plain decimal number, `subs_id_on_plain`) separated/padded by whitespace; "
               "at least one data line; default delimiter; the window ends at the end of the file or right before a '~' title line",
               "r >= 1 in PlainData; sections with blank/comment lines only (r = 0) are covered separately by C02_engines_agree_empty: both "
               "engines give no columns (numpy engine since lasio 627c42f)",
               "C02_numpy_path additionally needs: no blank/comment line inside ~A, or ~A is the last section (else genfromtxt runs into the "
               "next title and lasio silently falls back to the normal engine — same curves, theorem C02_fallback)"]

FIXED_INPUTS = [
    ("sniff21", dd.SNIFF21_TEXT),
    ("sniff21-nocurves", dd.SNIFF21_NOCURVES),
    ("R3-inner-last-row", "~V\nVERS. 2.0 :\nWRAP. NO :\n~C\nA. :\nB. :\n~A\n1 2\n3 4\n~P\nX. 5 : d\n"),
    ("R5-1x1", "~V\nVERS. 2.0 :\nWRAP. NO :\n~A\n7\n"),
    ("R5-1xc-blank", "~V\nVERS. 2.0 :\nWRAP. NO :\n~A\n1 2 3\n\n"),
    ("R4-inner-blank-end", "~V\nVERS. 2.0 :\nWRAP. NO :\n~C\nA. :\nB. :\n~A\n1 2\n\n~P\nX. 5 : d\n"),
    ("R20-second-sniff", "~V\nVERS. 2.0 :\nWRAP. NO :\n~A\n1 -999\n~O\ntext\n"),
]


def oracle(run, text, case, cells=None):
    """the property on the real code; returns the two real reads"""
    a = dd.real_read(text, engine="numpy")
    b = dd.real_read(text, engine="normal")
    if a["res"][0] != "ok" or b["res"][0] != "ok":
        if a["res"][:2] != b["res"][:2] or cells is not None:
            run.fail("read-error", case, {"numpy": a["res"], "normal": b["res"]})
        return a, b
    if a["res"] != b["res"]:
        run.fail("curves-differ", case, {"numpy": a["res"][1], "normal": b["res"][1]})
    elif dd.canon_header(a["las"]) != dd.canon_header(b["las"]):
        run.fail("headers-differ", case, {"numpy": dd.canon_header(a["las"]), "normal": dd.canon_header(b["las"])})
    if cells is not None:
        want = [[dd.fhex(float(cells[i][j])) for i in range(len(cells))] for j in range(len(cells[0]))]
        null = dd.null_number(a["steer"]["null"]) if a["steer"] else None
        for which, r in (("numpy", a), ("normal", b)):
            got = r["res"][1]
            for j, col in enumerate(want):
                if j >= len(got) or got[j][1] != "f" or len(got[j][2]) != len(col):
                    run.fail("matrix-shape", case, {"engine": which, "column": j, "got": got[j] if j < len(got) else None})
                    break
                for i, v in enumerate(col):
                    g = got[j][2][i]
                    is_null = j != 0 and null is not None and float(cells[i][j]) == null
                    if g != ("nan" if is_null else v):
                        run.fail("matrix-cell", case, {"engine": which, "i": i, "j": j, "token": cells[i][j], "got": g})
                        break
    return a, b


def check_plain(run, doc, tag, theorem_domain=True):
    """`theorem_domain=False`: the document is inside the property's quantifier (the oracle applies in full) but outside the
    hypothesis `PlainData` of the theorems (a disagreement with the model is then a context disagreement)"""
    from lasio import reader
    text = doc["text"]
    for row in doc["cells"]:
        for t in row:
            if reader.numeric_literal_regex.fullmatch(t) is None:
                raise AssertionError("generator produced a token outside the plain decimal grammar: %r" % t)
    case = {"text": text, "d": doc["d"], "c": doc["c"], "r": doc["r"]}
    nontrivial = doc["skips"] > 0 or doc["after"] or "\r" in text or not text.endswith("\n") or doc["r"] == 1 or doc["c"] == 1
    run.case(case, nontrivial=bool(nontrivial),
             tags=[tag, "r=%d" % min(doc["r"], 4), "c=%d" % min(doc["c"], 5), "d%sc" % ("<" if doc["d"] < doc["c"] else "=" if doc["d"] == doc["c"] else ">"),
                   "skips" if doc["skips"] else "noskips", "inner" if doc["after"] else "last",
                   "crlf" if "\r" in text else "lf", "nl" if text.endswith("\n") else "no-final-nl"])
    a, b = oracle(run, text, case, cells=doc["cells"])
    for eng, r in (("numpy", a), ("normal", b)):
        m = dd.compare(run, ("plain/" if theorem_domain else "plain-tab/") + eng, text, {"engine": eng}, r, theorem_domain,
                       case=dict(case, engine=eng))
        if m is not None and m["trace"] is not None and eng == "numpy":
            run.dist["numpy-path" if m["trace"] == ["numpy"] else "numpy-fallback"] += 1


def sweep(rng):
    """deterministic layouts: every (r, c, d) small x padding / skip lines / line ends / position"""
    for r, c in itertools.product((1, 2, 3), (1, 2, 3)):
        for d in (0, 2, 4) if (r + c) % 2 else (1, 3):
            for lead, trail, skip_first, skip_mid, skip_last, eol, final_nl, after in itertools.product(
                    ("", " \t"), ("", "  "), (False, True), (False, True), (False, True), ("\n", "\r\n"), (True, False), (0, 1, 2)):
                if (lead, trail, skip_first, skip_mid, skip_last, eol, final_nl, after).count(True) + (eol == "\r\n") + (after > 0) > 3 \
                        and rng.random() < 0.8:
                    continue
                cells = [[dd.PLAIN_SPELLINGS[(7 * i + 3 * j + r + c + d) % len(dd.PLAIN_SPELLINGS)] for j in range(c)] for i in range(r)]
                body = []
                if skip_first:
                    body.append(rng.choice(dd.BLANK_LINES + dd.COMMENT_LINES))
                for i, row in enumerate(cells):
                    if skip_mid and i == 1:
                        body.append(rng.choice(dd.BLANK_LINES + dd.COMMENT_LINES))
                    body.append(lead + rng.choice([" ", "\t", "   "]).join(row) + trail)
                if skip_last:
                    body.append(rng.choice(dd.BLANK_LINES + dd.COMMENT_LINES))
                aft = dd.AFTER[after]
                text = dd.assemble(dd.header(declared=dd.names(d)), "~A", body, aft, eol=eol, final_newline=final_nl)
                yield dict(text=text, d=d, c=c, r=r, cells=cells, after=bool(aft), skips=len(body) - r)


def unit_streams(run):
    """read substitutions, splitters, sniffer vs the real functions (context: model validation on arbitrary strings)"""
    if run.model is None:
        return
    import io
    from lasio import reader, defaults
    rng = run.rng
    C, H, D = [defaults.READ_SUBS[k][0] for k in ("comma-decimal-mark", "run-on(-)", "run-on(.)")]
    alpha = "0123456789" * 2 + "..,,--  \t\"'NaN#e+٣５x\x1a\x0c"
    reqs, exp = [], []
    for i in range(run.budget(4000, 40000)):
        s = "".join(rng.choice(alpha) for _ in range(rng.randint(0, 12)))
        if i % 3 == 0:
            s = s.replace("N", "NaN")
        c, h, d = [rng.random() < 0.7 for _ in range(3)]
        t = s
        if c:
            t = C[0].sub(C[1], t)
        if h:
            t = H[0].sub(H[1], t)
        if d:
            t = D[0].sub(D[1], t)
        reqs.append({"op": "dt.subs", "line": s, "comma": c, "hyphen": h, "dot": d})
        exp.append(t)
        for dlm in ("SPACE", "TAB", "COMMA"):
            reqs.append({"op": "dt.split", "dlm": dlm, "line": s})
            exp.append(["".join(x) for x in reader.define_line_splitter(dlm)(s)])
        reqs.append({"op": "dt.split", "dlm": "PY", "line": s})
        exp.append(s.split())
    palpha = "0123456789" * 2 + "..++--eeE x٣"
    for i in range(run.budget(4000, 40000)):
        s = "".join(rng.choice(palpha) for _ in range(rng.randint(0, 9))) if i % 4 else dd.plain_token(rng)
        reqs.append({"op": "dt.plain", "tok": s})
        exp.append(reader.numeric_literal_regex.fullmatch(s) is not None)
    pols = {"default": (True, True, True), "comma-delimiter": (False, True, True)}
    for i in range(run.budget(1500, 10000)):
        body = [rng.choice(dd.JUNK_ROWS) for _ in range(rng.randint(0, 5))]
        if rng.random() < 0.3:
            body = [rng.choice(["", "#c", "1 2", "1-2 3"]) for _ in range(rng.randint(15, 30))] + body
        lines = [ln + "\n" for ln in ["~A"] + body + rng.choice([[], ["~P", "X. 5 : d"]])]
        last = rng.choice([len(body), len(lines) - 1, 0])
        pol = rng.choice(list(pols))
        dlm = rng.choice(["SPACE", "TAB", "COMMA"])
        subs, _, _ = reader.get_substitutions(pol, "strict")
        f = io.StringIO("".join(lines))
        n, rec = reader.inspect_data_section(f, (0, last), subs, line_splitter=reader.define_line_splitter(dlm))
        cm, hy, dt = pols[pol]
        reqs.append({"op": "dt.sniff", "lines": lines, "first": 0, "last": last, "dlm": dlm, "comma": cm, "hyphen": hy, "dot": dt})
        exp.append({"count": n, "hyphen": len(rec) != len(subs)})
    ans = run.model.ask(reqs, chunk=512)
    for r, a, e in zip(reqs, ans, exp):
        run.traces += 1
        if a != e:
            run.disagree("unit/" + r["op"], r, a, e, in_domain=False)
    run.dist["unit-requests"] = len(reqs)


def run(run):
    # (0) inputs of fixed findings, first on every run
    for name, text in FIXED_INPUTS:
        case = {"text": text, "fixed": name}
        run.case(case, nontrivial=True, tags=["fixed-input"])
        a, b = oracle(run, text, case)
        for eng, r in (("numpy", a), ("normal", b)):
            dd.compare(run, "fixed/" + eng, text, {"engine": eng}, r, True, case=dict(case, engine=eng))
    # r = 0 inputs of fixed findings (965fe63 empty inner ~A; 627c42f numpy engine added an empty unnamed curve): outside PlainData ->
    # context correspondence; the oracle still demands equal engines, and the expected curves are checked explicitly
    h_noc = "~V\nVERS. 2.0 : x\nWRAP. NO : y\n~W\nNULL. -999.25 : n\n"
    for name, text, want in (("empty-inner-A", dd.EMPTY_INNER_A, [[]]),
                             ("r0-blank-no-curves", h_noc + "~A\n\n", []),
                             ("r0-comment-no-curves", h_noc + "~A\n# c\n", [])):
        case = {"text": text, "fixed": name}
        run.case(case, nontrivial=True, tags=["fixed-input"])
        a, b = oracle(run, text, case)
        for eng, r in (("numpy", a), ("normal", b)):
            dd.compare(run, "fixed-context/" + eng, text, {"engine": eng}, r, False, case=dict(case, engine=eng))
            if r["res"][0] != "ok" or [c[2] for c in r["res"][1]] != want:
                run.fail("empty-section", dict(case, engine=eng), r["res"])
    # (a) PlainData: sweep + random
    for doc in sweep(run.rng):
        check_plain(run, doc, "sweep")
    for _ in range(run.budget(1000, 12000)):
        check_plain(run, dd.plain_doc(run.rng), "random")
    # many rows / beyond the sniffer's sample
    for _ in range(run.budget(40, 300)):
        doc = dd.plain_doc(run.rng, r=run.rng.randint(20, 45))
        check_plain(run, doc, "long")
    # wide rows: many columns, long physical lines (hundreds to thousands of characters), declared curves != columns
    for _ in range(run.budget(30, 300)):
        c = run.rng.choice([20, 33, 60, 120])
        doc = dd.plain_doc(run.rng, c=c, r=run.rng.randint(1, 4), d=run.rng.choice([0, 3, c - 1, c, c + 2]))
        check_plain(run, doc, "wide")
    for c in (400, 700):
        check_plain(run, dd.plain_doc(run.rng, c=c, r=2, d=run.rng.choice([2, c])), "very-wide")
    # TAB-delimited documents (DLM TAB declared): in the property's domain, outside the theorems' PlainData
    for _ in range(run.budget(400, 5000)):
        check_plain(run, dd.tab_doc(run.rng), "tab-delimited", theorem_domain=False)
    # (b) context
    for _ in range(run.budget(800, 8000)):
        doc = dd.junk_doc(run.rng)
        for eng in ("numpy", "normal"):
            for pol in ("strict", "none"):
                kw = {"engine": eng, "null_policy": pol}
                r = dd.real_read(doc["text"], **kw)
                run.case({"text": doc["text"], "kw": kw}, nontrivial=False, tags=["context", "ctx-" + (r["res"][0] if r["res"][0] == "ok" else r["res"][1])])
                dd.compare(run, "context/" + eng, doc["text"], kw, r, False)
    # (c) unit level
    unit_streams(run)


SEARCH_CONTEXT = True      # `search` filters by `property_domain`, so it may be given context disagreements


def property_domain(text):
    """is the document inside C02's quantifier: one unwrapped data section whose lines are blank, '#' comments, or the same number
    of plain decimal numbers separated by the declared delimiter (SPACE: blanks/tabs; TAB: tabs, blanks allowed around a cell)?"""
    from lasio import reader
    st = dd.real_read(text, engine="normal")["steer"]
    if st is None or len(st["windows"]) != 1 or st["las3"]:
        return False
    if st["wrap_declared"] and str(st["wrapped"]) == "YES":
        return False
    dlm = str(st["dlm"])
    first, last = st["windows"][0]
    rows, width = 0, None
    for l in dd.split_lines(text)[first + 1:last + 1]:
        s = l.strip()
        if s == "" or s.startswith("#"):
            continue
        if dlm == "SPACE":
            cells = s.split()
        elif dlm == "TAB":
            cells = [c.strip() for c in s.split("\t") if c.strip() != ""]
        else:
            return False
        if not cells or not all(reader.numeric_literal_regex.fullmatch(c) for c in cells):
            return False
        if width is not None and width != len(cells):
            return False
        rows, width = rows + 1, len(cells)
    return rows >= 1


def search(run, disagreements):
    for d in disagreements[:200]:
        c = d["case"]
        if isinstance(c, dict) and "text" in c:
            try:
                ok = property_domain(c["text"])
            except Exception:
                ok = False
            if ok:
                oracle(run, c["text"], c)
    if run.failures:
        return
    for i in range(run.budget(20000, 200000)):
        doc = dd.tab_doc(run.rng) if i % 4 == 3 else dd.plain_doc(run.rng)
        oracle(run, doc["text"], {"text": doc["text"], "d": doc["d"], "c": doc["c"], "r": doc["r"]}, cells=doc["cells"])
        if run.failures:
            return


class _Probe:
    def __init__(self):
        self.failures = []

    def fail(self, clause, case, detail=None):
        self.failures.append(clause)


def violates(text):
    p = _Probe()
    oracle(p, text, {"text": text})
    return bool(p.failures)


def shrink(run, f):
    text = f["case"].get("text")
    if not text or not violates(text):
        return f
    lines = dd.split_lines(text)
    changed = True
    while changed:
        changed = False
        for i in range(len(lines)):
            cand = lines[:i] + lines[i + 1:]
            t = "".join(cand)
            if t and violates(t):
                lines, changed = cand, True
                break
    text = "".join(lines)
    p = _Probe()
    a, b = oracle(p, text, {"text": text})
    return dict(clause=p.failures[0] if p.failures else f["clause"], case={"text": text}, detail={"numpy": a["res"], "normal": b["res"]})


def replay(run, payload):
    c = payload.get("case") or {}
    if "text" in c:
        return not violates(c["text"])
    return True


LEVEL_TEXT = ("Machine-checked Lean 4 theorems about an executable model of the data-section part of LASFile.read (sniffer with its cursor and "
              "21-data-line sample, hyphen rule, the three read substitutions as re.sub scanners, the three splitters, the normal engine with "
              "reshape and per-column typing, a specification of numpy.genfromtxt as lasio calls it, the silent fallback, NULL replacement, "
              "assignment to curves): on every PlainData file, for every number of declared curves, NULL, null policy and WRAP value, "
              "readData with engine numpy and engine normal give the same curves (C02_engines_agree, unbounded sizes); the numpy engine itself "
              "answers when the body has no blank/comment line or ~A is last (C02_numpy_path), otherwise genfromtxt provably raises and the "
              "normal engine answers (C02_fallback). The same four theorems hold for files that declare DLM TAB whose values are separated by runs "
              "of TABs (C02_*_tab over TabPlainData, Props/C02Tab.lean), with the counter-example that a blank is no separator there "
              "(C02_tab_separators_needed: the engines differ). Tie: differential comparison of the compiled model with the real read for each engine "
              "including the engine trace, and the property's oracle on the real code.")
LEVEL_NOTE = ("WHOLE FILE (Props/C02File.lean): C02_file / C02_file_plain / C02_file_tab — readModel with the numpy engine = readModel with the normal engine for every well-formed document all of whose data sections are plain (header sections, ~Other text and the curves of every data section, both null policies, wherever the data sections sit; unreadable files give the same error), C02_file_readFull / _records / _numpy_path / _fallback (which engine is recorded). Binary64 parsing is a parameter of the model (token->float table from Python's float()); genfromtxt is specified, not derived "
              "from numpy's source. Header sections are equal trivially in the model (the engine option is only read by the data part); the "
              "oracle checks it on the real objects. Silent fallback inside the domain exists (blank/comment line in an inner ~A): proved and "
              "predicted by the model, it does not change the curves.")
