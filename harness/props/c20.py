"""C20 — every file lasio opens is closed again, whatever fails and wherever."""
import builtins
import io
import os
import pathlib
import shutil
import tempfile

from .. import framework as fw

ID = "C20"
MODULE = "LasioProofs.Props.C20"
RULE = ("fault enumeration on the real code: for each call shape {read(str path), read(Path), write(path), to_csv(path), write(file object), "
        "to_csv(file object)} x inputs {good file (LF/CRLF, BOM, wrapped), no sections, header error, reshape error, decoding error, missing file} "
        "a clean run counts the low-level I/O operations N on every handle opened during the call, then the call is repeated N times with an "
        "OSError injected at the k-th operation (k = 1..N, exhaustive); after the call returns or raises (exception object kept alive) every handle "
        "opened by lasio must be closed, caller-supplied objects must still be open, and the LASFile must hold no open handle. non-trivial = a run "
        "in which an exception (injected or input-induced) actually propagated out of the call")
TRUSTED = ["CPython `with`/`finally` semantics; 'refcounting does not count as closing'",
           "harness/translate_c20.py statement mapping (over-approximating: every call/attribute/subscript is a raise point)"]
ASSUMPTIONS = ["handles are observed by wrapping builtins.open / io.open in-process; files opened by third-party code on lasio's behalf "
               "(openpyxl in to_excel) are outside the property"]

GOOD = """~Version
VERS. 2.0 : v
WRAP. NO : w
~Well
STRT.M 1.0 : s
STOP.M 3.0 : s
STEP.M 1.0 : s
NULL. -999.25 : n
~Curve
DEPT.M : d
GR.GAPI : g
~Params
A.X 5 : q
~Other
text
~ASCII
1.0 10
2.0 -999.25
3.0 30
"""
WRAPPED = GOOD.replace("WRAP. NO", "WRAP. YES").replace("1.0 10\n", "1.0\n10\n")
INPUTS = {
    "good": GOOD.encode(),
    "good-crlf": GOOD.replace("\n", "\r\n").encode(),
    "good-bom": b"\xef\xbb\xbf" + GOOD.encode(),
    "wrapped": WRAPPED.encode(),
    "no-sections": b"just\nsome text\nwithout sections\n",
    "header-error": GOOD.replace("A.X 5 : q", "junk line without delimiters").encode(),
    "reshape-error": GOOD.replace("2.0 -999.25\n", "2.0 -999.25 7\n").replace("WRAP. NO", "WRAP. YES").encode(),
    "decode-error": GOOD.replace("text", "t\xe9xt").encode("latin-1"),
    "lidar": b"LASF\nbinary\n",
    # other encodings, with and without BOM, non-ASCII bytes (the encoding helpers open the file several times)
    "utf16-le-nobom": GOOD.encode("utf-16-le"),
    "utf16-be-nobom": GOOD.encode("utf-16-be"),
    "utf16-bom": GOOD.encode("utf-16"),
    "latin1-bytes": GOOD.replace("text", "t\xe9xt \x81").encode("latin-1"),
    "large": (GOOD + "".join("%d.0 %d.5\n" % (i + 3, i) for i in range(1500))).encode(),
}


class Rec:
    def __init__(self, fail_at=None, persistent=False):
        self.count = 0
        self.fail_at = fail_at
        self.persistent = persistent      # the device keeps failing from the k-th operation on (e.g. disk full)
        self.handles = []
        self.events = []

    def op(self, name):
        self.count += 1
        if self.fail_at is not None and (self.count == self.fail_at or (self.persistent and self.count > self.fail_at)):
            self.events.append("FAULT@%s" % name)
            raise OSError("injected fault at I/O operation %d (%s)" % (self.count, name))


class Proxy:
    """file-object proxy that counts low-level operations and can fail the k-th one"""

    def __init__(self, f, rec, label):
        self.__dict__["_f"] = f
        self.__dict__["_rec"] = rec
        self.__dict__["_label"] = label

    def read(self, *a):
        self._rec.op("read")
        return self._f.read(*a)

    def readline(self, *a):
        self._rec.op("readline")
        return self._f.readline(*a)

    def readlines(self, *a):
        self._rec.op("readlines")
        return self._f.readlines(*a)

    def __iter__(self):
        return self

    def __next__(self):
        self._rec.op("next")
        return next(self._f)

    def seek(self, *a):
        self._rec.op("seek")
        return self._f.seek(*a)

    def tell(self):
        self._rec.op("tell")
        return self._f.tell()

    def write(self, s):
        self._rec.op("write")
        return self._f.write(s)

    def writelines(self, l):
        self._rec.op("writelines")
        return self._f.writelines(l)

    def flush(self):
        self._rec.op("flush")
        return self._f.flush()

    def close(self):
        self._rec.events.append("close:" + self._label)
        return self._f.close()

    @property
    def closed(self):
        return self._f.closed

    def __enter__(self):
        return self

    def __exit__(self, *a):
        self.close()
        return False

    def __getattr__(self, n):
        return getattr(self._f, n)


class Patched:
    def __init__(self, rec):
        self.rec = rec

    def __enter__(self):
        self.real_open = builtins.open
        rec = self.rec
        real_open = self.real_open

        def fake_open(file, *a, **kw):
            mode = a[0] if a else kw.get("mode", "r")
            rec.op("open")
            f = real_open(file, *a, **kw)
            p = Proxy(f, rec, "%s:%s" % (os.path.basename(str(file)), mode))
            rec.handles.append(p)
            rec.events.append("open:" + p._label)
            return p
        builtins.open = fake_open
        io.open = fake_open
        return self

    def __exit__(self, *a):
        builtins.open = self.real_open
        io.open = self.real_open
        return False


def build_las():
    import lasio
    return lasio.read(GOOD)


def shapes(tmp):
    """(name, callable(rec) -> None) for every call shape x input"""
    import lasio
    out = []
    for iname, data in INPUTS.items():
        path = os.path.join(tmp, iname + ".las")
        with open(path, "wb") as f:
            f.write(data)
        kw = {}
        if iname == "decode-error":
            kw = dict(encoding="utf-8", encoding_errors="strict")
        for kind, ref in (("read(str)", path), ("read(Path)", pathlib.Path(path))):
            def call(rec, ref=ref, kw=kw):
                holder = {}
                las = lasio.LASFile()
                holder["las"] = las
                las.read(ref, **kw)
                return holder
            out.append(("%s/%s" % (kind, iname), call, None))
        if iname in ("utf16-le-nobom", "utf16-be-nobom", "utf16-bom", "latin1-bytes", "decode-error"):
            # without chardet-style autodetection and without encoding=: the ad hoc trial of candidate encodings
            def call3(rec, path=path):
                las = lasio.LASFile()
                las.read(path, autodetect_encoding=False)
                return {"las": las}
            out.append(("read(str,no-autodetect)/%s" % iname, call3, None))
        if iname == "good":
            def call2(rec, path=path):
                las = lasio.LASFile()
                las.read(path, engine="normal", autodetect_encoding=False)
                return {"las": las}
            out.append(("read(str,normal,no-autodetect)/good", call2, None))
    out.append(("read(str)/missing-file", lambda rec: {"las": lasio.read(os.path.join(tmp, "does-not-exist.las"))}, None))
    for kind in ("write", "to_csv"):
        for variant in ("plain", "wrap", "bad-object", "bad-option", "ragged"):
            def callw(rec, kind=kind, variant=variant):
                las = build_las()
                target = os.path.join(tmp, "out-%s-%s.txt" % (kind, variant))
                if variant == "ragged":
                    las.curves[1].data = las.curves[1].data[:-1]        # curves of unequal length
                    if kind == "write":
                        las.write(target, version=2.0)
                    else:
                        las.to_csv(target)
                    return {"las": las}
                if variant == "bad-option":
                    if kind == "write":
                        las.write(target, version=2.0, fmt="%d %d")       # not enough arguments for format string
                    else:
                        las.to_csv(target, delimiter=";;")                # csv.writer rejects the option
                    return {"las": las}
                if variant == "bad-object":
                    las.well["NULL"].value = Unprintable()      # input-induced exception while formatting
                    las.curves[1].data[1] = float("nan")
                if kind == "write":
                    las.write(target, **({"wrap": True} if variant == "wrap" else {"version": 2.0}))
                else:
                    if variant == "bad-object":
                        las.to_csv(target, mnemonics=[Unprintable()])
                    else:
                        las.to_csv(target, units_loc="[]" if variant == "wrap" else "line")
                return {"las": las}
            out.append(("%s(path)/%s" % (kind, variant), callw, None))

            def callo(rec, kind=kind, variant=variant):
                las = build_las()
                target = os.path.join(tmp, "own-%s-%s.txt" % (kind, variant))
                real_open = getattr(builtins.open, "__wrapped_real__", None)
                f = Proxy(_REAL_OPEN(target, "w"), rec, "caller")
                try:
                    if variant == "ragged":
                        las.curves[1].data = las.curves[1].data[:-1]
                    if variant == "bad-option":
                        if kind == "write":
                            las.write(f, version=2.0, fmt="%d %d")
                        else:
                            las.to_csv(f, delimiter=";;")
                        return {"las": las}
                    if variant == "bad-object":
                        las.well["NULL"].value = Unprintable()
                        las.curves[1].data[1] = float("nan")
                    if kind == "write":
                        las.write(f, **({"wrap": True} if variant == "wrap" else {"version": 2.0}))
                    else:
                        if variant == "bad-object":
                            las.to_csv(f, mnemonics=[Unprintable()])
                        else:
                            las.to_csv(f)
                finally:
                    rec.caller = f
                return {"las": las}
            out.append(("%s(file object)/%s" % (kind, variant), callo, "caller"))
    return out


class Unprintable:
    def __str__(self):
        raise ValueError("cannot be formatted")

    __repr__ = __str__


_REAL_OPEN = builtins.open


def open_handles_on(obj):
    bad = []
    for k, v in vars(obj).items():
        c = getattr(v, "closed", None)
        if c is False and hasattr(v, "read") or (c is False and hasattr(v, "write")):
            bad.append(k)
    return bad


def attempt(run, name, call, k, persistent=False):
    rec = Rec(fail_at=k, persistent=persistent)
    rec.caller = None
    exc = None
    holder = None
    with Patched(rec):
        try:
            holder = call(rec)
        except BaseException as e:      # keep the exception object alive while we look
            exc = e
    still_open = [p._label for p in rec.handles if not p.closed]
    case = {"call": name, "fault_at": k, "persistent": persistent, "exception": type(exc).__name__ if exc else None}
    run.case(case, nontrivial=exc is not None, tags=[name.split("/")[0], "exc=%s" % (type(exc).__name__ if exc else "none")])
    run.traces += 1
    if still_open:
        run.fail("handle-left-open", case, dict(open=still_open, events=rec.events[-12:], exc=repr(exc)))
    if rec.caller is not None:
        if rec.caller.closed:
            run.fail("caller-object-closed", case, dict(events=rec.events[-12:], exc=repr(exc)))
        else:
            rec.caller._f.close()
    if holder and holder.get("las") is not None:
        bad = open_handles_on(holder["las"])
        if bad:
            run.fail("lasfile-holds-open-handle", case, dict(attrs=bad))
    # event-trace plausibility against the IR semantics: every close is preceded by its open
    opened = set()
    for ev in rec.events:
        if ev.startswith("open:"):
            opened.add(ev[5:])
        elif ev.startswith("close:") and ev[6:] != "caller" and ev[6:] not in opened:
            run.fail("close-before-open", case, dict(events=rec.events))
    for p in rec.handles:
        try:
            p._f.close()
        except Exception:
            pass
    del exc
    return rec.count


def run(run):
    tmp = tempfile.mkdtemp(prefix="verif-c20-", dir=os.path.join(fw.ROOT, ".scratch") if os.path.isdir(os.path.join(fw.ROOT, ".scratch")) else None)
    try:
        for name, call, _ in shapes(tmp):
            n = attempt(run, name, call, None)
            limit = n if run.tier == "thorough" else min(n, 400)
            for k in range(1, limit + 1):
                attempt(run, name, call, k)
            if not name.startswith("read"):
                for k in range(1, limit + 1):
                    attempt(run, name, call, k, persistent=True)
            run.dist["ops:" + name] = n
        run.exhaustive = True
    finally:
        shutil.rmtree(tmp, ignore_errors=True)


def search(run, disagreements):
    # the fault enumeration above IS the search for a failing input on the real code; nothing to add
    return


def replay(run, payload):
    tmp = tempfile.mkdtemp(prefix="verif-c20-")
    try:
        c = payload["case"]
        for name, call, _ in shapes(tmp):
            if name == c["call"]:
                attempt(run, name, call, c["fault_at"], persistent=c.get("persistent", False))
    finally:
        shutil.rmtree(tmp, ignore_errors=True)
    return not run.failures


LEVEL_TEXT = ("Machine-checked Lean 4 proof over ALL fault schedules and loop counts: harness/translate.py regenerates from the current source the "
              "control-flow skeleton (Stmt IR) of LASFile.read/write/to_csv with open_file, open_with_codecs, adhoc_test_encoding and writer.write "
              "inlined; `leakFree`/`noForeignClose` are decided by kernel evaluation on those terms and lifted to every execution by the proved "
              "soundness theorem of the outcome analysis (sound, leakFree_sound). Tie to the running code: exhaustive fault injection at every "
              "low-level I/O operation of every call shape on the real implementation.")
LEVEL_NOTE = ("The translator's statement mapping is trusted (small, over-approximating). CPython's with/finally semantics are the trusted runtime. "
              "Handles opened by third-party libraries are out of scope.")
TECHNIQUE = "Lean 4 theorem (soundness of a leak analysis) applied to translator-generated IR of the current source + exhaustive fault injection"
