"""C07 — rectangular result; cell (i, j) of the data is element i of curve j; declared order kept, surplus unnamed, missing NaN."""
import math

from .. import datadoc as dd

ID = "C07"
MODULE = "LasioProofs.Props.C07"
EXTRA_MODULES = ["LasioProofs.Props.C02File"]
RULE = ("(0) the input of the fixed finding (21 leading comment lines, columns != declared) first; (a) exhaustive (declared d in 0..6) x "
        "(columns c in 1..8) x (rows r in 1..5) x engine in {numpy, normal} x layout in {one depth step per line (WRAP=NO), wrapped "
        "(WRAP=YES, c = d >= 1, every depth step re-partitioned over several physical lines)}; cell (i,j) carries the value 1000*i + j, "
        "random blanks/TABs/padding, blank and comment lines, CRLF, a following section; oracle on the real read: all curves have length r; "
        "there are max(d,c) curves; element i of curve j is 1000*i+j for j < c; the first d curves keep mnemonic, unit, description in "
        "declared order; curves d..c-1 are unnamed; curves c..d-1 are all-NaN of length r; the real result is compared with the Lean model; "
        "(b) context: ragged / junk documents x engines x null policies vs the model, with the rectangularity oracle on every successful "
        "read. non-trivial = d != c, or wrapped, or r = 1, or c = 1")
TRUSTED = ["binary64 conversion is a parameter of the model (token->float table computed by Python's float())",
           "numpy.genfromtxt as specified by `numpyEngineLines`; numpy reshape/transposition = `chunk`/`columnsOf` (compared on every case)",
           "CurveItem construction and SectionItems.append for the surplus curves (C13's model) — here only the oracle looks at the names"]
ASSUMPTIONS = ["C07_binding: every data line carries the same number c >= 1 of values, r >= 1 (hypothesis on the flat token sequence = row-major "
               "flattening of an r x c matrix, so wrapped layouts are covered), and n_columns = c — which the sniffer delivers for uniform lines "
               "and the ~Curves count delivers for declared-wrapped files; with ragged lines the DECLARED count is used (theorem "
               "C07_ncolumns_needed shows columns then are not the file's columns)",
               "C07_rect has no hypothesis: it holds after ANY successful read of the model"]


DECL = {}


def make_doc(rng, d, c, r, wrapped, plain=False, textidx=False):
    cells = [[("T%d" % i) if (textidx and j == 0) else str(1000 * i + j) for j in range(c)] for i in range(r)]
    body = []
    for row in cells:
        if wrapped:
            for part in dd.partition(rng, row):
                body.append(dd.lay_row(rng, part))
        else:
            body.append(dd.lay_row(rng, row))
    if not plain:
        body = dd.sprinkle(rng, body, 0.1, 0.1)
    after = [] if plain else rng.choice(dd.AFTER)
    numeric = d >= 3 and rng.random() < 0.3
    decl = dd.names(d, numeric=numeric)
    head = dd.header(wrap=("YES" if wrapped else "NO"), declared=(None if (d == 0 and rng.random() < 0.5) else decl))
    text = dd.assemble(head, rng.choice(dd.TITLES[:4]), body, after, eol=("\n" if plain else rng.choice(["\n", "\n", "\r\n"])),
                       final_newline=plain or rng.random() < 0.8)
    DECL[text] = decl
    return text


def rect(run, case, r):
    """all curves have the same length (for any successful read)"""
    if r["res"][0] != "ok":
        return
    lens = set(len(c[2]) for c in r["res"][1] if c[1] != "?")
    if len(lens) > 1 or any(c[1] == "?" for c in r["res"][1]):
        run.fail("equal-lengths", case, {"lengths": [len(c[2]) if c[1] != "?" else c[2] for c in r["res"][1]]})


def dlm_doc(rng, spelling, c, r):
    """d = c curves, one depth step per line, cells cut by the delimiter the spelling names (when it names one)"""
    sep = {"COMMA": ",", "TAB": "\t"}.get(spelling.strip().upper(), " ")
    pad = rng.choice(["", " "]) if sep != " " else ""
    body = [(pad + sep + pad).join(str(1000 * i + j) for j in range(c)) for i in range(r)]
    decl = dd.names(c)
    head = dd.header(dlm=spelling, declared=decl)
    text = dd.assemble(head, "~A", body, [])
    DECL[text] = decl
    return text


def cols_oracle(run, case, res, d, cols):
    """binding oracle for documents with given expected columns (`cols[j][i]`: a float, or a str for a text column)"""
    if res["res"][0] != "ok":
        run.fail("read-error", case, res["res"])
        return
    las = res["las"]
    rect(run, case, res)
    c = len(cols)
    if len(las.curves) != max(d, c):
        run.fail("curve-count", case, {"got": len(las.curves), "want": max(d, c)})
        return
    for j in range(c):
        got = las.curves[j].data.tolist()
        want = cols[j]
        same = len(got) == len(want) and all((isinstance(w, str) and str(g) == w) or (not isinstance(w, str) and not isinstance(g, str) and float(g) == w)
                                             for g, w in zip(got, want))
        if not same:
            run.fail("cell-binding", case, {"curve": j, "got": [str(x) for x in got], "want": [str(x) for x in want]})
            return
    for j in range(c, d):
        arr = las.curves[j].data
        if arr.dtype.kind != "f" or len(arr) != len(cols[0]) or not all(x != x for x in arr.tolist()):
            run.fail("missing-nan", case, {"curve": j, "got": [str(x) for x in arr.tolist()]})


def read_as_string(text, kw):
    """the text handed to lasio.read() as a str (not wrapped in a StringIO by the caller)"""
    import lasio
    try:
        las = lasio.read(text, **kw)
        return {"res": ["ok", dd.canon_curves(las)], "las": las}
    except Exception as e:
        return {"res": ["err", "Other:" + type(e).__name__, str(e)[:80]], "las": None}


def special_docs(rng):
    """documents whose binding depends on a detail of one engine or one splitter: (text, d, expected columns, read keywords, tag)"""
    out = []
    # COMMA-delimited, the last field (a free-text remark) empty on some lines: an empty field is a value
    for r, empties in ((3, [1]), (4, [0, 2]), (2, [0, 1]), (3, [])):
        rows = [[float(10 * i), float(100 + i), ("" if i in empties else "rem%d" % i)] for i in range(r)]
        body = ["%s,%s,%s" % (repr(a), repr(b), t) for a, b, t in rows]
        decl = dd.names(3)
        text = dd.assemble(dd.header(dlm="COMMA", declared=decl), "~A", body, [])
        DECL[text] = decl
        for eng in ("numpy", "normal"):
            out.append((text, 3, [[a for a, _, _ in rows], [b for _, b, _ in rows], [t for _, _, t in rows]], {"engine": eng}, "comma-empty-last"))
    # a text value that contains '#' (sample tag, spreadsheet marker) is a value, not the start of a comment
    for r in (2, 3):
        for pos in (1, 2):
            tags = ["#%d" % i if i % 2 == 0 else "A#B" for i in range(r)]
            rows = [[float(i + 1), tags[i] if pos == 1 else float(5 * i), float(7 * i) if pos == 1 else tags[i]] for i in range(r)]
            body = [" ".join(x if isinstance(x, str) else repr(x) for x in row) for row in rows]
            decl = dd.names(3)
            text = dd.assemble(dd.header(declared=decl), "~A", body, [])
            DECL[text] = decl
            out.append((text, 3, [[row[j] for row in rows] for j in range(3)], {"engine": "normal"}, "hash-in-text-cell"))
    # a custom comment character for the data section (ignore_data_comments): the column sniffer and the engines skip the same lines
    for d, c in ((1, 3), (3, 2), (2, 2), (0, 2)):
        rows = [[float(1000 * i + j) for j in range(c)] for i in range(3)]
        body = []
        for i, row in enumerate(rows):
            if i in (0, 2):
                body.append(["% remark", "%", "  % indented 1 2 3", "%7 8 9 10"][(i + d + c) % 4])
            body.append(" ".join(repr(x) for x in row))
        decl = dd.names(d)
        text = dd.assemble(dd.header(declared=decl), "~A", body, [])
        DECL[text] = decl
        for eng in ("numpy", "normal"):
            out.append((text, d, [[row[j] for row in rows] for j in range(c)], {"engine": eng, "ignore_data_comments": "%"}, "custom-comment-char"))
    # white space other than blank and TAB between two values of a line (form feed, vertical tab, FS): still one line
    for d, c in ((1, 3), (3, 2), (2, 2)):
        for ws in ("\x0c", "\x0b", "\x1c", " \x0c "):
            rows = [[float(1000 * i + j) for j in range(c)] for i in range(3)]
            body = [(ws if i == 1 else " ").join(repr(x) for x in row) for i, row in enumerate(rows)]
            decl = dd.names(d)
            text = dd.assemble(dd.header(declared=decl), "~A", body, [])
            DECL[text] = decl
            for eng in ("numpy", "normal"):
                out.append((text, d, [[row[j] for row in rows] for j in range(c)], {"engine": eng}, "odd-whitespace"))
    # values in exponent notation with a negative exponent ('3.0100E-04') and negative values: the hyphen inside a number is not a
    # separator; lines with and without a hyphen are mixed so that the run-on substitutions stay switched on
    for d, c in ((2, 3), (3, 3), (1, 2), (4, 4), (0, 3)):
        for spell in ("%.4E", "%.3e", "%.6E"):
            rows = [[(1.0 if (i + j) % 3 else -1.0) * (1000 * i + j + 1) * (1e-4 if (i * c + j) % 2 else 1.0) for j in range(c)] for i in range(4)]
            rows[0] = [abs(x) * (1e4 if x and abs(x) < 1 else 1.0) for x in rows[0]]         # first line: no hyphen at all
            body = [" ".join((spell % x) if abs(x) < 1 else repr(float(spell % x)) for x in row) for row in rows]
            vals = [[float((spell % x)) if abs(x) < 1 else float(spell % x) for x in row] for row in rows]
            decl = dd.names(d)
            text = dd.assemble(dd.header(declared=decl), "~A", body, [])
            DECL[text] = decl
            for eng in ("numpy", "normal"):
                out.append((text, d, [[row[j] for row in vals] for j in range(c)], {"engine": eng}, "negative-exponent"))
    # every data line holds a hyphen (negative numbers), only SOME lines hold a digit-hyphen-digit text token ('15-9', a well
    # name; 'A-B' elsewhere): the text column stays one column in every row
    for d, c in ((3, 3), (2, 3), (4, 3), (0, 3), (3, 4)):
        for tags in (["15-9", "A-B", "x-y", "7-1"], ["A-B", "15-9", "B-C"], ["15-9", "N-1"], ["K-2", "x-y", "3-4", "z-w", "w-z"]):
            r = len(tags)
            rows = [[-(1000.0 * i + 1.5), tags[i]] + [-(10.0 * i + j + 0.25) for j in range(c - 2)] for i in range(r)]
            body = [" ".join(x if isinstance(x, str) else repr(x) for x in row) for row in rows]
            decl = dd.names(d)
            text = dd.assemble(dd.header(declared=decl), "~A", body, [])
            DECL[text] = decl
            for eng in ("numpy", "normal"):
                out.append((text, d, [[row[j] for row in rows] for j in range(c)], {"engine": eng}, "hyphen-tokens"))
    # the dtypes option: a dict / list for the DECLARED curves; whatever read succeeds keeps every data column
    for d, c in ((2, 2), (1, 3), (2, 4), (3, 2)):
        rows = [[float(1000 * i + j) for j in range(c)] for i in range(3)]
        body = [" ".join(repr(x) for x in row) for row in rows]
        decl = dd.names(d)
        text = dd.assemble(dd.header(declared=decl), "~A", body, [])
        DECL[text] = decl
        cols = [[row[j] for row in rows] for j in range(c)]
        for eng in ("numpy", "normal"):
            out.append((text, d, cols, {"engine": eng, "dtypes": {decl[0]: float}}, "dtypes-dict"))
            out.append((text, d, cols, {"engine": eng, "dtypes": [float] * d}, "dtypes-list"))
            out.append((text, d, cols, {"engine": eng, "dtypes": [float] * c}, "dtypes-full-list"))
    return out


DOTTED = [("RES..OHMM : deep res", ("RES.", "OHMM", "deep res")), ("GR.GAPI : scale 1..8", ("GR", "GAPI", "scale 1..8")),
          ("Cond..MS/M : x", ("Cond.", "MS/M", "x")), ("NPHI.V/V : see remarks.. run 2", ("NPHI", "V/V", "see remarks.. run 2"))]


def dotted_curves(run, only_text=None):
    """~Curves lines with a dotted mnemonic (`RES..OHMM`) next to lines whose DESCRIPTION holds a double dot, in every order: each
    declared curve keeps its own mnemonic, unit and description, and its own column"""
    import itertools
    import lasio
    for k in (2, 3):
        for combo in itertools.permutations(DOTTED, k):
            lines = ["DEPT.M : depth"] + [c[0] for c in combo]
            text = "~Version\nVERS. 2.0 : v\nWRAP. NO : w\n~Well\nNULL. -999.25 : n\n~Curve\n" + "\n".join(lines) + "\n~A\n" + \
                "\n".join(" ".join(str(10 * i + j) for j in range(k + 1)) for i in range(2)) + "\n"
            if only_text is not None and text != only_text:
                continue
            case = {"text": text, "dotted": [c[0] for c in combo]}
            if hasattr(run, "case"):
                run.case(case, nontrivial=True, tags=["dotted-curves"])
            try:
                las = lasio.read(text, mnemonic_case="preserve")
                got = [(c.original_mnemonic, c.unit, c.descr, [float(x) for x in c.data]) for c in las.curves]
            except Exception as e:
                run.fail("declared-metadata", case, {"exc": repr(e)})
                continue
            want = [("DEPT", "M", "depth", [0.0, 10.0])] + [(c[1][0], c[1][1], c[1][2], [float(j + 1), float(10 + j + 1)]) for j, c in enumerate(combo)]
            if got != want:
                run.fail("declared-metadata", case, {"expected": want, "observed": got})


def oracle(run, case, res, d, c, r):
    textidx = bool(case.get("textidx"))
    if res["res"][0] != "ok":
        run.fail("read-error", case, res["res"])
        return
    las = res["las"]
    curves = res["res"][1]
    rect(run, case, res)
    if len(curves) != max(d, c):
        run.fail("curve-count", case, {"got": len(curves), "want": max(d, c)})
        return
    decl = DECL.get(case.get("text"), dd.names(d))
    if len(DECL) > 20000:
        DECL.clear()
    for j, (name, kind, data) in enumerate(curves):
        if len(data) != r:
            run.fail("length", case, {"curve": j, "len": len(data)})
            return
        item = las.curves[j]
        if j < d:
            want = (decl[j], "U" + decl[j][-1:], "curve " + decl[j])
            if (item.original_mnemonic, item.unit, item.descr) != want:
                run.fail("declared-metadata", case, {"curve": j, "got": [item.original_mnemonic, item.unit, item.descr], "want": want})
        else:
            if item.original_mnemonic != "" or item.unit != "" or item.descr != "":
                run.fail("surplus-unnamed", case, {"curve": j, "got": [item.original_mnemonic, item.unit, item.descr]})
        if j < c and textidx and j == 0:
            if [str(x) for x in las.curves[0].data.tolist()] != ["T%d" % i for i in range(r)]:
                run.fail("cell-binding", case, {"curve": j, "got": data})
        elif j < c:
            want = [dd.fhex(float(1000 * i + j)) for i in range(r)]
            if kind != "f" or data != want:
                run.fail("cell-binding", case, {"curve": j, "got": data, "want": want})
        else:
            arr = las.curves[j].data
            if kind != "f" or any(x != "nan" for x in data) or arr.dtype.kind != "f":
                run.fail("missing-nan", case, {"curve": j, "got": data, "dtype": str(arr.dtype)})


def run(run):
    # (0) fixed finding first
    for name, text, d, c, r in (("sniff21", dd.SNIFF21_TEXT, 2, 3, 2), ("sniff21-nocurves", dd.SNIFF21_NOCURVES, 0, 3, 2)):
        for eng in ("numpy", "normal"):
            case = {"text": text, "fixed": name, "engine": eng}
            run.case(case, nontrivial=True, tags=["fixed-input"])
            res = dd.real_read(text, engine=eng)
            if res["res"][0] == "ok":
                # cells are 1..6 here, not 1000*i+j: check shape, order and binding by value
                got = [c_[2] for c_ in res["res"][1]]
                want = [[dd.fhex(float(3 * i + j + 1)) for i in range(r)] for j in range(c)]
                if got[:c] != want or len(got) != max(d, c):
                    run.fail("cell-binding", case, {"got": got, "want": want})
            else:
                run.fail("read-error", case, res["res"])
            dd.compare(run, "fixed/" + eng, text, {"engine": eng}, res, True, case=case)
    # empty inner ~A (fixed finding 965fe63): context (r = 0); the declared curve must come back empty, nothing of ~P read as data
    for eng in ("numpy", "normal"):
        case = {"text": dd.EMPTY_INNER_A, "fixed": "empty-inner-A", "kw": {"engine": eng}}
        run.case(case, nontrivial=True, tags=["fixed-input"])
        res = dd.real_read(dd.EMPTY_INNER_A, engine=eng)
        rect(run, case, res)
        if res["res"][0] != "ok" or [c[2] for c in res["res"][1]] != [[]]:
            run.fail("empty-section", case, res["res"])
        dd.compare(run, "fixed-context/" + eng, dd.EMPTY_INNER_A, {"engine": eng}, res, False, case=case)
    # (a) exhaustive (d, c, r) x engines x layouts
    reps = run.budget(4, 16)
    for d in range(0, 7):
        for c in range(1, 9):
            for r in range(1, 6):
                for wrapped in (False, True):
                    if wrapped and (c != d):
                        continue
                    for rep in range(reps):
                        text = make_doc(run.rng, d, c, r, wrapped, plain=(rep == 0 and reps > 1))
                        for eng in ("numpy", "normal"):
                            case = {"text": text, "d": d, "c": c, "r": r, "wrapped": wrapped, "engine": eng}
                            run.case(case, nontrivial=(d != c or wrapped or r == 1 or c == 1),
                                     tags=["exhaustive", "wrapped" if wrapped else "unwrapped", "eng=" + eng,
                                           "d<c" if d < c else "d=c" if d == c else "d>c"])
                            res = dd.real_read(text, engine=eng)
                            oracle(run, case, res, d, c, r)
                            dd.compare(run, "grid/" + eng, text, {"engine": eng}, res, True, case=case)
    run.exhaustive = True
    # a TEXT index column (time stamps): the declared curves without a column are still float NaN of the common length
    for d in range(1, 6):
        for c in range(1, 5):
            for r in (1, 3):
                for rep in range(run.budget(2, 6)):
                    text = make_doc(run.rng, d, c, r, False, plain=(rep == 0), textidx=True)
                    for eng in ("numpy", "normal"):
                        case = {"text": text, "d": d, "c": c, "r": r, "wrapped": False, "engine": eng, "textidx": True}
                        run.case(case, nontrivial=True, tags=["text-index", "d<c" if d < c else "d=c" if d == c else "d>c"])
                        res = dd.real_read(text, engine=eng)
                        oracle(run, case, res, d, c, r)
                        dd.compare(run, "textidx/" + eng, text, {"engine": eng}, res, False, case=case)
    # the DLM item in other spellings: the three documented names must work; whatever else is accepted must still bind column j
    # to curve j (a read that raises is outside "after any successful read")
    for spelling in ("COMMA", "TAB", "SPACE", "Comma", "comma", "Tab", "tab", "Space", "space", " COMMA"):
        for c in (1, 2, 3, 5):
            for r in (1, 3):
                text = dlm_doc(run.rng, spelling, c, r)
                for eng in ("numpy", "normal"):
                    case = {"text": text, "d": c, "c": c, "r": r, "wrapped": False, "engine": eng, "dlm": spelling}
                    run.case(case, nontrivial=True, tags=["dlm-spelling", "dlm=" + spelling.strip()])
                    res = dd.real_read(text, engine=eng)
                    if res["res"][0] == "ok" or spelling in ("COMMA", "TAB", "SPACE"):
                        oracle(run, case, res, c, c, r)
                    dd.compare(run, "dlm-spelling/" + eng, text, {"engine": eng}, res, False, case=case)
    dotted_curves(run)
    for text, d, cols, kw, tag in special_docs(run.rng):
        case = {"text": text, "d": d, "cols": [[x if isinstance(x, str) else repr(x) for x in col] for col in cols],
                "kw": {k: (v if k == "engine" else repr(v)) for k, v in kw.items()}, "special": tag}
        run.case(case, nontrivial=True, tags=["special", tag])
        res = dd.real_read(text, **kw)
        if res["res"][0] == "ok" or not tag.startswith("dtypes"):       # (a dtypes list shorter than the columns raises: not a successful read)
            cols_oracle(run, case, res, d, cols)
        if tag == "odd-whitespace":
            cols_oracle(run, dict(case, channel="string"), read_as_string(text, kw), d, cols)
    # wrapped with more columns than one line holds, long rows
    for _ in range(run.budget(60, 1500)):
        d = run.rng.randint(1, 14)
        r = run.rng.randint(1, 6)
        text = make_doc(run.rng, d, d, r, True)
        eng = run.rng.choice(["numpy", "normal"])
        case = {"text": text, "d": d, "c": d, "r": r, "wrapped": True, "engine": eng}
        run.case(case, nontrivial=True, tags=["wrapped-wide"])
        res = dd.real_read(text, engine=eng)
        oracle(run, case, res, d, d, r)
        dd.compare(run, "wide/" + eng, text, {"engine": eng}, res, True, case=case)
    # (b) context: ragged and junk documents; rectangularity must still hold after every successful read
    for _ in range(run.budget(1500, 15000)):
        doc = dd.junk_doc(run.rng)
        kw = {"engine": run.rng.choice(["numpy", "normal"]), "null_policy": run.rng.choice(["strict", "strict", "none"])}
        res = dd.real_read(doc["text"], **kw)
        case = {"text": doc["text"], "kw": kw}
        run.case(case, nontrivial=False, tags=["context", "ctx-" + (res["res"][0] if res["res"][0] == "ok" else res["res"][1])])
        rect(run, case, res)
        dd.compare(run, "context", doc["text"], kw, res, False)


def search(run, disagreements):
    for _ in range(run.budget(20, 200)):
        for d in range(0, 7):
            for c in range(1, 9):
                for r in (1, 2, 5):
                    text = make_doc(run.rng, d, c, r, False)
                    for eng in ("numpy", "normal"):
                        oracle(run, {"text": text, "d": d, "c": c, "r": r, "wrapped": False, "engine": eng}, dd.real_read(text, engine=eng), d, c, r)
                    if run.failures:
                        return


class _Probe:
    def __init__(self):
        self.failures = []
        import collections
        self.dist = collections.Counter()

    def fail(self, clause, case, detail=None):
        self.failures.append((clause, detail))


def violates(c):
    p = _Probe()
    if c.get("dotted"):
        dotted_curves(p, only_text=c["text"])
        return p.failures
    if c.get("special"):
        import random
        for text, d, cols, kw, tag in special_docs(random.Random(0)):
            if text == c["text"] and {k: (v if k == "engine" else repr(v)) for k, v in kw.items()} == c["kw"]:
                res = read_as_string(text, kw) if c.get("channel") == "string" else dd.real_read(text, **kw)
                if res["res"][0] == "ok" or not tag.startswith("dtypes"):
                    cols_oracle(p, c, res, d, cols)
        return p.failures
    if "d" in c:
        oracle(p, c, dd.real_read(c["text"], engine=c.get("engine", "numpy")), c["d"], c["c"], c["r"])
    else:
        kw = c.get("kw") or {"engine": c.get("engine", "numpy")}
        rect(p, c, dd.real_read(c["text"], **kw))
    return p.failures


def shrink(run, f):
    c = dict(f["case"])
    if "d" not in c or c.get("wrapped") or c.get("special") or c.get("dotted"):
        return f
    best = c
    for r in range(1, c["r"] + 1):
        for cc in range(1, c["c"] + 1):
            for d in range(0, c["d"] + 1):
                cand = dict(c, d=d, c=cc, r=r, text=make_doc(run.rng, d, cc, r, False, plain=True))
                fs = violates(cand)
                if fs:
                    return dict(clause=fs[0][0], case=cand, detail=fs[0][1])
    return dict(clause=f["clause"], case=best, detail=f["detail"])


def replay(run, payload):
    c = payload.get("case") or {}
    if "text" not in c:
        return True
    return not violates(c)


LEVEL_TEXT = ("Machine-checked Lean 4 theorems about the executable model of the data path of LASFile.read: after ANY successful readData all "
              "curves have one length (C07_rect, every engine/option/input); for a uniform r x c token matrix (any partition over physical "
              "lines, so wrapped files too) the normal engine with n_columns = c returns as column j the j-th entries of the rows "
              "(C07_binding via reshape_flatten), the genfromtxt specification returns the same (C07_binding_numpy); assignCurves puts column j "
              "into curve j unchanged, keeps the d declared curves first in order, appends c-d unnamed curves and fills d-c curves with NaN^r "
              "(C07_assign_*; C07_binding_assigned end to end). Tie: exhaustive (d,c,r) grid x engines x wrapped/unwrapped on the real code "
              "with the oracle and model comparison.")
LEVEL_NOTE = ("WHOLE FILE (Props/C02File.lean, theorems C07_file_*): after ANY successful readFull every data window has curves of one length, max(d, c) of them, declared slots first in order, surplus columns after them, missing ones NaN of the common length (C07_file_rect, C07_file_curves); binding of column j to curve j for uniform token matrices (C07_file_binding, C07_file_column, C07_file_binding_plain). Metadata of declared curves is untouched because the model's Slot.declared j refers to the existing curve object; names of the "
              "surplus curves (UNKNOWN:n suffixes) belong to C13. Float parsing is a parameter of the model.")

RULE = RULE + ("; ALSO (fifth session): documents `negative-exponent` (cells such as 3.0100E-04) and `hyphen-tokens` (every line holds a negative number, some a token such as 15-9)")
