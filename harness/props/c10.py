"""C10 — result is independent of input channel and encoding; reads are pure."""
import io
import os
import pathlib
import shutil
import tempfile

from .. import framework as fw

ID = "C10"
MODULE = "LasioProofs.Props.C10"
RULE = ("(a) channels: generated LAS texts with non-ASCII header text are delivered through {str path, pathlib.Path, open text file, StringIO, "
        "multi-line string} x {utf-8-sig (BOM, autodetected), utf-8, utf-16, latin-1, cp1252 with encoding=} x {LF, CRLF, CR for files}; all "
        "canonical dumps must be equal to the dump of the string read; (b) purity: random histories over up to 3 LASFile objects mixing fresh "
        "LASFile(), reads, writes and in-place mutations of earlier results; a read repeated after the history gives the same dump, and no "
        "operation on one object changes the dump of another; the heap model (Lean `World`) predicts every observation; (c) decision logic: "
        "open_file's content/filename classification and open_with_codecs' encoding choice vs the model on strings with every line-break "
        "character. non-trivial = a channel case with non-ASCII text or non-LF newlines, or a history with >= 2 objects and >= 1 mutation")
TRUSTED = ["Python codecs (decode(encode(t)) = t on the repertoire of the codec), BOM handling inside codecs, text-mode universal newlines, "
           "tell/seek cookies of multi-byte encodings: runtime behaviour exercised by the correspondence, not proved"]
ASSUMPTIONS = ["URL references and chardet/ad-hoc autodetection are outside the model (autodetection only through the BOM)",
               "CR-only newlines are claimed for files only (a str containing lone CRs is not split by StringIO)"]

HEAD_WORDS = ["Bohrloch", "Überdeckung", "Скважина", "Ölfeld", "température", "Ωmega", "ÉCOLE", "plain", "naïve café"]
# characters at which str.splitlines() breaks but which are NOT line ends for a file, a StringIO or lasio's line scanner (interior
# position: str.strip() would remove them at the ends of a field)
# decomposed accents and compatibility characters: preserved as they are (no Unicode normalisation)
COMPAT_WORDS = ["cafe\u0301", "\u2126hm", "\u212bngstrom", "270\u212a", "A\u030angstro\u0308m"]
EXOTIC_WORDS = COMPAT_WORDS + ["left\x85right", "a\u2028b", "p\u2029q", "f\x0cg", "v\x0bw", "s\x1ct", "r\x1du", "q\x1ev"]


def canon(las):
    out = []
    for k, v in las.sections.items():
        if isinstance(v, str):
            out.append([k, v])
        else:
            out.append([k, [[i.original_mnemonic, i.mnemonic, i.unit, cv(i.value), i.descr] for i in v]])
    cur = []
    for c in las.curves:
        d = c.data
        cur.append([c.original_mnemonic, [("nan" if (isinstance(x, float) and x != x) else float(x).hex()) if not isinstance(x, str) else x for x in d.tolist()]])
    return [out, cur, las.index_unit]


def cv(v):
    import numpy as np
    if isinstance(v, (int, np.integer)) and not isinstance(v, bool):
        return ["i", int(v)]
    if isinstance(v, (float, np.floating)):
        return ["f", "nan" if v != v else float(v).hex()]
    return ["s", str(v)]


def gen_text(rng, ascii_only=False, latin1=False, codec=None):
    words = [w for w in HEAD_WORDS if (not ascii_only or w.isascii())]
    if latin1:
        words = [w for w in words if _encodable(w, "latin-1")]
    if codec is not None and rng.random() < 0.5:
        words = words + [w for w in EXOTIC_WORDS if _encodable(w, codec)]
    w = lambda: rng.choice(words)
    n = rng.randint(1, 3)
    lines = ["~Version", "VERS. 2.0 : v", "WRAP. NO : w", "~Well", "STRT.M 1.0 : " + w(), "STOP.M %d.0 : s" % (n + 1), "STEP.M 1.0 : s",
             "NULL. -999.25 : n", "COMP. %s : company" % w(), "~Curve", "DEPT.M : " + w(), "GR.GAPI : " + w(), "~Params", "P1. %s : %s" % (w(), w()),
             "~Other", w() + " " + w(), "~ASCII"]
    lines += ["%d.0 %d.5" % (i + 1, 10 * i) for i in range(n + 1)]
    if rng.random() < 0.3:       # blank lines directly after title lines
        out = []
        for ln in lines:
            out.append(ln)
            if ln.startswith("~") and rng.random() < 0.5:
                out.append("")
        lines = out
    return "\n".join(lines) + "\n"


def _encodable(s, enc):
    try:
        s.encode(enc)
        return True
    except UnicodeEncodeError:
        return False


def channels(run, tmp):
    import lasio
    encs = [("utf-8-sig", None), ("utf-8", "utf-8"), ("utf-16", "utf-16"), ("latin-1", "latin-1"), ("cp1252", "cp1252")]
    for n in range(run.budget(40, 600)):
        codec, arg = encs[n % len(encs)]
        text = gen_text(run.rng, latin1=codec in ("latin-1", "cp1252"), codec=codec)
        ref_las = lasio.read(io.StringIO(text))
        ref = canon(ref_las)
        # every character of the header text is preserved: the COMP value is the word that was written, code point by code point
        import re as _re
        m_ = _re.search(r"^COMP\. (.*) : company$", text, flags=_re.M)
        if m_ and str(ref_las.well["COMP"].value) != m_.group(1).strip():
            run.fail("header-text-preserved", {"channel": "StringIO", "codec": codec, "newline": repr("\n"), "text": text},
                     {"expected": [hex(ord(ch)) for ch in m_.group(1).strip()], "observed": [hex(ord(ch)) for ch in str(ref_las.well["COMP"].value)]})
        for nl in ("\n", "\r\n", "\r", "mixed"):
            path = os.path.join(tmp, "c%d.las" % n)
            if nl == "mixed":       # LF and CRLF line ends in one file (concatenated exports)
                mixed = "".join(ln + run.rng.choice(["\n", "\r\n"]) for ln in text.split("\n")[:-1])
            with open(path, "w", encoding=codec, newline="") as f:
                f.write(text.replace("\n", nl) if nl != "mixed" else mixed)
            kw = {"encoding": arg} if arg else {}
            deliveries = [("str-path", lambda: lasio.read(path, **kw)), ("Path", lambda: lasio.read(pathlib.Path(path), **kw))]
            # option pairs: the detection switched off next to a named encoding; a BOM wins over whatever encoding= says
            if arg:
                deliveries.append(("str-path-noauto", lambda: lasio.read(path, autodetect_encoding=False, **kw)))
            if codec == "utf-8-sig":
                deliveries.append(("str-path-utf8", lambda: lasio.read(path, encoding="utf-8")))
                deliveries.append(("str-path-utf8-noauto", lambda: lasio.read(path, encoding="utf-8", autodetect_encoding=False)))
                deliveries.append(("Path-utf8sig-noauto", lambda: lasio.read(pathlib.Path(path), encoding="utf-8-sig", autodetect_encoding=False)))

            def via_fileobj():
                with open(path, "r", encoding=codec) as f:
                    return lasio.read(f)
            deliveries.append(("file-object", via_fileobj))
            def via_fileobj_positioned():
                # a caller-supplied stream that has been peeked into: the result depends on the content, not on the position
                with open(path, "r", encoding=codec) as f:
                    f.readline()
                    f.readline()
                    return lasio.read(f)
            deliveries.append(("file-object-after-readline", via_fileobj_positioned))
            if nl == "mixed":
                deliveries.append(("StringIO", lambda: lasio.read(io.StringIO(mixed))))
                deliveries.append(("string", lambda: lasio.read(mixed)))
            elif nl != "\r":
                deliveries.append(("StringIO", lambda: lasio.read(io.StringIO(text.replace("\n", nl)))))
                deliveries.append(("string", lambda: lasio.read(text.replace("\n", nl))))

                def via_stringio_positioned(how):
                    s_ = io.StringIO(text.replace("\n", nl))
                    if how == "end":
                        s_.read()
                    elif how == "line":
                        s_.readline()
                    else:
                        s_.read(4)
                    return lasio.read(s_)
                deliveries.append(("StringIO-at-end", lambda: via_stringio_positioned("end")))
                deliveries.append(("StringIO-after-readline", lambda: via_stringio_positioned("line")))
                deliveries.append(("StringIO-after-read4", lambda: via_stringio_positioned("read4")))

                def via_written_buffer():
                    # write() into a StringIO and read the same (un-rewound) buffer back: equal to reading its text
                    buf = io.StringIO()
                    lasio.read(io.StringIO(text)).write(buf, version=2.0)
                    written = buf.getvalue()      # (read() closes the stream it is given)
                    return canon(lasio.read(buf)) == canon(lasio.read(io.StringIO(written))) and lasio.read(io.StringIO(text))
                deliveries.append(("StringIO-just-written", via_written_buffer))
            for name, fn in deliveries:
                case = {"channel": name, "codec": codec, "newline": repr(nl), "text": text}
                if nl == "mixed":
                    case["mixed"] = mixed
                run.case(case, nontrivial=(not text.isascii()) or nl != "\n", tags=["channel=" + name, "codec=" + codec, "nl=" + repr(nl)])
                try:
                    res = fn()
                    got = canon(res) if res is not False else "write-then-read of the same buffer differs from reading its text"
                except Exception as e:
                    run.fail("channel-raises", case, {"exc": repr(e)})
                    continue
                if got != ref:
                    run.fail("channel-independent", case, {"expected": ref, "observed": got})


def rewritten_paths(run, tmp):
    """the same path re-written between two reads (another text, another BOM status, another codec): every read is a function of
    what the file holds NOW and of the options"""
    import lasio
    path = os.path.join(tmp, "rewritten.las")
    variants = [("utf-8-sig", {}), ("utf-8", {}), ("utf-8", {"encoding": "utf-8"}), ("utf-16", {"encoding": "utf-16"}), ("latin-1", {"encoding": "latin-1"})]
    fixed = [[1, 0], [0, 1], [1, 0, 1], [2, 0], [0, 2], [1, 3], [4, 0], [0, 4, 0], [1, 1, 0]]
    for n in range(run.budget(40, 400)):
        hist = []
        plan = fixed[n] if n < len(fixed) else [run.rng.randrange(len(variants)) for _ in range(run.rng.randint(2, 4))]
        for vi in plan:
            codec, kw = variants[vi]
            text = gen_text(run.rng, latin1=(codec == "latin-1"), ascii_only=(codec == "utf-8" and not kw))
            for _try in range(20):       # a text with non-ASCII header words wherever the codec can carry them
                if not text.isascii() or (codec == "utf-8" and not kw):
                    break
                text = gen_text(run.rng, latin1=(codec == "latin-1"))
            with open(path, "w", encoding=codec, newline="") as f:
                f.write(text)
            hist.append([codec, kw, text])
            case = {"stream": "rewritten-path", "history": hist}
            run.case(case, nontrivial=len(hist) > 1, tags=["rewritten-path", "codec=" + codec])
            try:
                got = canon(lasio.read(path, **kw))
            except Exception as e:
                run.fail("channel-raises", case, {"exc": repr(e)})
                break
            ref = canon(lasio.read(io.StringIO(text)))
            if got != ref:
                run.fail("read-depends-on-earlier-content-of-the-path", case, {"expected": ref, "observed": got})
                break


def decisions(run, tmp):
    """open_file's classification and open_with_codecs' encoding choice vs the model"""
    from lasio import reader
    breaks = ["\n", "\r", "\r\n", "\x0b", "\x0c", "\x1c", "\x1d", "\x1e", "\x85", " ", " ", " ", "a", "~"]
    reqs, exp, cases = [], [], []
    for n in range(run.budget(600, 6000)):
        s = "".join(run.rng.choice(breaks) for _ in range(run.rng.randint(0, 5)))
        s = run.rng.choice(["", "x", "dir/none.las"]) + s + run.rng.choice(["", "y"])
        try:
            f, enc = reader.open_file(s)
            kind = "content" if isinstance(f, io.StringIO) else "filename"
            if hasattr(f, "close"):
                f.close()
        except IndexError:
            kind = "IndexError"
        except (OSError, ValueError):
            kind = "filename"         # it tried to open it as a path
        case = {"decision": "classify", "s": s}
        run.case(case, nontrivial=len(s.splitlines()) >= 2, tags=["classify=" + kind])
        reqs.append({"op": "ch.classify", "s": s})
        exp.append(kind)
        cases.append(case)
        # property side: a string with more than one line is never taken for a file name
        if len(s.splitlines()) > 1 and kind != "content":
            run.fail("multiline-string-is-content", case, {"observed": kind})
    for bom in (True, False):
        for arg in (None, "utf-8", "latin-1", "utf-16"):
            if bom and arg == "utf-16":
                continue
            path = os.path.join(tmp, "enc.las")
            data = "~V\nVERS. 2.0 :\n".encode("utf-16" if arg == "utf-16" else "utf-8")
            with open(path, "wb") as f:
                f.write((b"\xef\xbb\xbf" if bom else b"") + data)
            if arg is None and not bom:
                continue       # autodetection: not modelled
            f, enc = reader.open_with_codecs(path, **({"encoding": arg} if arg else {}))
            f.close()
            case = {"decision": "encoding", "bom": bom, "arg": arg}
            run.case(case, nontrivial=bom, tags=["enc=" + str(enc)])
            reqs.append({"op": "ch.enc", "bom": bom, "arg": arg})
            exp.append(enc)
            cases.append(case)
            if bom and enc != "utf-8-sig":
                run.fail("bom-detected", case, {"observed": enc})
    if run.model:
        for case, m, e in zip(cases, run.model.ask(reqs), exp):
            run.traces += 1
            if m != e:
                run.disagree("open_file/open_with_codecs decision", case, m, e, in_domain=True)


def sec_obs(las):
    return [[i.original_mnemonic + "=" + str(i.value) for i in las.sections[k]] for k in ("Version", "Well", "Curves", "Parameter")]


def histories(run):
    """purity and non-interference: real objects vs the heap model"""
    import lasio
    texts = [gen_text(run.rng, ascii_only=True) for _ in range(4)]
    refs = [canon(lasio.read(t)) for t in texts]
    for h in range(run.budget(150, 3000)):
        objs, ops, trace = [], [], []
        nsteps = run.rng.randint(3, 12)
        nmut = 0
        for _ in range(nsteps):
            r = run.rng.random()
            if not objs or (r < 0.25 and len(objs) < 3):
                objs.append(lasio.LASFile())
                ops.append(["new"])
            elif r < 0.5:
                o = run.rng.randrange(len(objs))
                k = run.rng.randrange(len(texts))
                objs[o].read(texts[k])
                parsed = [[i, sec_obs(objs[o])[i]] for i in range(4)]
                ops.append(["read", o, parsed])
                if canon(objs[o]) != refs[k]:
                    run.fail("read-depends-on-history", {"history": ops, "text": texts[k]}, {"expected": refs[k], "observed": canon(objs[o])})
            elif r < 0.6:
                o = run.rng.randrange(len(objs))
                before = [sec_obs(x) for x in objs]
                try:
                    objs[o].write(io.StringIO(), version=2.0)
                except Exception:
                    pass
                ops.append(["mutate", o, 1, sec_obs(objs[o])[1]])      # write may refresh STRT/STOP/STEP of its own object
                for j, x in enumerate(objs):
                    if j != o and sec_obs(x) != before[j]:
                        run.fail("write-changes-other-object", {"history": ops}, {"object": j})
            else:
                o = run.rng.randrange(len(objs))
                k = run.rng.choice([0, 1, 3])
                sec = objs[o].sections[("Version", "Well", "Curves", "Parameter")[k]]
                before = [sec_obs(x) for x in objs]
                choice = run.rng.random()
                if choice < 0.4 and len(sec):
                    sec[run.rng.randrange(len(sec))].value = "mut%d" % h
                elif choice < 0.7:
                    sec.append(lasio.HeaderItem("M%d" % len(sec), value="new"))
                elif len(sec):
                    del sec[run.rng.randrange(len(sec))]
                nmut += 1
                ops.append(["mutate", o, k, sec_obs(objs[o])[k]])
                for j, x in enumerate(objs):
                    if j != o and sec_obs(x) != before[j]:
                        run.fail("mutation-changes-other-object", {"history": ops}, {"object": j, "before": before[j], "after": sec_obs(x)})
            trace.append([sec_obs(x) for x in objs])
        # fresh defaults: a new LASFile after all this still has pristine default sections
        fresh = lasio.LASFile()
        if [i.original_mnemonic for i in fresh.version] != ["VERS", "WRAP", "DLM"] or any(str(i.value).startswith("mut") or i.original_mnemonic.startswith("M") for i in fresh.well):
            run.fail("defaults-not-fresh", {"history": ops}, {"version": sec_obs(fresh)[0], "well": sec_obs(fresh)[1]})
        # a read repeated after arbitrary activity gives the same result
        k = run.rng.randrange(len(texts))
        if canon(lasio.read(texts[k])) != refs[k]:
            run.fail("read-not-pure", {"history": ops, "text": texts[k]}, {})
        case = {"history": ops}
        run.case(case, nontrivial=len(objs) >= 2 and nmut >= 1, tags=["objs=%d" % len(objs), "steps=%d" % nsteps])
        if run.model:
            # the default contents of the model are symbolic: map real default observations onto them by replaying only structure
            m = run.model.ask1({"op": "ch.world", "fresh": True, "ops": ops})
            run.traces += 1
            for step, (mo, ro) in enumerate(zip(m, trace)):
                # compare only sections that were written by a read/mutate in the model (defaults are symbolic in the model)
                for oi, (ms, rs) in enumerate(zip(mo, ro)):
                    for ki in range(4):
                        if ms[ki] != rs[ki] and not _is_default(ms[ki]):
                            run.disagree("heap-model", {"history": ops, "step": step, "object": oi, "section": ki}, ms[ki], rs[ki], in_domain=True)
                            break


def _is_default(sec):
    return sec in (["VERS", "WRAP", "DLM"], ["STRT", "STOP", "STEP", "NULL"], [])


def pool_texts(run):
    """texts with diverse header-line shapes (special forms of the header grammar in ~W, ~C, ~P) + the example corpus"""
    from . import c04
    texts = []
    for n in range(run.budget(60, 400)):
        rows = []
        for sec, title in (("Well", "~Well"), ("Curves", "~Curve"), ("Parameter", "~Params")):
            rows.append(title)
            if sec == "Well":
                rows += ["STRT.M 1.0 : s", "STOP.M 2.0 : s", "STEP.M 1.0 : s", "NULL. -999.25 : n"]
            if sec == "Curves":
                rows.append("DEPT.M : d")
            for _ in range(run.rng.randint(1, 4)):
                r = run.rng.random()
                if r < 0.5:
                    f, p = c04.gen_case(run.rng, sec)
                    p = c04.fix_pads(f, p, sec, run.rng)
                    line = c04.layout(f, p).strip()
                elif r < 0.8:
                    line = c04.special_structured(fw.Run(run.prop, run.tier, 0), run.rng, run.rng.randrange(1000))[1].strip()
                else:
                    line = run.rng.choice(["Cond..MS/M : x", "GR.GAPI : gamma..ray", "RES. .OHMM : deep.. res", "TIME . 12:30:15 : t", "A.B.C.D : e",
                                           "X . : y..", "MUD MIX : ratio 3:1"])
                if line and not line.startswith(("~", "#")):
                    rows.append(line)
        ncur = sum(1 for i, l in enumerate(rows) if rows.index("~Curve") < i < rows.index("~Params"))
        text = "~Version\nVERS. 2.0 : v\nWRAP. NO : w\n" + "\n".join(rows) + "\n~ASCII\n" + " ".join(str(j + 1) for j in range(ncur)) + "\n"
        texts.append(text)
    # the same line text in sections of different kinds (in two texts, and within one): the split depends on the section
    for line in ("LOC .   BLOCK 7: NORTH FLANK : LOCATION", "TIME . 12:30:15 : logging time: start", "RUN . 1 : a: b :c", "Cond..MS/M : x : y"):
        head = "~Version\nVERS. 2.0 : v\nWRAP. NO : w\n~Well\nSTRT.M 1.0 : s\nSTOP.M 2.0 : s\nSTEP.M 1.0 : s\nNULL. -999.25 : n\n"
        texts.append(head + line + "\n~Curve\nDEPT.M : d\n~Params\nP. 1 : p\n~ASCII\n1\n")
        texts.append(head + "~Curve\nDEPT.M : d\n~Params\n" + line + "\n~ASCII\n1\n")
        texts.append(head + "~Curve\nDEPT.M : d\n" + line + "\n~Params\nP. 1 : p\n~ASCII\n1 2\n")
        texts.append(head + line + "\n~Curve\nDEPT.M : d\n~Params\n" + line + "\n~ASCII\n1\n")
    root = os.path.join(fw.REPO, "tests", "examples")
    for b, _, files in sorted(os.walk(root)):
        for fn in sorted(files):
            if fn.lower().endswith(".las"):
                try:
                    t = open(os.path.join(b, fn), encoding="utf-8").read()
                except Exception:
                    continue
                if len(t) < 20000 and len(t.splitlines()) > 1:
                    texts.append(t)
    return texts


def worker_main(pool_path, seed):
    """fresh interpreter: read every text of the pool in the order given by `seed`, print {index: digest}"""
    import json
    import logging
    import random
    import sys
    import warnings
    sys.path.insert(0, fw.REPO)
    logging.disable(logging.CRITICAL)
    warnings.simplefilter("ignore")
    import lasio
    texts = json.load(open(pool_path))
    # every text under every mnemonic_case, the (text, option) pairs in an order of this worker's own
    order = [(i, mc) for i in range(len(texts)) for mc in ("upper", "lower", "preserve")]
    if seed % 100 == 1:
        order.reverse()                  # (worker 0: the pool as it is; worker 1: backwards; the others: shuffled)
    elif seed % 100 != 0:
        random.Random(seed).shuffle(order)
    out = {}
    for i, mc in order:
        try:
            out["%d:%s" % (i, mc)] = fw.h(canon(lasio.read(texts[i], ignore_header_errors=True, mnemonic_case=mc)))
        except Exception as e:
            out["%d:%s" % (i, mc)] = "raises:" + type(e).__name__
    print(json.dumps(out))


def order_independence(run, tmp):
    """a read must not depend on which other texts were read before it in the same process: the pool is read in K different
    orders by K fresh interpreters and every text must get the same result in all of them"""
    import json
    import subprocess
    import sys
    texts = pool_texts(run)
    pool = os.path.join(tmp, "pool.json")
    json.dump(texts, open(pool, "w"))
    runs = []
    procs = [subprocess.Popen([sys.executable, "-m", "harness.props.c10", "--worker", pool, str(run.seed * 100 + k)], cwd=fw.ROOT,
                              stdout=subprocess.PIPE, stderr=subprocess.DEVNULL, text=True) for k in range(run.budget(8, 14))]
    for pr in procs:
        out, _ = pr.communicate(timeout=600)
        try:
            runs.append(json.loads(out.strip().splitlines()[-1]))
        except Exception:
            raise fw.InfraError("order-independence worker produced no output")
    for i, t in enumerate(texts):
        for mc in ("upper", "lower", "preserve"):
            vals = {r["%d:%s" % (i, mc)] for r in runs}
            case = {"stream": "order-independence", "text": t if len(t) < 3000 else t[:3000], "orders": len(runs), "mnemonic_case": mc}
            run.case(case, nontrivial=True, tags=["order-independence"])
            if len(vals) > 1:
                run.fail("read-depends-on-earlier-reads", case, {"results": sorted(vals)})


def run(run):
    base = os.path.join(fw.ROOT, ".scratch")
    os.makedirs(base, exist_ok=True)
    tmp = tempfile.mkdtemp(prefix="c10-", dir=base)
    try:
        channels(run, tmp)
        rewritten_paths(run, tmp)
        decisions(run, tmp)
        histories(run)
        order_independence(run, tmp)
    finally:
        shutil.rmtree(tmp, ignore_errors=True)


def search(run, disagreements):
    base = os.path.join(fw.ROOT, ".scratch")
    os.makedirs(base, exist_ok=True)
    tmp = tempfile.mkdtemp(prefix="c10s-", dir=base)
    try:
        run.tier = "thorough"
        channels(run, tmp)
        histories(run)
    finally:
        shutil.rmtree(tmp, ignore_errors=True)


def replay(run, payload):
    import lasio
    c = payload["case"]
    if "channel" in c:
        base = os.path.join(fw.ROOT, ".scratch")
        os.makedirs(base, exist_ok=True)
        tmp = tempfile.mkdtemp(prefix="c10r-", dir=base)
        try:
            text, codec, nl = c["text"], c["codec"], eval(c["newline"])
            path = os.path.join(tmp, "r.las")
            if nl == "mixed":
                with open(path, "w", encoding=codec, newline="") as f:
                    f.write(c["mixed"])
                kw = {} if codec == "utf-8-sig" else {"encoding": codec}
                ref = canon(lasio.read(io.StringIO(text)))
                if c["channel"] == "file-object":
                    with open(path, "r", encoding=codec) as f:
                        return canon(lasio.read(f)) == ref
                if c["channel"] == "file-object-after-readline":
                    with open(path, "r", encoding=codec) as f:
                        f.readline(); f.readline()
                        return canon(lasio.read(f)) == ref
                if c["channel"] == "Path":
                    return canon(lasio.read(pathlib.Path(path), **kw)) == ref
                if c["channel"] == "str-path":
                    return canon(lasio.read(path, **kw)) == ref
                if c["channel"] == "StringIO":
                    return canon(lasio.read(io.StringIO(c["mixed"]))) == ref
                return canon(lasio.read(c["mixed"])) == ref
            with open(path, "w", encoding=codec, newline="") as f:
                f.write(text.replace("\n", nl))
            kw = {} if codec == "utf-8-sig" else {"encoding": codec}
            ref = canon(lasio.read(io.StringIO(text)))
            if c["channel"] == "file-object":
                with open(path, "r", encoding=codec) as f:
                    got = canon(lasio.read(f))
            elif c["channel"] == "Path":
                got = canon(lasio.read(pathlib.Path(path), **kw))
            elif c["channel"] == "str-path":
                got = canon(lasio.read(path, **kw))
            elif c["channel"] == "StringIO":
                got = canon(lasio.read(io.StringIO(text.replace("\n", nl))))
            elif c["channel"] == "file-object-after-readline":
                with open(path, "r", encoding=codec) as f:
                    f.readline()
                    f.readline()
                    got = canon(lasio.read(f))
            elif c["channel"].startswith("StringIO-a"):
                s_ = io.StringIO(text.replace("\n", nl))
                if c["channel"] == "StringIO-at-end":
                    s_.read()
                elif c["channel"] == "StringIO-after-readline":
                    s_.readline()
                else:
                    s_.read(4)
                got = canon(lasio.read(s_))
            elif c["channel"] == "StringIO-just-written":
                buf = io.StringIO()
                lasio.read(io.StringIO(text)).write(buf, version=2.0)
                written = buf.getvalue()
                return canon(lasio.read(buf)) == canon(lasio.read(io.StringIO(written)))
            else:
                got = canon(lasio.read(text.replace("\n", nl)))
            return got == ref
        finally:
            shutil.rmtree(tmp, ignore_errors=True)
    if c.get("stream") == "rewritten-path":
        base = os.path.join(fw.ROOT, ".scratch")
        os.makedirs(base, exist_ok=True)
        tmp = tempfile.mkdtemp(prefix="c10w-", dir=base)
        try:
            path = os.path.join(tmp, "rewritten.las")
            ok = True
            for codec, kw, text in c["history"]:
                with open(path, "w", encoding=codec, newline="") as f:
                    f.write(text)
                ok = canon(lasio.read(path, **kw)) == canon(lasio.read(io.StringIO(text)))
            return ok
        finally:
            shutil.rmtree(tmp, ignore_errors=True)
    if "history" in c:
        histories(run)
        return not run.failures
    if c.get("stream") == "order-independence":
        base = os.path.join(fw.ROOT, ".scratch")
        os.makedirs(base, exist_ok=True)
        tmp = tempfile.mkdtemp(prefix="c10o-", dir=base)
        try:
            order_independence(run, tmp)
        finally:
            shutil.rmtree(tmp, ignore_errors=True)
        return not run.failures
    return True


LEVEL_TEXT = ("Partial by nature: Lean 4 theorems about the decision logic lasio contributes (content/filename classification by splitlines, BOM "
              "wins over encoding=, universal-newline delivery is idempotent and CR-free, string and file deliveries give the same stripped lines) and "
              "about an object-world model of LASFile construction/reading/mutation (fresh default sections => pairwise disjoint objects => reads are "
              "pure and operations on one LASFile never affect another, for ALL histories), with `defaultItemsFresh` regenerated from the source by "
              "the translator. Decoding itself, codecs' BOM handling and tell/seek cookies are runtime behaviour: exercised by the channel x codec x "
              "newline matrix on the real code, not proved.")
LEVEL_NOTE = ("partial: codecs, text-mode newline translation and seek/tell are the Python runtime (named hypotheses); autodetection by chardet and "
              "URL input are outside the model; the theorems cover lasio's own logic, the correspondence/oracle covers the glue.")


if __name__ == "__main__":
    import sys
    if len(sys.argv) >= 4 and sys.argv[1] == "--worker":
        worker_main(sys.argv[2], int(sys.argv[3]))

RULE = RULE + ("; ALSO (fifth session): deliveries with option pairs: encoding='utf-8' (with and without autodetect_encoding=False) on a BOM file, autodetect_encoding=False next to every named encoding")
