"""C05 — Every line is attributed to the section whose title precedes it."""
import math
import os

from .. import framework as fw
from .. import lasdoc as ld

ID = "C05"
MODULE = "LasioProofs.Props.C05"
EXTRA_MODULES = ["LasioProofs.Props.C05File"]
RULE = ("documents assembled from ~V first + a random permutation of ~W, ~C, ~P, ~O and up to 3 custom sections (titles starting with a letter "
        "other than V/W/C/P/O/A), ~A anywhere after ~V; 7 title spellings per standard section (letter only, full word, trailing text, lower case, "
        "upper case); empty sections; blank / '#' lines at first/last/only position; LF or CRLF; with/without final newline; VERS 1.2/2.0 in 5 "
        "spellings, WRAP NO/YES/absent, DLM absent/SPACE/COMMA/TAB, NULL in 3 spellings or absent. Every line carries a tag naming its section. "
        "ORACLE (real code, full read incl. data, default options): (tags) every tag is found in exactly its section's items/text, once, and the "
        "data cells (which encode row and column) come back as the expected matrix; (perm) a second random permutation of the sections after ~V "
        "gives the same per-key dumps and data; (plant) an item named VERS/WRAP/NULL/DLM with a hostile value planted in ~C/~P/custom leaves every "
        "other section, the genuine items of its own section and the genuine curves' data unchanged. CORRESPONDENCE: model rd.header vs "
        "lasio.read(text, ignore_data=True, mnemonic_case, ignore_header_errors) on the same documents, on 'wild' mutations of them (indented / "
        "hostile / duplicate titles, hostile VERS and DLM values, duplicated and case-variant steering mnemonics, junk lines, LASF, no sections) "
        "on every sequence of <= 3 (thorough: 4) lines over a 15-line vocabulary (exhaustive) and on every file of tests/examples. non-trivial = >= 5 sections in non-standard order or a non-default title spelling / a mutation")
TRUSTED = ["header-level only: the data rows are covered by the oracle on the real code here and by the data-path model of C02/C07",
           "item values are compared as raw text through the real SectionParser.num (num itself is C08's model)"]
ASSUMPTIONS = ["text uses only characters on which the model's upper/lower/isspace tables agree with Python (checked per character by the harness)",
               "the text has more than one line (lasio's open_file takes a one-line string for a file name)",
               "theorems about documents: body lines do not start with '~' after stripping, titles are not indented"]

HOSTILE_TITLES = ["~", "~ ", " ~W", "  ~O", "\t~C", " ~A", "~_Data", "~Log_Definition", "~Log_Parameter", "~Log_Data", "~Curve_Definition",
                  "~Tops_Data | x", "~C_x", "~P_1", "~Well_Parameter", "~A_b", "~Other_Data", "~X_DATA", "~w_definition", "~V_Parameter",
                  "~~", "~.", "~é", "~м", "~Ж", "~1", "~Vx", "~Wx", "~Cx", "~Px", "~Ox", "~Ax"]
HOSTILE_VERS = ["3.0", "3", "abc", "", "2,0", "1e0", "2.1", "1.0", "1.2000000000000000001", "-2", "+2.0", ".2e1", "2.0.0", "1.20", "02.0",
                "2.", "12e-1", "1,2", "2.0 x", "0.0", "1.", "3.00", "1.19999999999999996", "1.2e0", "one"]
HOSTILE_DLM = ["SPACE", "COMMA", "TAB", "space", "", "5", "COMMA,", "X"]
JUNK = ["junk", ".", ":", "..", "a b c", "x.y", "no period : here", ". : ", "  B .U  v : d  ", "12:30", "a.b.c : d : e", "é.м ж : я", "\"q\"",
        "'", "-", "=", "1 2", "3 4"]


def gen_wild(rng):
    """a generated document with one to three hostile mutations; returns (text, tag)"""
    secs = ld.gen_doc(rng, allow_data=rng.random() < 0.7)
    lines = []
    for s in secs:
        lines.append(s["title"])
        lines += [b[0] for b in s["body"]]
    tags = []
    for _ in range(rng.randint(1, 3)):
        m = rng.randrange(12)
        titles = [i for i, l in enumerate(lines) if l.strip().startswith("~")]
        if m == 0 and titles:
            i = rng.choice(titles)
            lines[i] = rng.choice(HOSTILE_TITLES)
            tags.append("hostile-title")
        elif m == 1 and titles:
            i = rng.choice(titles)
            lines[i] = rng.choice([" ", "  ", "\t"]) + lines[i]
            tags.append("indented-title")
        elif m == 2 and titles:
            i = rng.choice(titles)
            j = (titles + [len(lines)])[titles.index(i) + 1]
            at = rng.randint(0, len(lines))
            lines[at:at] = lines[i:j]
            tags.append("duplicate-section")
        elif m == 3:
            idx = [i for i, l in enumerate(lines) if l.strip().upper().startswith("VERS")]
            if idx:
                lines[rng.choice(idx)] = "VERS. %s : v" % rng.choice(HOSTILE_VERS)
                tags.append("hostile-vers")
        elif m == 4:
            lines.insert(rng.randint(1, len(lines)), "DLM. %s : d" % rng.choice(HOSTILE_DLM))
            tags.append("dlm")
        elif m == 5:
            lines.insert(rng.randint(1, len(lines)), rng.choice(["VERS. 1.2 : again", "vers. 1.2 : lower", "Vers . 3.0 : mixed", "WRAP. YES : again",
                                                                 "NULL. 5 : again", "null. 7 : lower", "VERS:1. 1.2 : suffix", " . 5 : blank mnemonic",
                                                                 "UNKNOWN. 1 : u", "STRT.M 5 : again", "strt.m 6 : lower", "Strt.M 7 : mixed case", "Null. 3 : mixed case", "nUlL. 4 : odd case", "API. 0012 : x", "UWI. 1e5 : y"]))
            tags.append("dup-steer")
        elif m == 6:
            lines.insert(rng.randint(0, len(lines)), rng.choice(JUNK))
            tags.append("junk")
        elif m == 7:
            lines.insert(rng.randint(0, len(lines)), rng.choice(["", "  ", "# c", "#~X", " # ~A"]))
            tags.append("filler")
        elif m == 8 and titles:
            i = rng.choice(titles)
            j = (titles + [len(lines)])[titles.index(i) + 1]
            del lines[i:j]
            tags.append("drop-section")
        elif m == 9:
            if rng.random() < 0.3:
                lines = [l for l in lines if not l.strip().startswith("~")] or ["x"]
                tags.append("no-sections")
            elif rng.random() < 0.3:
                lines[0] = "LASF" + lines[0]
                tags.append("lasf")
            else:
                lines.insert(0, rng.choice(["preamble", "", "# leading comment", "A.B 1 : x"]))
                tags.append("preamble")
        elif m == 10 and titles:
            i = rng.choice(titles)
            lines[i] = lines[i].swapcase() if rng.random() < 0.5 else lines[i][:2]
            tags.append("title-case")
        elif m == 11:
            k = rng.randrange(len(lines))
            lines[k] = lines[k] + rng.choice([" ", "\t", " \x0b", "\x0c", " \x1c", "\xa0", " "])
            tags.append("odd-space")
    eol = rng.choice(["\n", "\n", "\r\n"])
    text = eol.join(lines) + (eol if rng.random() < 0.8 else "")
    return text, tags


# ---------------------------------------------------------------------------------------------- oracle on the real code
# inputs of fixed findings, re-run through the oracle first on every run: (text, expected curves data, expected per-key mnemonics)
FIXED_INPUTS = [
    # empty ~A followed by another section read the rest of the file as data (fixed in /repo 965fe63)
    ("~V\nVERS. 2.0 : x\nWRAP. NO : y\n~C\nA.M : curve\n~A\n~P\nX. 5 : d\n", [["A", []]], {"Curves": ["A"], "Parameter": ["X"]}),
    ("~V\nVERS. 2.0 : x\nWRAP. NO : y\n~A\n~C\nA.M : curve\nB.M : curve\n~O\n1 2\n3 4\n", [["A", []], ["B", []]],
     {"Curves": ["A", "B"], "Other": "1 2\n3 4"}),
    # an indented ~Other title was stored as text and the last line of the section dropped (fixed in /repo ab31372)
    ("~V\nVERS. 2.0 : v\nWRAP. NO : w\n ~O\nfirst\nlast\n~W\nNULL. -999.25 : n\n", [], {"Other": "first\nlast", "Well": ["NULL"]}),
    ("~V\nVERS. 2.0 : v\n\t~other stuff\nonly\n", [], {"Other": "only", "Version": ["VERS"]}),
]


def fixed_inputs(run, batch):
    for text, data, keys in FIXED_INPUTS:
        for engine in ("numpy", "normal"):
            case = {"text": text, "engine": engine, "fixed_input": True}
            run.case(case, nontrivial=True, tags=["fixed-input"])
            r = ld.read_full(text, engine=engine)
            ok = "ok" in r and r["ok"]["data"] == data
            if ok:
                for k, v in keys.items():
                    got = r["ok"]["sections"].get(k)
                    ok = ok and (got == v if isinstance(v, str) else [i[0] for i in got] == v)
            if not ok:
                run.fail("fixed-input", case, r)
        batch.add("fixed-input", text, False, "upper")
    twin_docs(run, batch)


TWINS = [
    # (line, mnemonic, (value, descr) outside ~Parameter: the LAST colon, (value, descr) inside ~Parameter: the first non-clock colon)
    ("DFD .K/M3 1525 : Drill Fluid: Density", "DFD", ("1525 : Drill Fluid", "Density"), ("1525", "Drill Fluid: Density")),
    ("LOC .   BLOCK 7: NORTH FLANK : LOCATION", "LOC", ("BLOCK 7: NORTH FLANK", "LOCATION"), ("BLOCK 7", "NORTH FLANK : LOCATION")),
    ("RUN . 1 : a: b :c", "RUN", ("1 : a: b", "c"), ("1", "a: b :c")),
]


def twin_docs(run, batch):
    """the SAME line text under titles of different kinds: each occurrence is split by the rules of its own section"""
    import itertools
    import lasio
    for line, mn, outside, inside in TWINS:
        blocks = {"W": "~Well\nSTRT.M 1 : s\nSTOP.M 2 : s\nSTEP.M 1 : s\nNULL. -999.25 : n\n" + line + "\n",
                  "P": "~Parameter\n" + line + "\n", "X": "~Tops\n" + line + "\n", "C": "~Curve\nDEPT.M : d\n"}
        for order in itertools.permutations("WPXC"):
            text = "~Version\nVERS. 2.0 : v\nWRAP. NO : w\n" + "".join(blocks[k] for k in order) + "~A\n1\n2\n"
            case = {"text": text, "twin": line}
            run.case(case, nontrivial=True, tags=["twin-lines"])
            try:
                las = lasio.read(text)
                got = {"Well": (str(las.well[mn].value), las.well[mn].descr), "Parameter": (str(las.params[mn].value), las.params[mn].descr),
                       "Tops": (str(las.sections["Tops"][mn].value), las.sections["Tops"][mn].descr)}
            except Exception as e:
                run.fail("twin-lines", case, {"exc": repr(e)})
                continue
            want = {"Well": outside, "Parameter": inside, "Tops": outside}
            if got != want:
                run.fail("twin-lines", case, {"expected": want, "observed": got})
            batch.add("twin", text, False, "upper")


def data_ok(secs, dump):
    exp = ld.expected_data(secs)
    if exp is None:
        return all(vals in (None, []) for _, vals in dump["data"])
    got = dump["data"]
    if exp and not exp[0]:
        # no rows: whatever curves exist (declared in ~C) carry no data
        return all(vals == [] for _, vals in got)
    if len(got) < len(exp):
        return False
    for k, col in enumerate(exp):
        vals = got[k][1]
        if vals is None or len(vals) != len(col):
            return False
        for a, b in zip(vals, col):
            if a.startswith("s:"):
                return False
            if (a == "nan") != (isinstance(b, float) and math.isnan(b)):
                return False
            if a != "nan" and float.fromhex(a) != b:
                return False
    return all(vals is not None and len(vals) == len(exp[0]) and all(v == "nan" for v in vals) for _, vals in got[len(exp):])


def check_tags(secs, text):
    r = ld.read_full(text)
    if "err" in r:
        return "read-raises", r
    found, problems = ld.found_tags(r["ok"])
    if problems:
        return "tag-mixed", problems[:3]
    exp = ld.expected_tags(secs)
    for key in set(found) | set(exp):
        if found.get(key, []) != exp.get(key, []):
            return "tags", {"key": key, "expected": exp.get(key, []), "found": found.get(key, [])}
    if not data_ok(secs, r["ok"]):
        return "data", {"expected": ld.expected_data(secs), "found": r["ok"]["data"]}
    # ~Other is free text: EVERY physical line under its title (blank ones, lines that look like comments or items) is kept, stripped
    others = [s for s in secs if s["kind"] == "O"]
    if len(others) == 1 and all("\n" not in b[0] and "\r" not in b[0] for b in others[0]["body"]):
        exp_text = "\n".join(b[0].strip() for b in others[0]["body"])
        got = r["ok"]["sections"].get("Other")
        if got != exp_text:
            return "other-text", {"expected": exp_text, "found": got}
    return None, r


def plant(rng, secs):
    """copy of the document with a steering-named item planted in a ~C / ~P / custom section; None when there is none"""
    # a curve planted in ~C legitimately changes the number of columns a file DECLARED as wrapped is reshaped to
    wrapped = any(b[1] == "steer" and "WRAP" in b[0] and "YES" in b[0] for b in secs[0]["body"])
    cands = [i for i, s in enumerate(secs) if s["kind"] in ("P", "X") or (s["kind"] == "C" and not wrapped)]
    # ... and in the OTHER steering section: NULL steers from ~W only, VERS / WRAP / DLM from ~V only
    cands += [i for i, s in enumerate(secs) if s["kind"] in ("V", "W")]
    if not cands:
        return None
    i = rng.choice(cands)
    name = rng.choice(ld.STEERING)
    if secs[i]["kind"] == "V":
        name = "NULL"
    elif secs[i]["kind"] == "W":
        name = rng.choice(["VERS", "WRAP", "DLM"])
    a = [s for s in secs if s["kind"] == "A"]
    cell = "1.25" if (a and a[0]["ncols"] > 1 and a[0]["nrows"] > 0 and [0, 1] not in [list(x) for x in a[0]["nullcells"]]) else "0.25"
    value = {"VERS": rng.choice(["1.2", "abc", "3.0", "2.0"]), "WRAP": rng.choice(["YES", "NO"]), "NULL": rng.choice([cell, "100.25", "-1"]),
             "DLM": rng.choice(["COMMA", "TAB", "XYZ", "SPACE"])}[name]
    name = rng.choice([name, name, name.lower()])
    out = [ld.Sec(s) for s in secs]
    body = list(out[i]["body"])
    pos = rng.randint(0, len(body)) if out[i]["kind"] != "C" else len(body)
    body.insert(pos, (ld.item_line(rng, name, "", value, "planted"), "planted", None))
    out[i]["body"] = body
    return out, i, name, value


def drop_planted(items, name):
    # (in a version 1.2 ~Well section the description stands before the colon: the tag comes back as the VALUE)
    return [it for it in items if not (it[0].upper() == name.upper() and "planted" in (it[3], it[2]))]


def oracle(run, secs, eol, fin):
    text = ld.render(secs, eol, fin)
    case = {"text": text, "eol": eol, "expected_tags": ld.expected_tags(secs), "expected_data": ld.expected_data(secs)}
    clause, r = check_tags(secs, text)
    if clause:
        run.fail(clause, case, r)
        return
    base = r["ok"]
    # permutation of the sections after ~V
    rest = list(secs[1:])
    run.rng.shuffle(rest)
    text2 = ld.render([secs[0]] + rest, eol, fin)
    r2 = ld.read_full(text2)
    if "err" in r2 or r2["ok"]["sections"] != base["sections"] or r2["ok"]["data"] != base["data"]:
        run.fail("perm", {"text": text, "permuted": text2}, {"base": base, "permuted": r2})
    # planting a steering mnemonic
    pl = plant(run.rng, secs)
    if pl:
        secs3, i, name, value = pl
        text3 = ld.render(secs3, eol, fin)
        key = ld.route_key(secs3[i])
        for kw in ({}, {"engine": "normal"}):          # (a planted DLM shows in the engine that splits lines itself)
            if kw:
                rb = ld.read_full(text, **kw)
                if "err" in rb:
                    continue
                base_k = rb["ok"]
            else:
                base_k = base
            r3 = ld.read_full(text3, **kw)
            ok = "ok" in r3
            if ok:
                s3 = dict(r3["ok"]["sections"])
                if key in s3:
                    s3[key] = drop_planted(s3[key], name)
                ok = s3 == base_k["sections"]
                n = len(base_k["data"])
                ok = ok and r3["ok"]["data"][:n] == base_k["data"] if secs3[i]["kind"] == "C" else ok and r3["ok"]["data"] == base_k["data"]
            if not ok:
                run.fail("plant", {"text": text, "planted": text3, "name": name, "value": value, "section": key, "kw": kw}, {"base": base_k, "planted": r3})
                break


# ---------------------------------------------------------------------------------------------- correspondence
class Batch:
    def __init__(self, run):
        self.run = run
        self.pend = []

    def add(self, stream, text, ignore, case, in_domain=True):
        self.pend.append((stream, text, ignore, case, in_domain))
        if len(self.pend) >= 256:
            self.flush()

    def flush(self):
        run = self.run
        if not self.pend or run.model is None:
            self.pend = []
            return
        ans = run.model.ask([{"op": "rd.header", "text": t, "ignore": ig, "case": c} for (_, t, ig, c, _) in self.pend],
                            chunk=(1 if max(len(x[1]) for x in self.pend) > 4000 else 8))
        for (stream, text, ig, c, indom), m in zip(self.pend, ans):
            run.traces += 1
            if m == "unmodelled":
                run.dist["unmodelled"] += 1
                continue
            run.dist["compared"] += 1
            real = ld.read_real_header(text, ig, c)
            d = ld.header_diff(m, real)
            if d:
                run.disagree(stream + ":" + d, {"text": text, "ignore": ig, "case": c}, m, real, in_domain=indom)
            else:
                run.dist["outcome=" + ("ok" if "ok" in real else real["err"][0])] += 1
        self.pend = []


def corpus_texts():
    root = os.path.join(fw.REPO, "tests", "examples")
    for base, _, files in sorted(os.walk(root)):
        for fn in sorted(files):
            if not fn.lower().endswith(".las"):
                continue
            path = os.path.join(base, fn)
            raw = open(path, "rb").read()
            txt = None
            for enc in ("utf-8-sig", "cp1252", "latin-1"):
                try:
                    txt = raw.decode(enc)
                    break
                except UnicodeDecodeError:
                    continue
            if txt is None or "\x00" in txt:
                continue
            yield os.path.relpath(path, root), txt


NONASCII_TITLES = {"O": ["~Other \u2013 remarques g\u00e9n\u00e9rales", "~O \u00e9\u00e8\u00ea"], "C": ["~Curve \u2013 courbes \u00e9", "~C \u043a\u0440\u0438\u0432\u044b\u0435"],
                   "X": ["~Tops \u2013 \u043e\u0442\u043c\u0435\u0442\u043a\u0438", "~Zones \u00fc\u00f6\u00e4 \u20ac"], "P": ["~Parameter \u2013 param\u00e8tres"],
                   "W": ["~Well \u2013 puits n\u00b0 1"]}


def disk_titles(run, only=None):
    import lasio
    import shutil
    rng = run.rng
    tmp = os.path.join(fw.ROOT, ".scratch", "c05disk-%d" % os.getpid())
    os.makedirs(tmp, exist_ok=True)
    try:
        jobs = only
        if jobs is None:
            jobs = []
            for n in range(run.budget(40, 400)):
                secs = ld.gen_doc(rng)
                for s_ in secs:
                    if s_["kind"] in NONASCII_TITLES and rng.random() < 0.7:
                        s_["title"] = rng.choice(NONASCII_TITLES[s_["kind"]])
                jobs.append((ld.render(secs, "\n", True), rng.choice(["utf-8", "utf-8-sig", "utf-16"]), rng.choice(["\n", "\r\n"])))
        for k, (text, codec, eol) in enumerate(jobs):
            case = {"stream": "disk-titles", "text": text, "codec": codec, "eol": eol}
            run.case(case, nontrivial=True, tags=["disk-titles", codec])
            ref = ld.read_full(text)
            path = os.path.join(tmp, "d%d.las" % k)
            with open(path, "w", encoding=codec, newline="") as f:
                f.write(text.replace("\n", eol))
            kw = {} if codec == "utf-8-sig" else {"encoding": codec}
            try:
                got = {"ok": ld.dump_full(lasio.read(path, **kw))}
            except Exception as e:
                got = {"err": [type(e).__name__, str(e)[:300]]}
            if ("err" in ref) != ("err" in got) or ("ok" in ref and ref["ok"] != got["ok"]):
                run.fail("disk-read-differs", case, {"string": ref, "path": got})
    finally:
        shutil.rmtree(tmp, ignore_errors=True)


def run(run):
    rng = run.rng
    batch = Batch(run)
    fixed_inputs(run, batch)
    # (1) generated documents: oracle on the real code + correspondence
    for n in range(run.budget(1500, 40000)):
        spell = None if n % 3 else (n // 3) % 7
        secs = ld.gen_doc(rng, spell=spell)
        eol = rng.choice(["\n", "\n", "\r\n"])
        fin = rng.random() < 0.8
        text = ld.render(secs, eol, fin)
        kinds = [s["kind"] for s in secs]
        std = [k for k in kinds if k in "WCPO"]
        nontrivial = len(secs) >= 5 and (std != sorted(std, key="WCPO".index) or kinds[-1] != "A" or "X" in kinds)
        run.case({"text": text}, nontrivial=nontrivial, tags=["generated", "eol=" + ("crlf" if eol != "\n" else "lf"), "final-newline=%s" % fin,
                                                              "sections=%d" % len(secs), "A-last=%s" % (kinds[-1] == "A"), "custom=%d" % kinds.count("X")])
        oracle(run, secs, eol, fin)
        batch.add("generated", text, rng.random() < 0.3, rng.choice(["upper", "upper", "preserve", "lower"]))
    # (1b) the same documents ON DISK, with characters outside ASCII in the title lines, in encodings of more than one byte per
    # character (section windows are found by file positions there): the read by path gives what the read of the string gives
    disk_titles(run)
    # (2) all permutations of 5 sections x 3 title spellings (thorough) / a sample (quick): oracle only on tags
    import itertools
    base = None
    while base is None:
        cand = ld.gen_doc(rng, max_custom=1, spell=0)
        if [s["kind"] for s in cand].count("X") == 1 and len(cand) == 7:
            base = cand
    perms = list(itertools.permutations(range(1, len(base))))
    if run.tier == "quick":
        perms = rng.sample(perms, 60)
    for spell in (0, 3, 5):
        for s in base:
            if s["kind"] in ld.TITLES:
                s["title"] = ld.TITLES[s["kind"]][spell]
        for p in perms:
            secs = [base[0]] + [base[i] for i in p]
            text = ld.render(secs)
            run.case({"text": text}, nontrivial=True, tags=["all-perms"])
            clause, r = check_tags(secs, text)
            if clause:
                run.fail(clause, {"text": text, "expected_tags": ld.expected_tags(secs), "expected_data": ld.expected_data(secs)}, r)
            batch.add("perm", text, False, "upper")
    # (3) wild mutations: correspondence only (the property does not speak about them)
    for n in range(run.budget(2500, 60000)):
        text, tags = gen_wild(rng)
        if not ld.in_sigma(text):
            run.dist["outside-alphabet"] += 1
            continue
        run.case({"text": text}, nontrivial=True, tags=["wild"] + ["wild:" + t for t in tags])
        batch.add("wild", text, rng.random() < 0.5, rng.choice(["upper", "preserve", "lower"]))
    # (3b) small scope, exhaustive: every sequence of up to L lines over a 15-line vocabulary
    vocab = ["~V", "~W", " ~O", "~o", "~A", "~x y", "VERS. 1.2 : v", "NULL. 5 : n", "A.B 1 : d", "junk", "", "# c", "DLM. TAB : d", "~", "WRAP. NO : w"]
    n_small = 0
    for L in range(1, run.budget(3, 4) + 1):
        for tup in itertools.product(vocab, repeat=L):
            text = "\n".join(tup) + ("\n" if n_small % 3 else "")
            n_small += 1
            run.evaluations += 1
            if n_small % 53 == 0:
                run.case({"text": text}, nontrivial=True, tags=["small-scope-sample"])
            batch.add("small-scope", text, n_small % 2 == 0, ("upper", "preserve", "lower")[n_small % 3])
    run.dist["small-scope"] = n_small
    # (4) corpus
    for name, txt in corpus_texts():
        if not ld.in_sigma(txt):
            run.dist["corpus-outside-alphabet"] += 1
            continue
        if len(txt.splitlines()) < 2:
            continue
        run.case({"file": name}, nontrivial=True, tags=["corpus"])
        for ig in (False, True):
            batch.add("corpus:" + name, txt, ig, "upper", in_domain=True)
        batch.add("corpus:" + name, txt, True, "preserve", in_domain=True)
    batch.flush()
    total = run.dist["unmodelled"] + run.dist["compared"]
    if total:
        run.notes.append("unmodelled answers: %d of %d model requests (%.2f %%)" % (run.dist["unmodelled"], total, 100.0 * run.dist["unmodelled"] / total))
        if run.dist["unmodelled"] > 0.05 * total:
            raise fw.InfraError("more than 5 % of the cases are unmodelled")


def search(run, disagreements):
    """after a broken tie: look for a failing input of the property among fresh documents"""
    for n in range(run.budget(3000, 30000)):
        secs = ld.gen_doc(run.rng)
        oracle(run, secs, "\n", True)
        if run.failures:
            return


def replay(run, payload):
    c = payload["case"]
    clause = payload["clause"]
    if clause == "disk-read-differs":
        before = len(run.failures)
        disk_titles(run, only=[(c["text"], c["codec"], c["eol"])])
        return len(run.failures) == before
    if clause == "fixed-input":
        for text, data, keys in FIXED_INPUTS:
            if text == c["text"]:
                r = ld.read_full(text, engine=c["engine"])
                return "ok" in r and r["ok"]["data"] == data
        return True
    if clause == "perm":
        a, b = ld.read_full(c["text"]), ld.read_full(c["permuted"])
        return "ok" in a and "ok" in b and a["ok"] == b["ok"]
    if clause == "plant":
        kw = c.get("kw", {})
        a, b = ld.read_full(c["text"], **kw), ld.read_full(c["planted"], **kw)
        if "ok" not in a or "ok" not in b:
            return False
        s3 = dict(b["ok"]["sections"])
        s3[c["section"]] = drop_planted(s3[c["section"]], c["name"])
        n = len(a["ok"]["data"])
        return s3 == a["ok"]["sections"] and b["ok"]["data"][:n] == a["ok"]["data"]
    r = ld.read_full(c["text"])
    if "err" in r:
        return False
    found, problems = ld.found_tags(r["ok"])
    exp = c.get("expected_tags", {})
    return not problems and all(found.get(k, []) == exp.get(k, []) for k in set(found) | set(exp))


LEVEL_TEXT = ("Machine-checked Lean 4 theorems about an executable model of the header-level part of LASFile.read (title scan with inclusive line "
              "windows, section kind, the header-items loop and the ~Other loop with their stop conditions, SectionParser orders, routing into "
              "las.sections, steering variables): the windows of a rendered document are exactly its sections, each loop consumes exactly its own "
              "body, kind and routing key depend only on the upper-cased title letter, steering comes only from ~V and ~W sections, and a "
              "permutation of sections with distinct keys gives the same section map. Tie: differential comparison of the compiled model with "
              "lasio.read(ignore_data=True) and the property's oracle (tags, permutation, planted steering mnemonics) on the real code incl. data.")
LEVEL_NOTE = ("WHOLE FILE (Props/C05File.lean): C05_file_plant / C05_file_plant_named — an item named VERS / WRAP / DLM / NULL (any case) inserted into a header-item section in which that mnemonic does not steer (NULL outside ~W, VERS/WRAP/DLM outside ~V; ~Curves excluded because an extra declared curve changes the assignment) leaves the steering values, the curves of every data window and every other section unchanged and adds exactly its own item to that section; tightness: NULL in ~W and WRAP in ~V do steer; C05_file_curves_excluded. The data rows are not part of this model (oracle on the real code only; data-path model belongs to C02/C07). Indented titles are "
              "modelled faithfully (the ~Other loop does not strip) but are outside the property's quantifier. VERS values the model cannot "
              "classify exactly (comma, exponent, > 15 digits) are answered 'unmodelled' and not compared.")

RULE = RULE + ("; ALSO (fifth session): steering names planted in the OTHER steering section (NULL in ~V; VERS / WRAP / DLM in ~W) and read with both engines; ~Other text compared exactly (lines beginning with '#' are content); title spellings with an underscore for ~V / ~W; stream `disk-titles` (titles with characters outside ASCII, files in utf-8 / utf-8-sig / utf-16 read by path = the string read)")
