"""C13 — Duplicate and blank mnemonics: unique session names, originals preserved."""
import io
import re

from .. import framework as fw
from .. import secops

ID = "C13"
MODULE = "LasioProofs.Props.C13"
EXTRA_MODULES = ["LasioProofs.Props.C13File"]
RULE = ("(a) operation sequences over SectionItems (exhaustive to a length bound, then random to length 9) x mnemonic_transforms, real class vs "
        "Lean model after every step, and the C13 oracle after every step: session names pairwise distinct, each resolves to its own item by key "
        "and attribute, blank -> UNKNOWN, :1..:n numbering in order after an insertion, unique names untouched, originals = plain list model; "
        "(b) file round trips: documents with duplicate / blank / case-variant / X:<digits> mnemonics in ~W, ~C, ~P x mnemonic_case, read -> write "
        "-> read gives the same originals and session names, LASFile[name] resolves to its own curve. non-trivial = at least one duplicate group "
        "(>= 2 items sharing a useful name) exists in the final state")
TRUSTED = ["write()/read() glue for the file round trip is covered by correspondence + oracle only here (its theorems are C03's)"]
ASSUMPTIONS = ["NoSuffixClash: no original mnemonic equals another item's useful name followed by ':<digits>' (known finding otherwise)"]


def useful(o):
    return "UNKNOWN" if o.strip() == "" else o


def clash(origs, tr):
    key = (lambda s: s.upper()) if tr else (lambda s: s)
    us = [key(useful(o)) for o in origs]
    for a in us:
        m = re.match(r"^(.*):(\d+)$", a, flags=re.S)
        if m and m.group(1) in us and str(int(m.group(2))) == m.group(2):
            return True
        if m and m.group(1) in us:
            return True
    return False


def classify(failure):
    c = failure["case"]
    if failure["clause"] in ("distinct", "resolve", "resolve-attr", "lasfile-getitem", "roundtrip-sessions") and c.get("origs_clash"):
        return "suffix-clash"
    return None


def oracle(run, sec, case, after_insert_of=None, model_origs=None):
    tr = sec.mnemonic_transforms
    eq = (lambda a, b: a.upper() == b.upper()) if tr else (lambda a, b: a == b)
    items = list(list.__iter__(sec))
    origs = [i.original_mnemonic for i in items]
    case = dict(case, origs_clash=clash(origs, tr))
    names = [i.mnemonic for i in items]
    for a in range(len(items)):
        for b in range(a + 1, len(items)):
            if eq(names[a], names[b]):
                run.fail("distinct", case, dict(names=names))
                break
        else:
            continue
        break
    from lasio import SectionItems
    reserved = set(dir(sec))     # class attributes and plain instance attributes shadow item lookup (Python semantics)
    for i, it in enumerate(items):
        try:
            if sec[it.mnemonic] is not it:
                run.fail("resolve", case, dict(names=names, i=i))
        except Exception as e:
            run.fail("resolve", case, dict(names=names, i=i, exc=repr(e)))
        k = it.mnemonic
        if k.isidentifier() and k not in reserved:
            try:
                if getattr(sec, k) is not it:
                    run.fail("resolve-attr", case, dict(names=names, i=i))
            except Exception as e:
                run.fail("resolve-attr", case, dict(names=names, i=i, exc=repr(e)))
        if it.original_mnemonic.strip() == "" and not it.mnemonic.startswith("UNKNOWN"):
            run.fail("blank-unknown", case, dict(names=names, i=i))
    if after_insert_of is not None:
        u = useful(after_insert_of)
        grp = [it for it in items if eq(useful(it.original_mnemonic), u)]
        if len(grp) >= 2:
            exp = [useful(it.original_mnemonic) + ":%d" % (k + 1) for k, it in enumerate(grp)]
            if [it.mnemonic for it in grp] != exp:
                run.fail("numbering", case, dict(expected=exp, observed=[it.mnemonic for it in grp]))
        elif len(grp) == 1 and grp[0].mnemonic != useful(grp[0].original_mnemonic):
            run.fail("unique-untouched", case, dict(observed=grp[0].mnemonic))
    if model_origs is not None and origs != model_origs:
        run.fail("originals", case, dict(expected=model_origs, observed=origs))


def list_model(origs, op, sec_before):
    """plain-list effect of one operation on the list of original mnemonics (independent of lasio's suffix logic)"""
    o = list(origs)
    tr = sec_before.mnemonic_transforms
    eq = (lambda a, b: isinstance(b, str) and a.upper() == b.upper()) if tr else (lambda a, b: a == b)
    names = [i.mnemonic for i in list.__iter__(sec_before)]

    def find(k):
        return next((j for j, n in enumerate(names) if isinstance(k, str) and eq(n, k)), None)
    if op[0] == "append":
        o.append(op[1])
    elif op[0] == "insert":
        o.insert(op[1], op[2])
    elif op[0] == "del":
        j = find(op[1])
        if j is None and isinstance(op[1], int) and -len(o) <= op[1] < len(o):
            j = op[1]
        if j is not None:
            del o[j]
    elif op[0] == "pop":
        if -len(o) <= op[1] < len(o):
            o.pop(op[1])
    elif op[0] == "setitem":
        j = find(op[1])
        if j is None:
            o.append(op[2])
        else:
            o[j] = op[2]
    elif op[0] == "get":
        if op[3] and find(op[1]) is None:
            o.append(op[1])
    elif op[0] == "getdef":
        src = find(op[2]) if isinstance(op[2], str) else (op[2] if -len(o) <= op[2] < len(o) else None)
        if src is not None and op[3] and find(op[1]) is None:
            o.append(op[1])
    return o


def run_sequence(run, seq, tr, kind):
    sec = secops.new_section(tr)
    origs = []
    steps = []
    case = {"tr": tr, "ops": seq}
    for n, op in enumerate(seq):
        origs = list_model(origs, op, sec)
        r = secops.apply_real(sec, op)
        steps.append({"r": r, "items": secops.dump(sec), "probes": [secops.probe(sec, k) for k in secops.KEYS]})
        ins = op[1] if op[0] == "append" else op[2] if op[0] in ("insert", "setitem") else None
        if op[0] in ("get", "getdef") and len(origs) > len(secops.dump(sec)) - 0 and False:
            ins = None
        oracle(run, sec, {"tr": tr, "ops": seq[:n + 1]}, after_insert_of=ins, model_origs=origs)
    final = [useful(x[0]).upper() if tr else useful(x[0]) for x in steps[-1]["items"]]
    nontrivial = len(final) != len(set(final))
    run.case(case, nontrivial=nontrivial, tags=[kind, "len=%d" % len(seq), "dupgroups=%d" % (len(final) - len(set(final)))])
    return case, steps


NAMES = ["A", "a", "", "A:1", "B", "GR", " "]


def doc(rng, mode):
    """a small LAS document with awkward mnemonics in ~W, ~P and ~C"""
    def pick(n):
        return [rng.choice(NAMES) for _ in range(n)]
    well, par, cur = pick(rng.randint(0, 4)), pick(rng.randint(0, 4)), pick(rng.randint(1, 5))
    # extra ~Version items (duplicated / blank): write() emits a deep copy of this section, so its originals travel through
    # HeaderItem.__reduce__ on every write
    ver = pick(rng.choice([0, 0, 1, 2, 3]))
    if mode == "noclash":
        well, par, cur, ver = ([n for n in s if n != "A:1"] for s in (well, par, cur, ver))
        cur = cur or ["A"]
    lines = ["~Version", "VERS. 2.0 :", "WRAP. NO :"] + ["%s.U%d %d : v%d" % (n, i, i, i) for i, n in enumerate(ver)] + ["~Well", "STRT.M 10 :", "STOP.M 20 :", "STEP.M 10 :", "NULL. -999.25 :"]
    lines += ["%s.U%d %d : w%d" % (n, i, i, i) for i, n in enumerate(well)]
    lines += ["~Parameter"] + ["%s.U%d %d : p%d" % (n, i, i, i) for i, n in enumerate(par)]
    lines += ["~Curve", "DEPT.M : depth"] + ["%s.U%d : c%d" % (n, i, i) for i, n in enumerate(cur)]
    lines += ["~ASCII"] + [" ".join(str(r * 10 + j) for j in range(len(cur) + 1)) for r in range(1, 3)]
    return "\n".join(lines) + "\n", well, par, cur, ver


def roundtrip(run, rng):
    import lasio
    mode = "noclash"   # a ':' inside a mnemonic cannot be written to a header line (C04's conformance), so X:<digits> only occurs in (a)
    text, well, par, cur, ver = doc(rng, mode)
    mcase = rng.choice(["upper", "preserve", "lower"])
    case = {"text": text, "mnemonic_case": mcase}
    try:
        las = lasio.read(text, mnemonic_case=mcase)
    except Exception as e:
        run.case(case, tags=["roundtrip-unreadable"])
        return
    tr = mcase != "preserve"
    cm = {"upper": str.upper, "lower": str.lower, "preserve": (lambda s: s)}[mcase]
    dup = any(len(s) != len(set(cm(useful(x)).upper() if tr else useful(x) for x in s)) for s in (well, par, ["DEPT"] + cur, ver))
    run.case(case, nontrivial=dup, tags=["roundtrip", "case=" + mcase, "dup" if dup else "nodup"])
    exp = {"Version": ["VERS", "WRAP"] + ver, "Well": ["STRT", "STOP", "STEP", "NULL"] + well, "Parameter": par, "Curves": ["DEPT"] + cur}
    for name, origs in exp.items():
        sec = las.sections[name]
        c2 = dict(case, section=name)
        # header line names are stripped by the reader; blank names become ''
        oracle(run, sec, c2, model_origs=[cm(o.strip()) for o in origs])
    for c in las.curves:
        try:
            if las[c.mnemonic] is not c.data:
                run.fail("lasfile-getitem", dict(case, origs_clash=clash(["DEPT"] + cur, tr)), dict(key=c.mnemonic))
        except Exception as e:
            run.fail("lasfile-getitem", dict(case, origs_clash=clash(["DEPT"] + cur, tr)), dict(key=c.mnemonic, exc=repr(e)))
    out = io.StringIO()
    wver = rng.choice([1.2, 2.0])
    case = dict(case, write_version=wver)
    try:
        las.write(out, version=wver)
        las2 = lasio.read(out.getvalue(), mnemonic_case=mcase)
    except Exception as e:
        run.fail("roundtrip-raises", case, dict(exc=repr(e)))
        return
    for name in exp:
        a, b = las.sections[name], las2.sections[name]
        c2 = dict(case, section=name, origs_clash=clash([i.original_mnemonic for i in a], tr))
        if [i.original_mnemonic for i in a] != [i.original_mnemonic for i in b]:
            run.fail("roundtrip-originals", c2, dict(before=[i.original_mnemonic for i in a], after=[i.original_mnemonic for i in b]))
        elif a.keys() != b.keys():
            run.fail("roundtrip-sessions", c2, dict(before=a.keys(), after=b.keys()))


def curve_api(run):
    """the ~Curves section edited through the LASFile API (append / insert / delete / REPLACE of curves, by position and by name): after
    every operation the session names are distinct, resolve to their own curve (item, attribute, LASFile[...]), and the group of the
    curve just added is numbered in section order"""
    from . import c14
    tmpl = [t for t in c14.alphabet() if t[0] in ("append_curve", "insert_curve", "append_item", "insert_item", "replace_item", "delete_ix", "delete_mnem")
            and not (len(t) > 2 and t[-1] is False)]
    tmpl += [["replace_item", i, n, True] for i in (0, 1, 2, -1, -2) for n in ("A", "a", "", "B", "A:1")]
    rng = run.rng
    for n in range(run.budget(300, 4000)):
        seq = [rng.choice(tmpl[:9]) for _ in range(rng.randint(1, 3))] + [rng.choice(tmpl) for _ in range(rng.randint(1, 5))]
        curve_api_case(run, rng.choice(["fresh", "read-upper", "read-preserve"]), c14.with_values(seq))


def curve_api_case(run, start, ops):
    from . import c14
    case = {"stream": "curve-api", "start": start, "ops": ops}
    las = c14.new_las(start)
    dup = False
    for op in ops:
        r = c14.apply_real(las, op)
        added = None
        if r == "ok":
            added = {"append_curve": lambda: op[1], "insert_curve": lambda: op[2], "append_item": lambda: op[1][0],
                     "insert_item": lambda: op[2][0], "replace_item": lambda: op[2][0]}.get(op[0], lambda: None)()
        before = len(run.failures)
        oracle(run, las.curves, case, after_insert_of=added)
        case2 = dict(case, origs_clash=clash([c.original_mnemonic for c in list.__iter__(las.curves)], las.curves.mnemonic_transforms))
        for c in list(list.__iter__(las.curves)):
            try:
                if las[c.mnemonic] is not c.data:
                    run.fail("lasfile-getitem", case2, dict(name=c.mnemonic))
            except Exception as e:
                run.fail("lasfile-getitem", case2, dict(name=c.mnemonic, exc=repr(e)))
        names = [c.mnemonic for c in list.__iter__(las.curves)]
        dup = dup or any(":" in x for x in names)
        if len(run.failures) > before:
            break
    run.case(case, nontrivial=dup, tags=["curve-api", start])


def run(run):
    batch = []

    def flush():
        if not batch or run.model is None:
            batch.clear()
            return
        answers = run.model.ask([secops.request(c["ops"], c["tr"], secops.KEYS) for c, _ in batch])
        for (c, real), m in zip(batch, answers):
            run.traces += 1
            if m != real:
                step = next((i for i, (a, b) in enumerate(zip(m, real)) if a != b), None) if isinstance(m, list) else None
                run.disagree("SectionItems-state-machine", c, m[step] if step is not None else m,
                             real[step] if step is not None else None, in_domain=True)
        batch.clear()

    # known finding (suffix clash) is re-run through the oracle on every run
    run_sequence(run, secops.with_values([["append", "A:1"], ["append", "A"], ["append", "A"]]), False, "known-input")
    # directed: a duplicate group is thinned by a delete, then a survivor is REPLACED through its stale session name
    # (`params["RUN:2"] = HeaderItem("RUN")`), by an item of the same or of another name, then the name is added once more
    for n in (2, 3):
        for d in range(n):
            for keep in range(1, n + 1):
                if keep == d + 1:
                    continue
                for newname in ("A", "B", "a"):
                    seq = [["append", "A"]] * n + [["del", d], ["setitem", "A:%d" % keep, newname], ["append", "A"]]
                    for tr in (False, True):
                        batch.append(run_sequence(run, secops.with_values(seq), tr, "stale-replace"))
    for seq, kind in secops.sequences(run, 2, 3, 2500, 30000):
        for tr in (False, True):
            batch.append(run_sequence(run, seq, tr, kind))
            if len(batch) >= 256:
                flush()
    flush()
    for _ in range(run.budget(400, 6000)):
        roundtrip(run, run.rng)
    curve_api(run)


def search(run, disagreements):
    ops = secops.alphabet()
    for d in disagreements[:50]:
        run_sequence(run, d["case"]["ops"], d["case"]["tr"], "search")
    for _ in range(run.budget(5000, 50000)):
        seq = secops.with_values([run.rng.choice(ops) for _ in range(run.rng.randint(1, 8))])
        run_sequence(run, seq, run.rng.random() < 0.5, "search")
        if run.failures:
            return


def shrink(run, f):
    case = f["case"]
    if "ops" not in case:
        return f
    seq, tr = list(case["ops"]), case["tr"]

    def fails(s):
        probe = fw.Run(run.prop, run.tier, run.seed)
        run_sequence(probe, s, tr, "shrink")
        return next((x for x in probe.failures if x["clause"] == f["clause"]), None)
    best, changed = f, True
    while changed:
        changed = False
        for i in range(len(seq)):
            cand = seq[:i] + seq[i + 1:]
            r = fails(cand) if cand else None
            if r:
                seq, best, changed = cand, r, True
                break
    return best


def replay(run, payload):
    case = payload["case"]
    if case.get("stream") == "curve-api":
        curve_api_case(run, case["start"], case["ops"])
    elif "ops" in case:
        run_sequence(run, case["ops"], case["tr"], "replay")
    else:
        import random
        # file round-trip case: re-run on the recorded text
        import lasio
        rng = random.Random(0)
        text = case["text"]

        def fixed_doc(_rng, _mode):
            return text, [], [], [], []
        # simplest faithful replay: read/write/read and compare session names
        las = lasio.read(text, mnemonic_case=case["mnemonic_case"])
        out = io.StringIO()
        las.write(out, version=case.get("write_version", 2.0))
        las2 = lasio.read(out.getvalue(), mnemonic_case=case["mnemonic_case"])
        for name in ("Version", "Well", "Parameter", "Curves"):
            oracle(run, las.sections[name], dict(case, section=name))
            if las.sections[name].keys() != las2.sections[name].keys():
                run.fail("roundtrip-sessions", case, {})
    return not run.failures


LEVEL_TEXT = ("Machine-checked Lean 4 theorems over ALL operation histories (induction over the operation list, no length bound) of an executable "
              "model of SectionItems: originals evolve as a plain list (C13_originals_step), blanks become UNKNOWN, :1..:n numbering after an "
              "insertion (C13_numbering), unique names untouched, an inductive invariant (C13_inv_run) that yields pairwise-distinct session names "
              "under NoSuffixClash (C13_distinct) and resolution of every session name to its own item (C13_resolve); counter-example theorem for the "
              "hypothesis. Tie: per-step differential comparison with the real class + oracle; file round trips through the real reader/writer.")
LEVEL_NOTE = ("FILE LEVEL (Props/C13File.lean): the reader builds its sections like SectionItems.append (C13_read_is_sectionItems, "
              "C13_read_is_run: every theorem about Section.run transfers to sections obtained by reading; C13_read_distinct, C13_read_resolve, "
              "C13_read_names); C13_file_roundtrip: the header written for a conformant object — duplicated AND blank mnemonics included "
              "(BlankConf: no period in the unit and in the field before the colon) — reads back with the same originals in order, session names "
              "= those of a section built by appends from these originals, pairwise distinct, each resolving to its own item; "
              "C13_file_same_names_object: literally the object's own names when the object was itself built by appends (every section read built); "
              "counter-examples: stale suffix, X:1 clash, blank mnemonic with a period before the colon, white-space-only mnemonic, changed "
              "mnemonic_transforms. Known finding: an original mnemonic of the form X:<digits> next to >= 2 items named X collides with a generated suffix (R10a); carved "
              "out by the NoSuffixClash hypothesis = the classifier. LASFile[...] and file round trip are covered by oracle + correspondence only.")

RULE = RULE + ("; ALSO (fifth session): stream `curve-api` (append / insert / delete / REPLACE of curves through the LASFile API on fresh and read files, oracle after every operation, LASFile[name]); directed `stale-replace` sequences")
