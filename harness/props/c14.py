"""C14 — The curve collection behaves like an ordered list model under every edit history."""
import itertools

from .. import framework as fw

ID = "C14"
MODULE = "LasioProofs.Props.C14"
RULE = ("operation sequences over the LASFile curve API (append_curve, insert_curve, append/insert/replace_curve_item incl. a non-CurveItem, "
        "delete_curve by ix / mnemonic, update_curve by ix / mnemonic, las[k] = CurveItem / array, set_data with 2-D arrays narrower / as wide "
        "as / wider than the curve list, empty arrays, names None / short / equal / duplicated, truncate on/off; ~50 concrete operations), "
        "exhaustive up to a length bound, then random longer ones (<= 8), started from a fresh LASFile(), a file read with mnemonic_case=upper "
        "(duplicate curves, mnemonic_transforms on) and one read with mnemonic_case=preserve; pairs of LASFiles edited alternately. After "
        "the insertion of a curve the group of its name must be numbered :1..:n (insert-session-names); stream `aliasing`: one ndarray shared by "
        "several curves / two files, then updates of equal shape. After every step: real LASFile vs Lean model (result enum, originals, session names, unit/value/descr, arrays as cell tags, las.data, "
        "las.index, items(), las[k] for 9 probe keys) and vs an independent plain-Python list model (the oracle), six views compared. "
        "non-trivial = the final state holds >= 2 curves or some step raised")
TRUSTED = ["numpy array slicing / vstack / asarray (arrays are compared as lists of cell tags)",
           "Python list semantics for insert/pop index normalisation (modelled as pyInsertPos / pyIndex, compared on every run)"]
ASSUMPTIONS = ["the Lean model is functional (arrays are values); aliasing is exercised by the oracle only: stream `aliasing` hands the SAME ndarray "
               "to several curves and to both files of a pair and then updates one of them",
               "curve arrays are 1-D ndarrays, set_data receives a 2-D ndarray (not a DataFrame), names is None or a list of str",
               "C14_refines*: the state is well formed (one array per curve) — an invariant proved for every operation (C14_wf_step)",
               "C14_getitem_mnemonic_exact: mnemonic_transforms off, or session names distinct under the section's comparison "
               "(C13's Distinct); counter-example theorem otherwise"]

ERRS = ("KeyError", "ValueError", "IndexError", "AssertionError")
PROBES = ["A", "a", "A:1", "A:2", "UNKNOWN", "B", 0, -1, 3]

READ_TEXT = ("~Version\nVERS. 2.0 :\nWRAP. NO :\n~Well\nSTRT.M 1 :\nSTOP.M 2 :\nSTEP.M 1 :\nNULL. -999.25 :\n"
             "~Curve\nDEPT.M : depth\nA.U1 7 : first\na.U2 : second\n~ASCII\n1 11 21\n2 12 22\n")
STARTS = ["fresh", "read-upper", "read-preserve"]


def useful(o):
    return "UNKNOWN" if o.strip() == "" else o


# ------------------------------------------------------------------------------------------------ operations
def alphabet():
    """templates; arrays / values are attached by with_values"""
    ops = []
    ops += [["append_curve", n] for n in ("A", "a", "", "B", "A:1")]
    ops += [["append_shared", "S"]]     # the SAME ndarray object handed to every such call of a history (and to both files of a pair)
    ops += [["insert_curve", i, n] for i, n in ((0, "A"), (1, ""), (-1, "A"), (5, "B"), (-7, "a"))]
    ops += [["append_item", "B", True], ["append_item", "H", False]]
    ops += [["insert_item", 0, "A", True], ["insert_item", -1, "", True], ["insert_item", 1, "H", False]]
    ops += [["replace_item", 0, "A", True], ["replace_item", -1, "B", True], ["replace_item", 3, "A", True],
            ["replace_item", 0, "H", False]]
    ops += [["delete_ix", i] for i in (0, -1, 2, -4)]
    ops += [["delete_mnem", m] for m in ("A", "A:1", "a", "UNKNOWN", "ZZ")]
    # both selectors given: "the index takes precedence over the mnemonic" (the mnemonic may name another curve, or none)
    ops += [["delete_both", "A", 0], ["delete_both", "ZZ", -1], ["delete_both", "B", 1], ["update_both", "A", 0, "a"], ["update_both", "ZZ", 1, "udv"]]
    # flags: a = array, u = unit, d = descr, v = value
    ops += [["update_ix", 0, "a"], ["update_ix", -1, "udv"], ["update_ix", 4, "a"]]
    ops += [["update_mnem", "A:2", "au"], ["update_mnem", "B", "a"], ["update_mnem", "zz", "a"]]
    # metadata set to EMPTY strings (flag E): an update, not "no change"
    ops += [["update_ix", 0, "E"], ["update_mnem", "B", "aE"], ["update_ix", -1, "E"]]
    ops += ALIAS_OPS[1:]
    ops += [["setitem_curve", "A", "A"], ["setitem_curve", "B", "B"], ["setitem_curve", "A", "B"],
            ["setitem_curve", "UNKNOWN", ""]]
    ops += [["setitem_data", k] for k in ("A", "B", "A:1", "")]
    ops += [["set_data", 2, w, None, False] for w in (1, 2, 4)]
    ops += [["set_data", 2, 3, ["X"], False], ["set_data", 2, 3, ["X", "X", "Y"], False], ["set_data", 2, 2, ["A", "a", "q", "r", "s"], False],
            ["set_data", 2, 2, [], False]]
    ops += [["set_data_prop", 2, 3], ["set_data_prop", 2, 1], ["set_data_df", 2, 3, ["X", "Y", "X"]], ["set_data_df", 2, 2, ["DEPT", "Q"]]]
    ops += [["set_data", 2, 4, None, True], ["set_data", 3, 1, ["Z"], True], ["set_data", 0, 2, None, False],
            ["set_data", 2, 0, ["N"], False], ["set_data", 0, 3, None, True]]
    return ops


# sub-alphabet of the aliasing stream: several curves (and both files of a pair) hold the same ndarray, then one of them is updated
ALIAS_OPS = [["append_shared", "S"], ["update_ix", 1, "a"], ["update_mnem", "S:1", "a"], ["update_mnem", "S", "a"], ["setitem_data", "S:2"],
             ["setitem_data", "S"]]

GROW = 13   # the first GROW templates only add curves (used to bias long random sequences)


def arr(tag, n):
    return [str(1000 * tag + i) for i in range(n)]


def with_values(seq):
    """concrete ops in the driver's JSON shape; op number c gives the cell tags 1000*c + i"""
    out = []
    for c, op in enumerate(seq, 1):
        k = op[0]
        n = 3 if c % 4 == 0 else 1 if c % 5 == 0 else 2     # mostly equal lengths, sometimes not (las.data -> ValueError); length 1 too
        if k == "append_curve":
            out.append([k, op[1], "u%d" % c, "v%d" % c, "d%d" % c, arr(c, n)])
        elif k == "append_shared":
            out.append(["append_curve", op[1], "u%d" % c, "v%d" % c, "d%d" % c, list(SHARED_CELLS)])
        elif k == "insert_curve":
            out.append([k, op[1], op[2], "u%d" % c, "v%d" % c, "d%d" % c, arr(c, n)])
        elif k == "append_item":
            out.append([k, [op[1], useful(op[1]), "u%d" % c, "v%d" % c, "d%d" % c, arr(c, n)], op[2]])
        elif k in ("insert_item", "replace_item"):
            out.append([k, op[1], [op[2], useful(op[2]), "u%d" % c, "v%d" % c, "d%d" % c, arr(c, n)], op[3]])
        elif k in ("update_ix", "update_mnem"):
            f = op[2]
            out.append([k, op[1], arr(c, n) if "a" in f else None, "" if "E" in f else ("U%d" % c) if "u" in f else None,
                        "" if "E" in f else ("D%d" % c) if "d" in f else None, "" if "E" in f else ("V%d" % c) if "v" in f else None])
        elif k == "update_both":
            f = op[3]
            out.append(["update_ix", op[2], arr(c, n) if "a" in f else None, ("U%d" % c) if "u" in f else None,
                        ("D%d" % c) if "d" in f else None, ("V%d" % c) if "v" in f else None, op[1]])   # 7th element: a mnemonic passed as well
        elif k == "delete_both":
            out.append(["delete_ix", op[2], op[1]])       # 3rd element: a mnemonic passed as well (real side only)
        elif k == "setitem_curve":
            out.append([k, op[1], [op[2], useful(op[2]), "u%d" % c, "v%d" % c, "d%d" % c, arr(c, n)]])
        elif k == "setitem_data":
            out.append([k, op[1], arr(c, n)])
        elif k == "set_data":
            rows = [[str(1000 * c + 10 * r + j) for j in range(op[2])] for r in range(op[1])]
            out.append([k, rows, op[3], op[4], [op[1], op[2]]])   # 5th element: the shape, for the real side only
        elif k == "set_data_prop":      # `las.data = array` is set_data(array)
            rows = [[str(1000 * c + 10 * r + j) for j in range(op[2])] for r in range(op[1])]
            out.append(["set_data", rows, None, False, [op[1], op[2]], "prop"])
        elif k == "set_data_df":        # set_data(DataFrame) is set_data(values incl. the index, names = index name + column labels)
            rows = [[str(1000 * c + 10 * r + j) for j in range(op[2])] for r in range(op[1])]
            out.append(["set_data", rows, list(op[3]), False, [op[1], op[2]], "df"])
        else:
            out.append(list(op))
    return out


def with_values_alias(seq):
    """like with_values, but every array has the length of the shared one (an update of equal shape is where aliasing would show)"""
    out = with_values(seq)
    for o in out:
        for i, x in enumerate(o):
            if isinstance(x, list) and x and all(isinstance(y, str) for y in x) and len(x) == 3 and x != SHARED_CELLS and o[0] != "set_data":
                o[i] = x[:2]
    return out


def model_op(op):
    if op[0] == "delete_ix":
        return op[:2]
    if op[0] == "update_ix":
        return op[:6]
    return op[:4] if op[0] == "set_data" else op


# ------------------------------------------------------------------------------------------------ real side
def tag(x):
    import numpy as np
    if isinstance(x, (float, np.floating)):
        return str(int(x)) if x == x and abs(x) < 1e15 and float(int(x)) == float(x) else repr(float(x))
    return str(x)


def cells(a):
    import numpy as np
    a = np.asarray(a)
    if a.ndim != 1:
        return ["<not 1-D: %r>" % (a.tolist(),)]
    return [tag(x) for x in a.tolist()]


_LIVE = {}        # {"cells": [...], "arr": ndarray}: the array object of a LIVE curve handed back to the API (ops *_from)
SHARED_CELLS = ["7", "8"]
_SHARED = {}      # per history: the one ndarray behind every curve created with SHARED_CELLS (cleared by run_sequence / run_pair)


def nparr(c):
    import numpy as np
    if _LIVE.get("cells") == list(c):
        return _LIVE["arr"]
    if list(c) == SHARED_CELLS:
        # aliasing on purpose: lasio stores the caller's array; no operation of the curve API may change it in place, so the
        # other curves / the other LASFile holding the same object keep their values (the list model holds copies)
        if "a" not in _SHARED:
            _SHARED["a"] = np.array([float(x) for x in c], dtype=float)
        return _SHARED["a"]
    return np.array([float(x) for x in c], dtype=float)


def mk_item(spec, curve=True):
    from lasio import CurveItem, HeaderItem
    if curve:
        return CurveItem(spec[0], spec[2], spec[3], spec[4], nparr(spec[5]))
    return HeaderItem(spec[0], spec[2], spec[3], spec[4])


def new_las(start):
    import lasio
    if start == "fresh":
        return lasio.LASFile()
    return lasio.read(READ_TEXT, mnemonic_case="upper" if start == "read-upper" else "preserve")


def dump(las):
    return [[c.original_mnemonic, c.mnemonic, str(c.unit), str(c.value), str(c.descr), cells(c.data)]
            for c in list.__iter__(las.curves)]


def apply_real(las, op):
    import numpy as np
    k = op[0]
    try:
        if k == "append_curve":
            las.append_curve(op[1], nparr(op[5]), unit=op[2], value=op[3], descr=op[4])
        elif k == "insert_curve":
            las.insert_curve(op[1], op[2], nparr(op[6]), unit=op[3], value=op[4], descr=op[5])
        elif k == "append_item":
            las.append_curve_item(mk_item(op[1], op[2]))
        elif k == "insert_item":
            las.insert_curve_item(op[1], mk_item(op[2], op[3]))
        elif k == "replace_item":
            las.replace_curve_item(op[1], mk_item(op[2], op[3]))
        elif k == "delete_ix":
            if len(op) > 2:
                las.delete_curve(mnemonic=op[2], ix=op[1])
            else:
                las.delete_curve(ix=op[1])
        elif k == "delete_mnem":
            las.delete_curve(mnemonic=op[1])
        elif k in ("update_ix", "update_mnem"):
            kw = {}
            if op[2] is not None:
                kw["data"] = nparr(op[2])
            if op[3] is not None:
                kw["unit"] = op[3]
            if op[4] is not None:
                kw["descr"] = op[4]
            if op[5] is not None:
                kw["value"] = op[5]
            if k == "update_ix" and len(op) > 6:
                las.update_curve(mnemonic=op[6], ix=op[1], **kw)
            elif k == "update_ix":
                las.update_curve(ix=op[1], **kw)
            else:
                las.update_curve(mnemonic=op[1], **kw)
        elif k == "setitem_curve":
            las[op[1]] = mk_item(op[2])
        elif k == "setitem_data":
            las[op[1]] = nparr(op[2])
        elif k == "set_data":
            shape = op[4]
            a = np.array([[float(x) for x in r] for r in op[1]], dtype=float)
            if a.shape != (shape[0], shape[1]):          # (empty shapes); otherwise an OWNING array, as a caller's table is
                a = a.reshape(shape[0], shape[1])
            route = op[5] if len(op) > 5 else None
            if route == "prop":
                las.data = a
            elif route == "df":
                import pandas as pd
                df = pd.DataFrame(a[:, 1:], columns=list(op[2])[1:], index=pd.Index(a[:, 0], name=op[2][0]))
                las.set_data(df)
            else:
                las.set_data(a, names=None if op[2] is None else list(op[2]), truncate=op[3])
        else:
            raise RuntimeError("unknown op " + k)
        return "ok"
    except Exception as e:     # anything but the four modelled classes shows up as a result mismatch
        return type(e).__name__


def exc(f):
    try:
        return f()
    except Exception as e:
        return type(e).__name__


def views(las):
    """everything the model answers per step, taken from the real object through its public API"""
    def data():
        d = las.data
        return [cells(r) for r in d] if d.ndim == 2 else "shape"
    return {"data": exc(data), "index": exc(lambda: cells(las.index)),
            "items": exc(lambda: [[k, cells(v)] for k, v in las.items()]),
            "get": [exc(lambda k=k: cells(las[k])) for k in PROBES]}


# ------------------------------------------------------------------------------------------------ the oracle
class ListModel:
    """An ordinary Python list of curves (original name, unit, value, descr, array).  Written from the property text,
    independently of lasio and of the Lean model.  A mnemonic argument is resolved in the list of session names
    `keys` that the real object shows BEFORE the operation (keys.index)."""

    def __init__(self, curves):
        self.l = [dict(name=c[0], unit=c[2], value=c[3], descr=c[4], data=list(c[5])) for c in curves]

    @staticmethod
    def cv(spec):
        return dict(name=spec[0], unit=spec[2], value=spec[3], descr=spec[4], data=list(spec[5]))

    def update(self, j, op):
        c = self.l[j]   # IndexError propagates like list indexing
        if op[2] is not None:
            c["data"] = list(op[2])
        if op[3] is not None:
            c["unit"] = op[3]
        if op[4] is not None:
            c["descr"] = op[4]
        if op[5] is not None:
            c["value"] = op[5]

    def apply(self, op, keys):
        l, k = self.l, op[0]
        try:
            if k == "append_curve":
                l.append(dict(name=op[1], unit=op[2], value=op[3], descr=op[4], data=list(op[5])))
            elif k == "insert_curve":
                l.insert(op[1], dict(name=op[2], unit=op[3], value=op[4], descr=op[5], data=list(op[6])))
            elif k == "append_item":
                if not op[2]:
                    raise AssertionError
                l.append(self.cv(op[1]))
            elif k == "insert_item":
                if not op[3]:
                    raise AssertionError
                l.insert(op[1], self.cv(op[2]))
            elif k == "replace_item":      # delete + insert at the same position
                l.pop(op[1])
                if not op[3]:
                    raise AssertionError
                l.insert(op[1], self.cv(op[2]))
            elif k == "delete_ix":
                l.pop(op[1])
            elif k == "delete_mnem":
                l.pop(keys.index(op[1]))
            elif k == "update_ix":
                self.update(op[1], op)
            elif k == "update_mnem":
                self.update(keys.index(op[1]), op)
            elif k == "setitem_curve":
                if op[1] != useful(op[2][0]):
                    raise KeyError
                if op[1] in keys:
                    l[keys.index(op[1])] = self.cv(op[2])
                else:
                    l.append(self.cv(op[2]))
            elif k == "setitem_data":
                if op[1] in keys:
                    l[keys.index(op[1])]["data"] = list(op[2])
                else:
                    l.append(dict(name=op[1], unit="", value="", descr="", data=list(op[2])))
            elif k == "set_data":
                nrows, width = op[4]
                rows, names, truncate = op[1], op[2], op[3]
                if truncate:
                    width = min(width, len(l))
                if nrows * width > 0:
                    while len(l) < width:
                        l.append(dict(name="", unit="", value="", descr="", data=[]))
                    nm = list(names) if names else [c["name"] for c in l]
                    nm += [""] * (len(l) - len(nm))
                    for i, c in enumerate(l):
                        c["name"] = nm[i]
                        c["data"] = [r[i] for r in rows] if i < width else [][i]   # narrower array: IndexError half-way
            return "ok"
        except (KeyError, ValueError, IndexError, AssertionError) as e:
            return type(e).__name__

    def state(self):
        return [[c["name"], c["unit"], c["value"], c["descr"], c["data"]] for c in self.l]


def oracle_views(run, las, lm, case):
    """the six views of the real object against the plain list model"""
    st = lm.state()
    real = dump(las)
    if [[c[0], c[2], c[3], c[4], c[5]] for c in real] != st:
        run.fail("list-model", case, dict(expected=st, observed=real))
        return
    keys = [c[1] for c in real]
    if exc(lambda: list(las.keys())) != keys:
        run.fail("keys", case, dict(expected=keys))
    if exc(lambda: [cells(v) for v in las.values()]) != [c[4] for c in st]:
        run.fail("values", case, None)
    if exc(lambda: [[k, cells(v)] for k, v in las.items()]) != [[k, c[4]] for k, c in zip(keys, st)]:
        run.fail("items", case, None)
    if exc(lambda: [list(las.iterkeys()), [cells(v) for v in las.itervalues()], [[k, cells(v)] for k, v in las.iteritems()]]) != \
            [keys, [c[4] for c in st], [[k, c[4]] for k, c in zip(keys, st)]]:
        run.fail("iter-views", case, None)
    cd = exc(lambda: las.curvesdict)
    if not isinstance(cd, dict) or any(cd.get(k) is not list.__getitem__(las.curves, len(keys) - 1 - keys[::-1].index(k)) for k in keys):
        run.fail("curvesdict", case, dict(keys=keys))          # a dict keyed by session mnemonic (the last one wins)
    for k in sorted(set(keys + ["A", "a", "ZZ"])):
        got = exc(lambda: las.get_curve(k))
        want_item = list.__getitem__(las.curves, keys.index(k)) if k in keys else None
        if got is not want_item:
            run.fail("get_curve", case, dict(key=k))
    want = st[0][4] if st else "IndexError"
    if exc(lambda: cells(las.index)) != want:
        run.fail("index", case, dict(expected=want))
    lens = set(len(c[4]) for c in st)
    if st and len(lens) == 1:
        try:
            d = las.data
            cols = [cells(d[:, i]) for i in range(len(st))]
            if d.shape != (lens.pop(), len(st)) or cols != [c[4] for c in st]:
                run.fail("data-columns", case, dict(observed=cols))
        except Exception as e:
            run.fail("data-columns", case, dict(exc=repr(e)))
    elif not st:
        if exc(lambda: las.data.shape) != (0, 0):      # no curves: the empty 2-D array
            run.fail("data-empty", case, None)
    else:
        if exc(lambda: las.data.shape) != "ValueError":
            run.fail("data-unequal", case, None)
    for i in range(-len(st) - 1, len(st) + 1):
        want = st[i][4] if -len(st) <= i < len(st) else "IndexError"
        if exc(lambda: cells(las[i])) != want:
            run.fail("getitem-int", case, dict(i=i, expected=want))
    tr = las.curves.mnemonic_transforms
    up = [k.upper() for k in keys]
    for k in sorted(set(keys + ["A", "a", "A:1", "ZZ", "UNKNOWN"])):
        if k in keys:
            ambiguous = tr and up.index(k.upper()) != keys.index(k)   # outside C14_getitem_mnemonic_exact's hypothesis
            want = st[keys.index(k)][4]
            got = exc(lambda: cells(las[k]))
            if got != want and not ambiguous:
                run.fail("getitem-mnemonic", case, dict(key=k, expected=want, observed=got))
        elif exc(lambda: cells(las[k])) != "KeyError":
            run.fail("getitem-mnemonic-absent", case, dict(key=k))


# ------------------------------------------------------------------------------------------------ one history
def expected_session_names(names, tr, only=None):
    """session names after the duplicate suffixes of the groups in `only` (None: every group) have been (re)assigned: a unique
    name is bare, k items sharing a name are name:1..name:k in order (C13's numbering, from the plain list of original names)"""
    eqn = (lambda a, b: a.upper() == b.upper()) if tr else (lambda a, b: a == b)
    out = {}
    for i, nm in enumerate(names):
        if only is not None and not eqn(useful(nm), useful(only)):
            continue
        grp = [j for j, x in enumerate(names) if eqn(useful(x), useful(nm))]
        out[i] = useful(nm) if len(grp) == 1 else useful(nm) + ":%d" % (grp.index(i) + 1)
    return out


def inserted_name(op, want, keys_before):
    """the original name of the curve an operation inserted (None: it inserted nothing)"""
    k = op[0]
    if want != "ok":
        return None
    if k == "append_curve":
        return op[1]
    if k == "insert_curve":
        return op[2]
    if k == "append_item":
        return op[1][0]
    if k in ("insert_item", "replace_item", "setitem_curve"):
        return op[2][0]
    if k == "setitem_data" and op[1] not in keys_before:
        return op[1]
    return None


def run_sequence(run, seq, start, kind):
    _SHARED.clear()
    las = new_las(start)
    init = dump(las)
    lm = ListModel(init)
    tr = bool(las.curves.mnemonic_transforms)
    case = {"start": start, "ops": seq}
    steps, raised = [], False
    conc = []
    for op in seq:
        _LIVE.clear()
        if op[0] in ("setitem_from", "update_from"):
            # the array OBJECT of a live curve goes back into the API; for the models it is an ordinary array of these cells
            try:
                live = las[op[2]]
            except Exception:
                continue
            _LIVE.update(cells=cells(live), arr=live)
            op = ["setitem_data", op[1], cells(live)] if op[0] == "setitem_from" else ["update_ix", op[1], cells(live), None, None, None]
        conc.append(op)
        n = len(conc) - 1
        keys = [c.mnemonic for c in list.__iter__(las.curves)]
        want = lm.apply(op, keys)
        r = apply_real(las, op)
        _LIVE.clear()
        raised = raised or r != "ok"
        c2 = {"start": start, "ops": conc[:n + 1]}
        if r != want:
            run.fail("result", c2, dict(expected=want, observed=r))
        oracle_views(run, las, lm, c2)
        ins = inserted_name(op, want, keys)
        if ins is not None and r == "ok":
            # an insertion re-assigns the suffixes of the inserted name's group: that group is numbered :1..:n in order, a unique
            # name stays bare (so that mnemonic indexing reaches the new curve under the documented key)
            exp = expected_session_names([c["name"] for c in lm.l], tr, only=ins)
            got = list(las.keys())
            bad = [i for i, kx in exp.items() if i >= len(got) or got[i] != kx]
            if bad:
                run.fail("insert-session-names", c2, dict(index=bad[0], expected=exp[bad[0]], observed=got[bad[0]] if bad[0] < len(got) else None))
        if op[0] == "set_data" and r == "ok" and len(op[1]) > 0 and len(op[1][0]) > 0:      # (an empty array renames nothing)
            # set_data names the curves and re-assigns every duplicate suffix: afterwards a curve whose name is unique must be
            # reachable under exactly that name, duplicates under name:1..name:n in order (mnemonic indexing agrees with the list model)
            names = [c["name"] for c in lm.l]
            eqn = (lambda a, b: a.upper() == b.upper()) if tr else (lambda a, b: a == b)
            for i, nm in enumerate(names):
                grp = [j for j, x in enumerate(names) if eqn(useful(x), useful(nm))]
                want_key = useful(nm) if len(grp) == 1 else useful(nm) + ":%d" % (grp.index(i) + 1)
                got_key = list(las.keys())[i] if i < len(las.keys()) else None
                if got_key != want_key:
                    run.fail("set_data-session-names", c2, dict(index=i, expected=want_key, observed=got_key))
                    break
        st = dict(r=r, curves=dump(las), spec=lm.state())
        st.update(views(las))
        steps.append(st)
    case = {"start": start, "ops": conc}
    run.case(case, nontrivial=(raised or len(las.curves) >= 2),
             tags=[kind, start, "len=%d" % len(conc), "curves=%d" % min(len(las.curves), 6)])
    req = {"op": "cv.run", "tr": tr, "init": init, "ops": [model_op(o) for o in conc], "probes": PROBES}
    return case, req, steps


def compare(run, case, m, steps):
    run.traces += 1
    if not isinstance(m, list) or len(m) != len(steps):
        run.disagree("curves-state-machine", case, m, None, in_domain=True)
        return
    for i, (a, b) in enumerate(zip(m, steps)):
        if not a.get("wf") or not a.get("absok"):
            run.disagree("model-invariant(wf/abs=spec)", case, a, None, in_domain=True)
            return
        ma = {k: a[k] for k in ("r", "curves", "spec", "data", "index", "items", "get")}
        if ma != b:
            diff = [k for k in ma if ma[k] != b[k]]
            run.disagree("curves-state-machine", dict(case, step=i, fields=diff), {k: ma[k] for k in diff},
                         {k: b[k] for k in diff}, in_domain=True)
            return


def run_pair(run, seq, which, starts, kind):
    """two LASFiles edited alternately: the untouched one must not change (oracle), both follow the product model"""
    _SHARED.clear()
    a, b = new_las(starts[0]), new_las(starts[1])
    case = {"pair": starts, "ops": seq, "which": which}
    ia, ib = dump(a), dump(b)
    steps = []
    for n, (w, op) in enumerate(zip(which, seq)):
        tgt, oth = (b, a) if w else (a, b)
        before = (dump(oth), views(oth), oth.curves.mnemonic_transforms)
        apply_real(tgt, op)
        if (dump(oth), views(oth), oth.curves.mnemonic_transforms) != before:
            run.fail("two-objects", {"pair": starts, "ops": seq[:n + 1], "which": which[:n + 1]}, dict(changed="other LASFile"))
        steps.append({"a": dump(a), "b": dump(b)})
    run.case(case, nontrivial=len(a.curves) + len(b.curves) >= 2, tags=[kind, "pair"])
    req = {"op": "cv.run2", "a": {"tr": bool(a.curves.mnemonic_transforms), "init": ia},
           "b": {"tr": bool(b.curves.mnemonic_transforms), "init": ib},
           "ops": [[1 if w else 0, model_op(o)] for w, o in zip(which, seq)]}
    return case, req, steps


def sequences(run):
    ops = alphabet()
    L = 2 if run.tier == "quick" else 3
    for n in range(1, L + 1):
        for seq in itertools.product(ops, repeat=n):
            yield with_values(seq), "exhaustive"
    for _ in range(run.budget(3000, 60000)):
        n = run.rng.randint(L + 1, 8)
        seq = [run.rng.choice(ops[:GROW]) if run.rng.random() < 0.4 else run.rng.choice(ops) for _ in range(n)]
        yield with_values(seq), "random"


VIEW_OPS = [["setitem_from", "X", "Y"], ["setitem_from", "Y", "Z"], ["setitem_from", "Z", "X"], ["update_from", 0, "Z"], ["update_from", 2, 0],
            ["update_from", 1, "X"], ["delete_ix", 1], ["setitem_from", "NEW", "X"], ["append_curve", "B"], ["insert_curve", 0, "A"],
            ["set_data", 2, 3, None, False]]


def views_sequence(rng):
    """curves that are column VIEWS of one 2-D block (set_data with an owning array), then arrays taken from live curves are
    handed back to the API: `las['X'] = las['Y']`, update_curve(ix=0, data=las['Z']), ..."""
    return [["set_data", 2, 3, ["X", "Y", "Z"], False]] + [rng.choice(VIEW_OPS) for _ in range(rng.randint(1, 4))]


def alias_sequence(rng):
    n = rng.randint(3, 6)
    seq = [["append_shared", "S"]] * rng.choice([1, 2, 2, 3])
    extra = ALIAS_OPS + [["update_ix", 0, "a"], ["delete_ix", 0], ["append_curve", "B"]]
    seq = seq + [rng.choice(extra) for _ in range(max(1, n - len(seq)))]
    return seq


def run(run):
    batch = []

    def flush():
        if batch and run.model is not None:
            answers = run.model.ask([req for _, req, _, _ in batch], chunk=16)
            for (case, _, steps, pair), m in zip(batch, answers):
                if pair:
                    run.traces += 1
                    if m != steps:
                        run.disagree("two-objects-product-model", case, m, steps, in_domain=True)
                else:
                    compare(run, case, m, steps)
        batch.clear()

    nseq = 0
    for seq, kind in sequences(run):
        nseq += 1
        # exhaustive sequences run from every start; random ones from one start each
        starts = STARTS if (kind == "exhaustive" and len(seq) <= 2) else [STARTS[nseq % 3]]
        for start in starts:
            case, req, steps = run_sequence(run, seq, start, kind)
            batch.append((case, req, steps, False))
        if len(batch) >= 128:
            flush()
    flush()
    for _ in range(run.budget(300, 6000)):
        case, req, steps = run_sequence(run, with_values(views_sequence(run.rng)), run.rng.choice(STARTS), "views")
        if steps:
            batch.append((case, req, steps, False))
    for _ in range(run.budget(300, 6000)):
        case, req, steps = run_sequence(run, with_values_alias(alias_sequence(run.rng)), run.rng.choice(STARTS), "aliasing")
        batch.append((case, req, steps, False))
        if len(batch) >= 128:
            flush()
    flush()
    ops = alphabet()
    for it in range(run.budget(900, 15000)):
        if it % 3 == 2:
            seq = with_values_alias(alias_sequence(run.rng))
            n = len(seq)
        else:
            n = run.rng.randint(2, 8)
            seq = with_values([run.rng.choice(ops[:GROW]) if run.rng.random() < 0.4 else run.rng.choice(ops) for _ in range(n)])
        which = [run.rng.random() < 0.5 for _ in range(n)]
        starts = [run.rng.choice(STARTS), run.rng.choice(STARTS)]
        case, req, steps = run_pair(run, seq, which, starts, "pair")
        batch.append((case, req, steps, True))
        if len(batch) >= 128:
            flush()
    flush()


def search(run, disagreements):
    ops = alphabet()
    for d in disagreements[:50]:
        c = d["case"]
        if "start" in c:
            run_sequence(run, c["ops"], c["start"], "search")
    for _ in range(run.budget(4000, 40000)):
        seq = with_values([run.rng.choice(ops) for _ in range(run.rng.randint(1, 8))])
        run_sequence(run, seq, run.rng.choice(STARTS), "search")
        if run.failures:
            return


def shrink(run, f):
    case = f["case"]
    if "start" not in case:
        return f
    seq, start = list(case["ops"]), case["start"]

    def fails(s):
        probe = fw.Run(run.prop, run.tier, run.seed)
        run_sequence(probe, s, start, "shrink")
        return next((x for x in probe.failures if x["clause"] == f["clause"]), None)
    best, changed = f, True
    while changed:
        changed = False
        for i in range(len(seq)):
            cand = seq[:i] + seq[i + 1:]
            r = fails(cand) if cand else None
            if r:
                seq, best, changed = cand, r, True
                break
    return best


def replay(run, payload):
    case = payload["case"]
    if "start" in case:
        run_sequence(run, case["ops"], case["start"], "replay")
    elif "pair" in case:
        run_pair(run, case["ops"], case["which"], case["pair"], "replay")
    return not run.failures


LEVEL_TEXT = ("Machine-checked Lean 4 theorems over ALL operation histories (induction over the operation list, no length bound) of an executable "
              "model of the LASFile curve API built on the SectionItems model of C13: every operation refines the same operation on a plain list of "
              "(original name, unit, value, descr, array) (C14_refines, lifted to histories by C14_refines_run), including the half-way failure of "
              "set_data with a narrower array and the delete-then-assert order of replace_curve_item; well-formedness is invariant (C14_wf_step); "
              "re-suffixing all groups is independent of the iteration order of the Python set (C14_assignAll_order); the views are functions of the "
              "state (C14_views*, C14_data_column), two LASFiles stepped alternately evolve independently (C14_two_objects), truncate drops the surplus "
              "columns and adds no curve (C14_set_data_truncate). Tie: per-step differential comparison with the real LASFile + independent list-model "
              "oracle on every step.")
LEVEL_NOTE = ("las[mnemonic] on a section with mnemonic_transforms resolves by the section's case-insensitive comparison after an exact membership "
              "test; it is the first exactly-equal session name when transforms are off or session names are distinct (C13's hypothesis) — counter-example "
              "theorem C14_counterexample_getitem_transforms otherwise. Aliasing of item/array objects is outside the functional model.")

RULE = RULE + ("; ALSO (fifth session): operations with BOTH selectors (`delete_curve(mnemonic=, ix=)`, `update_curve(mnemonic=, ix=)`: the index wins) and updates with EMPTY metadata strings")
