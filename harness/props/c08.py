"""C08 — header values become numbers exactly when they are plain decimal literals; API/UWI and ~Curves API codes stay text."""
import itertools
import math
import os
import re
import tempfile
from fractions import Fraction

from .. import framework as fw

ID = "C08"
MODULE = "LasioProofs.Props.C08"
EXTRA_MODULES = ["LasioProofs.Props.C08File"]
ALPHA = "07+-.,eE_ x/:1"          # 14 symbols: two digit classes, signs, both marks, exponent markers, '_', blank, letter, '/', ':'
RULE = ("(a) exhaustive: every string up to length L (quick 5, thorough 6) over the 14-symbol alphabet {0,7,1,+,-,.,',',e,E,_,blank,x,/,:} "
        "-> SectionParser.num on the real code vs the Lean model vs an independent oracle (hand-written DFA for the literal grammar + "
        "fractions.Fraction value + int64 range + binary64 overflow by exact rational-to-float conversion); (b) boundary literals (+-2^63, the "
        "overflow threshold 2^1024-2^970 to 60 digits, 1e309, 400-digit integers, 4300/4301-digit integers, tiny values, long fractions, huge "
        "exponents); (c) non-ASCII digits and every Python white-space character around a literal; (d) generated literals (sign, digits, mark, "
        "fraction, exponent; lengths to ~40) and one-character mutations of them; (e) the three item constructors via SectionParser(title)(...) "
        "for titles ~V ~W ~P ~C ~Custom x versions 1.2/2.0 x mnemonics incl. API/UWI in every case mix; (f) lasio.read of a small file carrying "
        "the value in ~V, ~W (API/UWI/api/Uwi), ~P, a custom section and ~C. non-trivial = the oracle says the text is a number, or the item is an "
        "API/UWI/~Curves exemption holding a literal")
TRUSTED = ["binary rounding of the decimal value: CPython float()/numpy float64 (David Gay strtod, correctly rounded) — the model carries the exact "
           "decimal value (sign, mantissa, power of ten); the harness converts it with Python's correctly rounded int/int division and compares bits",
           "CPython int()/float() white-space acceptance and numpy's delegation to them (compared for all 29 white-space characters on every run)",
           "the Unicode decimal-digit class of `re` (the model's 68-block table is compared with re over all code points on every run)"]
ASSUMPTIONS = ["integer literals have at most sys.get_int_max_str_digits() = 4300 digits: beyond that CPython int() raises ValueError and an "
               "integer literal whose value fits 64 bits (it can only have leading zeros) comes back as a float of the same value "
               "(theorem C08_digit_limit_necessary; inputs '0'*4301 etc. are still run: model = code, value equal, type float)",
               "white space around the literal does not contain U+001C..U+001F (str.strip removes them, int()/float() refuse them: the text "
               "stays a string; theorem C08_padOK_necessary); header values reach num() already stripped",
               "mnemonics are over the alphabet Σ of LasioModel/Basic.lean (`upper`); e.g. dotless ı (U+0131) upper-cases to I in Python only"]
KNOWN_DIGITS = "int-max-str-digits"
DIGITS = "0123456789"
BLANKS = " \t\n\r\x0b\x0c"
INT64_MIN, INT64_MAX = -2 ** 63, 2 ** 63 - 1
T_OVERFLOW = 2 ** 1024 - 2 ** 970

_parser = {}


def parser(title="~W", version=2.0):
    from lasio.reader import SectionParser
    k = (title, version)
    if k not in _parser:
        _parser[k] = SectionParser(title, version=version)
    return _parser[k]


# ------------------------------------------------------------------ canonical forms and comparison
def canon(v):
    """real result -> ["int", decimal] | ["flt", repr, float] | ["str", text] | ["other", repr]"""
    import numpy as np
    if isinstance(v, str):
        return ["str", v]
    if isinstance(v, (bool, np.bool_)):
        return ["other", repr(v)]
    if isinstance(v, (int, np.integer)):
        return ["int", str(int(v))]
    if isinstance(v, (float, np.floating)):
        return ["flt", repr(float(v)), float(v)]
    return ["other", repr(v)]


def parse_big(digs):
    """decimal digits -> int without tripping CPython's 4300-digit str->int limit (which must stay at its default for the code under test)"""
    v = 0
    for i in range(0, len(digs), 4000):
        part = digs[i:i + 4000]
        v = v * 10 ** len(part) + int(part)
    return v


def parse_big_signed(t):
    return -parse_big(t[1:]) if t.startswith("-") else parse_big(t)


def dec_to_float(neg, mant, exp10):
    """correctly rounded binary64 of (-1)^neg * mant * 10^exp10 (exact rational arithmetic); None when it overflows"""
    if mant == 0:
        return -0.0 if neg else 0.0
    nd = int(mant.bit_length() * 0.30103) + 1      # number of decimal digits, or one more
    if exp10 + nd > 400:
        return None
    if exp10 + nd < -400:
        v = 0.0
    else:
        f = Fraction(mant) * (Fraction(10) ** exp10)
        try:
            v = f.numerator / f.denominator          # int / int: correctly rounded, OverflowError beyond the threshold
        except OverflowError:
            return None
    return -v if neg else v


def same_float(a, b):
    return a == b and math.copysign(1.0, a) == math.copysign(1.0, b)


def model_eq(m, r):
    """model answer (exact decimal) vs canonical real result"""
    if not isinstance(m, list) or not m:
        return False
    if r[0] == "str":
        return m == ["str", r[1]]
    if r[0] == "int":
        return m == ["int", r[1]]
    if r[0] == "flt":
        if m[0] != "flt":
            return False
        v = dec_to_float(bool(m[1]), parse_big(m[2]), parse_big_signed(m[3]))
        return v is not None and same_float(v, r[2])
    return False


def show(r):
    return r[:2]


# ------------------------------------------------------------------ oracle (independent of lasio and of the model)
def dfa_literal(t):
    """Hand-written DFA for  sign? (digits+ ('.' digits*)? | '.' digits+) ([eE] sign? digits+)?  over ASCII digits.
    states: 0 start, 1 after sign, 2 integer digits, 3 '.' after digits (fraction digits optional), 4 '.' without digits, 5 fraction
    digits, 6 after e/E, 7 after exponent sign, 8 exponent digits.   accepting: 2 3 5 8.
    returns (neg, intdigits, fracdigits, has_mark, exponent or None) or None"""
    st = 0
    neg = eneg = False
    ip, fp, ex = [], [], []
    mark = False
    for ch in t:
        d = ch in DIGITS
        if st == 0:
            if ch in "+-":
                neg, st = ch == "-", 1
            elif d:
                ip.append(ch); st = 2
            elif ch == ".":
                mark, st = True, 4
            else:
                return None
        elif st == 1:
            if d:
                ip.append(ch); st = 2
            elif ch == ".":
                mark, st = True, 4
            else:
                return None
        elif st == 2:
            if d:
                ip.append(ch)
            elif ch == ".":
                mark, st = True, 3
            elif ch in "eE":
                st = 6
            else:
                return None
        elif st in (3, 5):
            if d:
                fp.append(ch); st = 5
            elif ch in "eE":
                st = 6
            else:
                return None
        elif st == 4:
            if d:
                fp.append(ch); st = 5
            else:
                return None
        elif st == 6:
            if ch in "+-":
                eneg, st = ch == "-", 7
            elif d:
                ex.append(ch); st = 8
            else:
                return None
        elif st in (7, 8):
            if d:
                ex.append(ch); st = 8
            else:
                return None
    if st not in (2, 3, 5, 8):
        return None
    e = None
    if st == 8:
        e = parse_big("".join(ex)) * (-1 if eneg else 1)
    return neg, "".join(ip), "".join(fp), mark, e


def comma_as_mark(t):
    """',' may stand for the decimal mark only between two digits.  A literal has at most one mark, so a text with two or more commas is
    never a number; with exactly one comma it is read as '.' iff a digit stands on each side."""
    if t.count(",") != 1:
        return t
    k = t.index(",")
    if 0 < k < len(t) - 1 and t[k - 1] in DIGITS and t[k + 1] in DIGITS:
        return t[:k] + "." + t[k + 1:]
    return t


def oracle(s, strip_chars=BLANKS):
    """expected result of C08 for the text s: ("str", s) | ("int", v) | ("flt", float) ; plus the number of integer digits"""
    t = s.strip(strip_chars)
    if t.count(",") >= 2:
        return ("str", s), 0
    lit = dfa_literal(comma_as_mark(t))
    if lit is None:
        return ("str", s), 0
    neg, ip, fp, mark, e = lit
    if not mark and e is None:
        v = parse_big(ip) * (-1 if neg else 1)
        if INT64_MIN <= v <= INT64_MAX:
            return ("int", v), len(ip)
    mant = parse_big(ip + fp)
    f = dec_to_float(neg, mant, (e or 0) - len(fp))
    if f is None:
        return ("str", s), len(ip)
    return ("flt", f), len(ip)


def judge(exp, r, s):
    """compare the oracle's expectation with the canonical real result; returns (clause, detail) or None"""
    if exp[0] == "str":
        if r[0] != "str":
            return "non-literal-kept-verbatim", {"expected": ["str", s], "observed": show(r)}
        if r[1] != s:
            return "verbatim-identical", {"expected": ["str", s], "observed": show(r)}
        return None
    if r[0] == "str":
        return "literal-iff-number", {"expected": [exp[0], repr(exp[1])], "observed": show(r)}
    if exp[0] == "int":
        if r[0] != "int":
            return "int-literal-becomes-int", {"expected": ["int", str(exp[1])], "observed": show(r)}
        if int(r[1]) != exp[1]:
            return "value-equals-literal", {"expected": ["int", str(exp[1])], "observed": show(r)}
        return None
    if r[0] != "flt":
        return "non-int64-literal-becomes-float", {"expected": ["flt", repr(exp[1])], "observed": show(r)}
    if not same_float(exp[1], r[2]):
        return "value-equals-literal", {"expected": ["flt", repr(exp[1])], "observed": show(r)}
    return None


def classify(failure):
    """known-finding candidate: an integer literal of more than 4300 digits that fits int64 comes back as a float"""
    c = failure["case"]
    if failure["clause"] == "int-literal-becomes-int" and c.get("int_digits", 0) > 4300:
        return KNOWN_DIGITS
    return None


def check_num(run, s, stream, r=None, strict=True):
    """oracle on SectionParser.num(s); returns the canonical real result"""
    if r is None:
        try:
            r = canon(parser().num(s))
        except Exception as e:      # num() must never raise: every text is either a number or kept verbatim
            run.fail("num-raises", {"stream": stream, "s": s}, {"exc": repr(e)})
            return ["raised", repr(type(e).__name__)], oracle(s)[0]
    exp, nd = oracle(s)
    if nd > 4300 and exp[0] == "int" and KNOWN_DIGITS not in fw.known_ids(ID):
        # outside the digit-count assumption (see ASSUMPTIONS): the value must still be right, the type is float
        if not (r[0] == "flt" and r[2] == float(exp[1])):
            run.fail("value-equals-literal", {"stream": stream, "s": s, "int_digits": nd}, {"expected": str(exp[1]), "observed": show(r)})
        run.dist["beyond-4300-digits(float, value equal)"] += 1
        return r, exp
    if not strict:
        # odd white space: the result is either the verbatim text or the number the stripped text denotes
        e2, _ = oracle(s, None)
        if judge(exp, r, s) is not None and judge(e2, r, s) is not None and judge(("str", s), r, s) is not None:
            run.fail("odd-space-number-or-verbatim", {"stream": stream, "s": s}, {"observed": show(r)})
        return r, exp
    bad = judge(exp, r, s)
    if bad:
        run.fail(bad[0], {"stream": stream, "s": s, "int_digits": nd}, bad[1])
    return r, exp


# ------------------------------------------------------------------ streams
def boundary_texts():
    out = ["9223372036854775807", "9223372036854775808", "-9223372036854775808", "-9223372036854775809", "+9223372036854775807",
           "9223372036854775806", "-9223372036854775807", "09223372036854775807", "00000000000000000000009223372036854775808",
           "9223372036854775807.", "9223372036854775807e0", "92233720368547758070e-1", "18446744073709551616", "-18446744073709551616",
           "1.7976931348623157e308", "1.7976931348623158e308", "1.797693134862315807e308", "1.797693134862315808e308",
           "-1.797693134862315807e308", "-1.797693134862315808e308", "1e308", "1e309", "-1e309", "1E400", "17976931348623157e292",
           "0.00017976931348623158e312", "179769313486231580793728971405303415079934132710037826936173778980444968292764750946649017977587207096330286416692887910946555547851940402630657488671505820681908902000708383676273854845817711531764475730270069855571366959622842914819860834936475292719074168444365510704342711559699508093042880177904174497791",
           str(T_OVERFLOW), str(T_OVERFLOW - 1), str(T_OVERFLOW + 1), "-" + str(T_OVERFLOW), str(T_OVERFLOW) + ".0", str(T_OVERFLOW - 1) + ".999999",
           str(T_OVERFLOW * 10) + "e-1", str(T_OVERFLOW * 10 - 1) + "e-1", str(T_OVERFLOW)[:60] + "e249",
           "9" * 400, "-" + "9" * 400, "1" + "0" * 308, "1" + "0" * 309, "0" * 400, "0" * 399 + "7", "-" + "0" * 400 + "12",
           "0." + "0" * 400 + "1", "1e-400", "4.9e-324", "2.4703282292062327e-324", "2.4703282292062328e-324", "2.5e-324", "1e-323", "5e-325",
           "-0", "-0.0", "+0", "0e0", "-0e5", "0e999999999999", "-0e-99999999999999999999", "1e99999999999999999999", "1e-99999999999999999999",
           "1" * 400 + "e-91", "1" * 400 + "e-92", "1" * 400 + "e-93", "1" * 400 + "e-99999999999999", "0.0001e312", "0.0001e313",
           "007", "0007.50", "+5", "5.", ".5", "-.5e-3", "+.5E+3", "5.e3", "1e5", "1E5", "1e+5", "1e-05", "00.00", "1e0007",
           "0.1", "0.30000000000000004", "0.3", "3.141592653589793238462643383279502884197", "2.2250738585072011e-308", "2.2250738585072012e-308",
           "9007199254740993", "9007199254740993.0", "9007199254740992.5", "9007199254740993e0", "1.0000000000000002220446049250313080847263336181640625",
           "1.00000000000000011102230246251565404236316680908203125", "1.00000000000000011102230246251565404236316680908203124",
           "1.00000000000000011102230246251565404236316680908203126", "123456789012345678901234567890.123456789012345678901234567890",
           "1,5", "1,5,6", "1,5,6,7", ",5", "5,", "1,5e3", "1e1,5", "-1,5", "1, 5", "1 ,5", "12,34,56,78", "1,5.6", "1.5,6", "1,,5", "1,e5", "e,5",
           "0" * 4299, "0" * 4300, "0" * 4301, "-" + "0" * 4300, "-" + "0" * 4301, " " + "0" * 4299 + "7 ", " " + "0" * 4300 + "7 ", "0" * 5000,
           "1" * 4300, "1" * 4301, "0" * 4301 + ".", "0" * 4301 + "e0", "0" * 4290 + "9223372036854775807", "0" * 4290 + "9223372036854775808",
           "15_9", "1_0.5", "1_000", "_1", "1_", "12-34-12-34W5M", "2001-05-13", "13/05/2001", "12:30", "12:30:05", "inf", "-inf", "Infinity",
           "nan", "NaN", "+nan", "0x10", "0X1F", "0b1", "0o7", "1e", "e5", "1e+", ".", "+", "-", "+.", ".e5", "5.5.5", "+-5", "--5", "5-", "5+",
           "", " ", "  ", " 5", "5 ", " 5 ", "\t5\n", "5 5", "1 e5", "1e 5", "- 5", "1.e5", "1e5.", "1e5.0", "1d5", "1D5", "1f", "1L", "1j", "١٢٣",
           "True", "None", "5%", "$5", "(5)", "[5]", "5\x00", "\x005"]
    return out


def odd_texts():
    ws = [chr(c) for c in range(0x110000) if chr(c).isspace()]
    out = ["１２", "١٢٣", "१२३", "1١", "١1", "1,٢", "١,٢", "1,٢,3", "١,2,3", "٣,4,5", "1.٢", "٢e5", "1e٢", "5٣", "𝟓", "𝟏,𝟐", "²", "½", "Ⅷ", "५.५"]
    for c in ws:
        out += [c + "5", "5" + c, c + "5" + c, c + "5.5", "5.5" + c, c + "1e400", c + "9" * 30, "5" + c + "5", c, c + c, " " + c + "5", "5" + c + " ",
                c + "1,5", "1" + c + ",5"]
    for a, b in itertools.product(ws, repeat=2):
        if (ord(a) + 3 * ord(b)) % 7 == 0:
            out.append(a + "12" + b)
    return out


def gen_literal(rng):
    sign = rng.choice(["", "", "+", "-"])
    nd = rng.choice([0, 1, 1, 2, 3, 5, 9, 17, 19, 20, 25])
    ip = "".join(rng.choice(DIGITS) for _ in range(nd))
    if rng.random() < 0.2 and ip:
        ip = "0" * rng.randint(1, 4) + ip
    r = rng.random()
    if r < 0.35:
        frac = ""
    else:
        frac = rng.choice([".", ".", ","]) + "".join(rng.choice(DIGITS) for _ in range(rng.choice([0, 1, 2, 3, 8, 17, 30])))
    r = rng.random()
    if r < 0.5:
        ex = ""
    else:
        mag = rng.choice([str(rng.randint(0, 30)), str(rng.randint(280, 330)), str(rng.randint(0, 400)), "0" + str(rng.randint(0, 9))])
        ex = rng.choice("eE") + rng.choice(["", "+", "-"]) + mag
    s = sign + ip + frac + ex
    if rng.random() < 0.15:
        s = rng.choice([" ", "  ", "\t"]) + s
    if rng.random() < 0.15:
        s = s + rng.choice([" ", "  ", "\n"])
    return s


def mutate(rng, s):
    junk = ALPHA + "dDfLjn()%#"
    k = rng.randint(0, len(s))
    r = rng.random()
    if r < 0.4:
        return s[:k] + rng.choice(junk) + s[k:]
    if r < 0.7 and s:
        k = min(k, len(s) - 1)
        return s[:k] + s[k + 1:]
    if s:
        k = min(k, len(s) - 1)
        return s[:k] + rng.choice(junk) + s[k + 1:]
    return rng.choice(junk)


NAMES = ["API", "UWI", "api", "uwi", "Api", "aPI", "Uwi", "uWi", "APIX", "XAPI", "UWI2", "AP", "API ", "STRT", "NULL", "WELL", "X", "apı"]
ITEM_VALUES = ["007", "0012345678", "42", "-5", "1,5", "1e5", "5.", ".5", "15_9", "12-34-12-34W5M", "inf", "nan", "", "0x10", "100/05-12-034-05W4/00",
               "9223372036854775808", "1e309", " 7 ", "2001-05-13", "12:30", "1,5,6"]
UNITS = ["", "M", "[M]", "(ft)", " [GAPI] ", "[", "[]", "()", "(M]", "[M)", "[[x]]", " ", "m/s", "[a](b)"]
TITLE_LIST = ["~V", "~W", "~P", "~C", "~Custom", "~MyCustom", "~Version Information", "~Well", "~Parameter", "~Curve", "~Tops_x", "~parameter", "~curve"]


def kind_of(title):
    """SectionParser dispatches on the first letter of the title (so a custom section called ~Custom... IS a ~Curves section)"""
    u = title.upper()
    return "curves" if u.startswith("~C") else "params" if u.startswith("~P") else "metadata"


TITLES = [(t, kind_of(t)) for t in TITLE_LIST]


def item_oracle(run, kind, title, version, name, value, descr, r, descr_first):
    """API/UWI (any case) outside ~Parameter and ~Curves values stay text; everything else follows the literal rule"""
    case = {"stream": "items", "title": title, "version": version, "name": name, "value": value, "descr": descr}
    stored = descr if descr_first else value
    if kind == "curves":
        if r != ["str", value]:
            run.fail("curves-api-code-never-converted", case, {"expected": ["str", value], "observed": show(r)})
        return
    if kind == "metadata" and name.upper() in ("API", "UWI"):
        if r != ["str", stored]:
            run.fail("api-uwi-kept-verbatim", case, {"expected": ["str", stored], "observed": show(r)})
        return
    exp, nd = oracle(stored)
    bad = judge(exp, r, stored)
    if bad:
        run.fail(bad[0], case, bad[1])


def items(run):
    for (title, kind), version in itertools.product(TITLES, (1.2, 2.0)):
        p = parser(title, version)
        if p.func.__name__ != kind:
            run.disagree("title-dispatch", {"title": title}, kind, p.func.__name__, in_domain=True)
            continue
        for name in NAMES:
            order = getattr(p, "orders", {}).get(name, getattr(p, "default_order", "value:descr")) if kind == "metadata" else "value:descr"
            df = order == "descr:value"
            for i, value in enumerate(ITEM_VALUES):
                descr = ITEM_VALUES[(i * 7 + 3) % len(ITEM_VALUES)] if df or i % 3 == 0 else "a description"
                unit = UNITS[(i + len(name)) % len(UNITS)]
                try:
                    it = p(name=name, unit=unit, value=value, descr=descr)
                except Exception as e:
                    run.fail("item-constructor-raises", {"stream": "items", "name": name, "value": value}, {"exc": repr(e)})
                    continue
                r = canon(it.value)
                real = [it.original_mnemonic, it.unit, r, it.descr]
                stored = descr if df else value
                nontrivial = oracle(stored)[0][0] != "str"
                run.case({"title": title, "version": version, "name": name, "value": value, "descr": descr, "unit": unit},
                         nontrivial=nontrivial,
                         tags=["items", "kind=" + kind, "exempt" if (kind == "curves" or (kind == "metadata" and name.upper() in ("API", "UWI"))) else "converted-rule"])
                if name != "apı":
                    item_oracle(run, kind, title, version, name, value, descr, r, df)
                if name == "apı":
                    # outside Σ (Python upper-cases dotless ı to I, so the real code treats it as API): not sent to the model
                    run.dist["name-outside-sigma(real only)"] += 1
                    continue
                yield ({"op": "num.fields", "kind": kind, "descrFirst": df, "name": name, "unit": unit, "value": value, "descr": descr},
                       real, {"title": title, "version": version, "name": name, "unit": unit, "value": value, "descr": descr}, True)


FILE_VALUES = ["007", "0012345678", "42", "-5.5", "1,5", "1e5", "5.", ".5", "15_9", "12-34-12-34W5M", "inf", "nan", "0x10",
               "9223372036854775808", "1e309", "2001-05-13", "13/05/2001", "1,5,6", "-999.25", "+7", "1E-3"]


def las_text(v):
    return ("~Version\nVERS.   2.0 : v\nWRAP.   NO : w\nTESTV.  %s : dv\n~Well\nSTRT.M  1.0 : s\nSTOP.M  2.0 : s\nSTEP.M  1.0 : s\nNULL.  -999.25 : n\n"
            "TESTW.  %s : dw\nAPI .   %s : a1\nUWI.    %s : u1\napi2.   %s : a2\n~Curve\nDEPT.M      : d\nGR  .GAPI  %s : g\n"
            "~Parameter\nTESTP.  %s : dp\nAPI.    %s : ap\n~MyCustom\nTESTC.  %s : dc\nUwi.    %s : uc\n~ASCII\n1.0 10\n2.0 20\n") % ((v,) * 10)


def through_read(run):
    import lasio
    for v in FILE_VALUES:
        for lower, titles in ((False, "plain"), (True, "plain"), (False, "indented"), (False, "abbreviated")):
            txt = las_text(v)
            if lower:
                txt = txt.replace("API .", "api .").replace("UWI.", "uWi.")
            if titles == "indented":         # title lines with leading blanks / a TAB: the same sections, the same conversion rules
                txt = txt.replace("~Well", "  ~Well").replace("~Curve", "\t~Curve").replace("~Parameter", " ~Parameter").replace("~MyCustom", "   ~MyCustom")
            elif titles == "abbreviated":
                txt = txt.replace("~Version", "~V").replace("~Well", "~w").replace("~Curve", "~C").replace("~Parameter", "~p")
            las = lasio.read(txt)
            case = {"stream": "read", "value": v, "lower": lower, "titles": titles}
            nontrivial = oracle(v)[0][0] != "str"
            run.case(case, nontrivial=nontrivial, tags=["read"])
            got = {
                "V": las.version["TESTV"].value, "W": las.well["TESTW"].value,
                "API": las.well["api" if lower else "API"].value, "UWI": las.well["uWi" if lower else "UWI"].value,
                "api2": las.well["api2"].value, "C": las.curves["GR"].value, "P": las.params["TESTP"].value,
                "P-API": las.params["API"].value, "X": las.sections["MyCustom"]["TESTC"].value, "X-UWI": las.sections["MyCustom"]["Uwi"].value,
            }
            exp, _ = oracle(v)
            for k in ("V", "W", "P", "P-API", "X", "api2"):
                bad = judge(exp, canon(got[k]), v)
                if bad:
                    run.fail("read:" + bad[0], dict(case, where=k), bad[1])
            for k in ("API", "UWI", "X-UWI"):
                if canon(got[k]) != ["str", v]:
                    run.fail("read:api-uwi-kept-verbatim", dict(case, where=k), {"expected": ["str", v], "observed": show(canon(got[k]))})
            if canon(got["C"]) != ["str", v]:
                run.fail("read:curves-api-code-never-converted", dict(case, where="C"), {"expected": ["str", v], "observed": show(canon(got["C"]))})


def check_tables(run):
    """the model's Unicode \\d table and the white-space class of int()/float()"""
    if run.model is None:
        return
    zeros = run.model.ask1({"op": "num.udigits"})
    model_set = set(z + i for z in zeros for i in range(10))
    d = re.compile(r"\d")
    real_set = set(c for c in range(0x110000) if not (0xD800 <= c <= 0xDFFF) and d.match(chr(c)))
    run.traces += 1
    if model_set != real_set:
        diff = sorted(model_set ^ real_set)[:10]
        run.disagree("unicode-digit-table", {"first_differences": [hex(c) for c in diff]}, len(model_set), len(real_set), in_domain=True)
    # NOTE: the TEXT of the two regular expressions is deliberately not compared with a pinned string (a harmless respelling such as
    # [0-9] for \d + re.ASCII must not raise an alarm): their behaviour is compared on every string of the exhaustive and
    # generated streams through `num.commasub` / `num.plain` above.
    try:
        from lasio import defaults, reader
        pat, sub = defaults.READ_SUBS["comma-decimal-mark"][0]
        run.notes.append("comma pattern %r -> %r flags=%d; guard pattern %r flags=%d" % (pat.pattern, sub, int(pat.flags), reader.numeric_literal_regex.pattern,
                                                                                        int(reader.numeric_literal_regex.flags)))
    except Exception as e:
        run.notes.append("internal regex objects not found under their usual names (%r): step-level comparison skipped" % (e,))
    import sys
    if sys.get_int_max_str_digits() != 4300:
        run.notes.append("sys.get_int_max_str_digits() = %d (model: 4300)" % sys.get_int_max_str_digits())


def run(run):
    pend = []

    def flush():
        if not pend or run.model is None:
            pend.clear()
            return
        ans = run.model.ask([q for (q, _, _, _, _) in pend], chunk=512)
        for (q, real, case, indom, stream), m in zip(pend, ans):
            run.traces += 1
            if stream == "num":
                ok = model_eq(m, real)
            else:
                ok = isinstance(m, list) and len(m) == 4 and m[0] == real[0] and m[1] == real[1] and model_eq(m[2], real[2]) and m[3] == real[3]
            if not ok:
                run.disagree(stream, case, m, [real[0], real[1], show(real[2]), real[3]] if stream != "num" else show(real), in_domain=indom)
        pend.clear()

    def add_num(s, r, stream, indom=True):
        pend.append(({"op": "num.num", "s": s}, r, {"stream": stream, "s": s}, indom, "num"))
        if len(pend) >= 4096:
            flush()

    check_tables(run)
    num = parser().num
    # (a) exhaustive
    L = run.budget(5, 6)
    n = 0
    for k in range(0, L + 1):
        for tup in itertools.product(ALPHA, repeat=k):
            s = "".join(tup)
            r = canon(num(s))
            exp, nd = oracle(s)
            n += 1
            bad = judge(exp, r, s)
            if bad:
                run.fail(bad[0], {"stream": "exhaustive", "s": s, "int_digits": nd}, bad[1])
            if exp[0] != "str":
                run.case({"s": s}, nontrivial=True, tags=["exhaustive", "expect=" + exp[0], "comma" if "," in s else "no-comma"])
            else:
                run.evaluations += 1
                if n % 211 == 0:
                    run.case({"s": s}, nontrivial=False, tags=["exhaustive", "expect=str"])
            add_num(s, r, "exhaustive")
    run.dist["exhaustive-strings"] = n
    run.exhaustive = True
    # (b) boundary literals
    for s in boundary_texts():
        r, exp = check_num(run, s, "boundary")
        run.case({"s": s}, nontrivial=exp[0] != "str", tags=["boundary", "expect=" + exp[0]])
        add_num(s, r, "boundary")
    # (c) non-ASCII digits, odd white space (outside the stated alphabet: model = code, and number-or-verbatim)
    for s in odd_texts():
        r, exp = check_num(run, s, "odd", strict=False)
        run.case({"s": s}, nontrivial=False, tags=["odd", "got=" + r[0]])
        if not any(0xD800 <= ord(c) <= 0xDFFF for c in s):
            add_num(s, r, "odd")
    # (d) generated literals and their one-character mutations
    for i in range(run.budget(20000, 400000)):
        s = gen_literal(run.rng)
        if i % 2:
            s = mutate(run.rng, s)
        if i % 7 == 3:
            s = mutate(run.rng, s)
        r, exp = check_num(run, s, "generated")
        run.case({"s": s}, nontrivial=exp[0] != "str", tags=["generated", "expect=" + exp[0]])
        add_num(s, r, "generated")
    flush()
    # (e) the three item constructors
    for q, real, case, indom in items(run):
        pend.append((q, real, dict(case, stream="items"), indom, "items"))
    flush()
    # strip_brackets on its own
    if run.model is not None:
        us = UNITS + ["".join(t) for k in range(0, 5) for t in itertools.product("[]() a", repeat=k)]
        ans = run.model.ask([{"op": "num.brackets", "s": u} for u in us], chunk=512)
        p = parser()
        for u, m in zip(us, ans):
            run.traces += 1
            if m != p.strip_brackets(u):
                run.disagree("strip_brackets", {"s": u}, m, p.strip_brackets(u), in_domain=True)
    # the two regex steps on their own (the num-level comparison masks them): comma substitution incl. a non-ASCII digit, and the guard
    try:
        from lasio import defaults, reader
        pat, sub = defaults.READ_SUBS["comma-decimal-mark"][0]
        guard = reader.numeric_literal_regex
    except Exception:
        pat = guard = None       # internals renamed: the num()-level streams above still cover the behaviour
    if run.model is not None and pat is not None:
        texts = ["".join(t) for k in range(0, run.budget(6, 7) + 1) for t in itertools.product("1٢,.e ", repeat=k)] + odd_texts() + boundary_texts()
        texts = [t for t in texts if "\x00" not in t]
        ans = run.model.ask([{"op": "num.commasub", "s": t} for t in texts], chunk=512)
        for t, m in zip(texts, ans):
            run.traces += 1
            if m != pat.sub(sub, t):
                run.disagree("comma-substitution", {"s": t}, m, pat.sub(sub, t), in_domain=True)
        ans = run.model.ask([{"op": "num.plain", "s": t} for t in texts], chunk=512)
        for t, m in zip(texts, ans):
            run.traces += 1
            real = guard.fullmatch(t) is not None
            if m != real or (real != (dfa_literal(t) is not None)):
                run.disagree("guard-regex", {"s": t, "dfa": dfa_literal(t) is not None}, m, real, in_domain=True)
        run.dist["regex-steps"] = len(texts)
    # (f) through lasio.read
    through_read(run)
    # (g) the TYPED object of a whole read: model LasioModel/ReadObj.lean (theorems Props/C08File.lean) vs lasio.read, item by item
    # (mnemonic, unit, type and value, description) in every section, generated documents + the example corpus
    if run.model is not None:
        from .. import readobj_stream
        counts = readobj_stream.run_stream(run, run.budget(500, 6000), corpus=True)
        for k, v in counts.items():
            run.dist["ro:" + k] += v


def search(run, disagreements):
    for d in disagreements[:300]:
        c = d["case"]
        if c and "s" in c:
            check_num(run, c["s"], "search")
    if run.failures:
        return
    num = parser().num
    for k in range(6, run.budget(6, 7) + 1):
        for tup in itertools.product(ALPHA, repeat=k):
            s = "".join(tup)
            exp, nd = oracle(s)
            bad = judge(exp, canon(num(s)), s)
            if bad:
                run.fail(bad[0], {"stream": "search-exhaustive", "s": s, "int_digits": nd}, bad[1])
                return
    for _ in range(run.budget(200000, 2000000)):
        s = "".join(run.rng.choice(ALPHA) for _ in range(run.rng.randint(6, 12))) if run.rng.random() < 0.5 else mutate(run.rng, gen_literal(run.rng))
        check_num(run, s, "search-random")
        if run.failures:
            return


def _fails(clause, s):
    probe = fw.Run(type("P", (), {"ID": ID, "classify": staticmethod(classify)}), "quick", 0)
    check_num(probe, s, "shrink")
    return next((x for x in probe.failures if x["clause"] == clause), None)


def shrink(run, f):
    c = f["case"]
    if "s" not in c or c.get("stream") in ("items", "read"):
        return f
    s, best = c["s"], f
    changed = True
    while changed:
        changed = False
        for i in range(len(s)):
            cand = s[:i] + s[i + 1:]
            r = _fails(f["clause"], cand)
            if r:
                s, best, changed = cand, r, True
                break
    return best


def replay(run, payload):
    c = payload["case"]
    if "s" in c:
        check_num(run, c["s"], "replay", strict=c.get("stream") != "odd")
    elif "title" in c:
        kind = kind_of(c["title"])
        p = parser(c["title"], c["version"])
        order = getattr(p, "orders", {}).get(c["name"], getattr(p, "default_order", "value:descr")) if kind == "metadata" else "value:descr"
        it = p(name=c["name"], unit=c.get("unit", ""), value=c["value"], descr=c["descr"])
        item_oracle(run, kind, c["title"], c["version"], c["name"], c["value"], c["descr"], canon(it.value), order == "descr:value")
    elif c.get("stream") == "read":
        through_read(run)
    return not run.failures


LEVEL_TEXT = ("Machine-checked Lean 4 theorems (C08_*) over EVERY text (no length bound) about an executable model of SectionParser.num / "
              "metadata / params / curves: the guard is proved equal to an independent grammar of plain decimal literals (C08_isPlainDec_iff, "
              "unambiguous: C08_parse_unique); a non-literal is returned verbatim (C08_verbatim); an integer literal within int64 becomes that "
              "integer (C08_int); every other finite literal becomes a float whose exact decimal value (sign, mantissa, power of ten) is the "
              "literal's denotation, proved equal to its positional rational value (C08_float, C08_denote_exact); non-finite values stay text "
              "(C08_nonfinite_verbatim, exact threshold 2^1024-2^970); number iff literal (C08_number_iff); API/UWI and ~Curves exemptions "
              "(C08_api_uwi, C08_curves_never); the comma rule (C08_comma, C08_comma_only_between_digits). Tie: exhaustive comparison of the "
              "compiled model with the real function on all strings up to length 5/6 over a 14-symbol alphabet plus boundary, generated, "
              "non-ASCII and item/file streams, and an independent oracle (hand-written DFA + exact rational arithmetic) on the real code.")
LEVEL_NOTE = ("Binary rounding of the decimal value is trusted strtod (CPython float); the exact decimal denotation and the exact overflow threshold "
              "are proved. Two hypotheses forced by the code are explicit and shown necessary by theorems: at most 4300 digits for the integer "
              "clause (CPython int() digit limit: longer integer literals that fit 64 bits come back as floats of the same value) and no "
              "U+001C..U+001F in the padding. Theorems are about the model; model = code is established on the explored inputs.")

RULE = RULE + ("; ALSO (fifth session): stream (g) `ro.read`: the TYPED object of a whole read (LasioModel/ReadObj.lean) vs lasio.read item by item (mnemonic, unit, type and value, description) on generated documents and the example corpus")
