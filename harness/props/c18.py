"""C18 — JSON, CSV, Excel, DataFrame and depth views carry the same values as the curves."""
import csv
import glob
import io
import json
import math
import os
import shutil

from .. import framework as fw

ID = "C18"
MODULE = "LasioProofs.Props.C18"
EXTRA_MODULES = ["LasioProofs.Props.C18Df"]
RULE = ("(a) LASFile objects built from JSON-able specs (header items in ~Version/~Well/~Parameter with int / float / numpy int / numpy float / "
        "numpy bool / NaN / +-inf / text / None / bool values, 0..5 curves x 0..6 rows of float (NaN, +-inf), integer and text data, duplicate "
        "and blank mnemonics, the untouched LASFile(), curves without rows) + every readable file of /repo/tests/examples: strict json.loads of "
        "las.json with every header value and sample of the right JSON kind/value, model tree (vw.json) = parsed tree (ordered); to_csv over "
        "mnemonics {True, False, list} x units {True, False, list} x units_loc {line, (), [], None} x lineterminator {default, CRLF} parsed by "
        "csv.reader: header rows as requested, one record per depth step, float() of every field = the sample (text verbatim), rows = vw.csv; "
        "to_excel re-opened with openpyxl (few objects in the quick tier); df() / set_data_from_df(df()); (b) unit detection: LAS texts read "
        "with lasio.read, every spelling of every DEPTH_UNITS entry x {as is, upper, lower, title} x candidate position, conflicting pairs, "
        "unknown spellings, random strings over the modelled alphabet, index_unit= argument; las.index_unit = vw.unit, depth_m/depth_ft = the "
        "model's expression evaluated in floats (exact) and allclose(depth_m, depth_ft*0.3048, rtol=1e-12). non-trivial = the object holds a "
        "non-finite or numpy or text value, a duplicate mnemonic, or (units) a recognised / conflicting spelling")
TRUSTED = ["json module (escaping, float repr, layout), csv.writer/reader (quoting, str() of cells), numpy (.item(), vstack, str of float64), "
           "openpyxl (stores floats with 16 significant digits: workbook cells are compared with rel_tol 1e-15), pandas: Lean models lasio's "
           "decision logic only (type dispatch, NaN handling, which rows are written, unit table logic)",
           "IEEE rounding of depth_m / depth_ft is not modelled (exact rational identity in Lean; allclose rtol=1e-12 in the oracle)"]
ASSUMPTIONS = ["session mnemonics within a section are pairwise distinct (C13 under NoSuffixClash); with a repeated key dictview() drops a value "
               "(C18_json_duplicate_key_drops)",
               "header values are int / float / str / None / bool or numpy scalars of those kinds; containers are outside the property",
               "df(): a text curve whose every cell is a float literal is compared as numbers (in `las.data` it cannot be told from a numeric "
               "curve; the reader never produces one)",
               "unit strings over the modelled alphabet (ASCII, Latin-1 letters except ß/µ/ÿ, basic Cyrillic and Greek): str.upper is "
               "length-preserving there"]

SCRATCH = os.path.join(fw.ROOT, ".scratch", "c18")
# the recognised spellings the property was written against (defaults.DEPTH_UNITS at the pinned tree): losing one of them is a
# violation even though the Lean obligations, which quantify over the CURRENT table, would still hold
PINNED_UNITS = {"FT": ("FT", "F", "FEET", "FOOT"),
                "M": ("M", "METER", "METERS", "METRE", "METRES", "\u043c\u0435\u0442\u0435\u0440", "\u043c"),
                ".1IN": (".1IN", "0.1IN", ".1INCH", "0.1INCH")}


def unit_table():
    from lasio import defaults
    t = {k: list(v) for k, v in PINNED_UNITS.items()}
    for k, ps in defaults.DEPTH_UNITS.items():
        t.setdefault(k, [])
        t[k] += [p for p in ps if p not in t[k]]
    return t


# ------------------------------------------------------------------------------------------------ specs <-> objects
def np_():
    import numpy
    return numpy


def spec_of_value(v):
    """JSON-able description of a header value (so that every case can be replayed)"""
    np = np_()
    if isinstance(v, np.generic):
        if isinstance(v, np.bool_):
            return ["np:bool", repr(bool(v))]
        if isinstance(v, np.integer):
            return ["np:" + v.dtype.name, repr(int(v))]
        if isinstance(v, np.floating):
            return ["np:" + v.dtype.name, repr(float(v))]
        if isinstance(v, np.str_):
            return ["text", str(v)]
        raise ValueError("unsupported numpy scalar %r" % (v,))
    if v is None:
        return ["none", ""]
    if isinstance(v, bool):
        return ["bool", repr(v)]
    if isinstance(v, int):
        return ["int", repr(v)]
    if isinstance(v, float):
        return ["float", repr(v)]
    if isinstance(v, str):
        return ["text", v]
    raise ValueError("unsupported value %r" % (v,))


def value_of_spec(s):
    np = np_()
    k, t = s
    if k == "none":
        return None
    if k == "bool":
        return t == "True"
    if k == "int":
        return int(t)
    if k == "float":
        return float(t)
    if k == "text":
        return t
    if k == "np:bool":
        return np.bool_(t == "True")
    if k.startswith("np:int") or k.startswith("np:uint"):
        return np.dtype(k[3:]).type(int(t))
    if k.startswith("np:float"):
        return np.dtype(k[3:]).type(float(t))
    raise ValueError(k)


def model_kind(v):
    """(kind, text) of a header value / sample for the Lean driver: classification by Python TYPE only"""
    np = np_()
    if isinstance(v, np.generic):
        if isinstance(v, np.bool_):
            return ["npbool", repr(bool(v))]
        if isinstance(v, np.integer):
            return ["npint", repr(v.item())]
        if isinstance(v, np.floating):
            x = v.item()
            return ["npfloat", repr(x)] if math.isfinite(x) else ["npnonfinite", repr(x)]
        if isinstance(v, np.str_):
            return ["text", str(v)]
    if v is None:
        return ["none", ""]
    if isinstance(v, bool):
        return ["bool", repr(v)]
    if isinstance(v, int):
        return ["int", repr(v)]
    if isinstance(v, float):
        return ["float", repr(v)] if math.isfinite(v) else ["nonfinite", repr(v)]
    if isinstance(v, str):
        return ["text", v]
    return None


def sample_kind(x):
    k = model_kind(x)
    if k is None:
        return None
    return {"npfloat": ["f", k[1]], "float": ["f", k[1]], "npint": ["int", k[1]], "int": ["int", k[1]], "text": ["text", k[1]],
            "npnonfinite": [k[1], ""], "nonfinite": [k[1], ""]}.get(k[0])


def build(spec):
    """LASFile from a spec: {"fresh": bool, "items": {section: [[mnemonic, unit, valuespec, descr]]}, "curves": [[mnemonic, unit, kind, [..]]]}"""
    import lasio
    np = np_()
    las = lasio.LASFile()
    if not spec.get("fresh", True):
        for name in ("Version", "Well", "Parameter"):
            las.sections[name] = lasio.SectionItems()
    for name, items in spec.get("items", {}).items():
        for m, u, vs, d in items:
            las.sections[name].append(lasio.HeaderItem(m, u, value_of_spec(vs), d))
    for m, u, kind, vals in spec.get("curves", []):
        if kind == "float":
            data = np.array([float(x) for x in vals], dtype=np.float64)
        elif kind == "int":
            data = np.array([int(x) for x in vals], dtype=np.int64)
        else:
            data = np.array(list(vals), dtype=object) if kind == "object" else np.array(list(vals), dtype=str)
        las.append_curve(m, data, unit=u)
    for ix in spec.get("delete", []):      # deletions leave stale duplicate suffixes (a lone 'A:2')
        if -len(las.curves) <= ix < len(las.curves):
            las.delete_curve(ix=ix)
    if "other" in spec:
        las.sections["Other"] = spec["other"]
    return las


TEXTS = ["", "a", "NO", "x y", "1,5", 'q"r', "a\\b", "é", "ж", "12", "1e5", "nan", "null", "NaN", "true", " pad ", "l1\nl2", "#c", "'s'", "[x]"]
NAMES = ["DEPT", "A", "B", "GR", "a", "", "A", "X1", "LONG_NAME"]
UNITS = ["", "M", "FT", "m", "x", "GAPI", "US/F", ".1IN"]
FLOATS = ["1.0", "2.5", "-0.0", "0.1", "1e-07", "1e+16", "123456.789", "-9999.25", "5e-324", "1.7976931348623157e+308", "3.0"]
NONFIN = ["nan", "inf", "-inf"]


def gen_value(rng):
    r = rng.random()
    if r < 0.14:
        return ["int", str(rng.choice([0, 1, -7, 42, 2 ** 31, -2 ** 63, 10 ** 30]))]
    if r < 0.30:
        return ["float", repr(float(rng.choice(FLOATS)))]
    if r < 0.40:
        return ["float", rng.choice(NONFIN)]
    if r < 0.50:
        return ["np:" + rng.choice(["int64", "int32", "int8", "uint16"]), str(rng.choice([0, 1, 3, 100, -5 if rng.random() < .5 else 7]) % 120)]
    if r < 0.60:
        dt = rng.choice(["float64", "float32", "float16"])
        return spec_of_value(np_().dtype(dt).type(float(rng.choice(FLOATS[:6]))))
    if r < 0.68:
        return ["np:" + rng.choice(["float64", "float32"]), rng.choice(NONFIN)]
    if r < 0.86:
        return ["text", rng.choice(TEXTS)]
    if r < 0.91:
        return ["none", ""]
    if r < 0.96:
        return ["bool", rng.choice(["True", "False"])]
    return ["np:bool", rng.choice(["True", "False"])]


def gen_spec(rng, excel_safe=False):
    spec = {"fresh": rng.random() < 0.7, "items": {}, "curves": []}
    texts = [t for t in TEXTS if "\n" not in t] if excel_safe else TEXTS
    for name in ("Version", "Well", "Parameter"):
        its = []
        for _ in range(rng.choice([0, 0, 1, 2, 4])):
            v = gen_value(rng)
            if v[0] == "text":
                v = ["text", rng.choice(texts)]
            its.append([rng.choice(NAMES), rng.choice(UNITS), v, rng.choice(["", "descr", "d:e"])])
        if its:
            spec["items"][name] = its
    ncur = rng.choice([0, 1, 1, 2, 3, 3, 4, 5])
    nrow = rng.choice([0, 1, 2, 3, 6])
    flavour = rng.choice(["float", "float", "float", "mixed", "mixed", "text", "int"])
    for j in range(ncur):
        kind = flavour if flavour != "mixed" else rng.choice(["float", "float", "text", "int", "object"])
        if flavour == "mixed" and j == 0:
            kind = "float"
        if kind == "float":
            vals = [rng.choice(FLOATS + ["nan", "nan", "inf", "-inf"] if j else FLOATS + ["nan"]) for _ in range(nrow)]
        elif kind == "int":
            vals = [str(rng.randint(-5, 500)) for _ in range(nrow)]
        else:
            vals = [rng.choice(texts) for _ in range(nrow)]
        spec["curves"].append([rng.choice(NAMES + ["RES:2", "ZZ:1"]) if j else rng.choice(["DEPT", "DEPTH", "TIME", ""]), rng.choice(UNITS), kind, vals])
    if ncur >= 3 and rng.random() < 0.3:
        spec["delete"] = [rng.randrange(1, ncur)] + ([1] if rng.random() < 0.3 else [])
    if rng.random() < 0.3:
        spec["other"] = rng.choice(["", "free text", "two\nlines", 'q"uote'])
    return spec


def interesting(spec):
    vs = [it[2] for its in spec.get("items", {}).values() for it in its]
    if any(v[0].startswith("np:") or v[1] in NONFIN for v in vs):
        return True
    cs = spec.get("curves", [])
    names = [c[0] for c in cs]
    return any(c[2] != "float" or any(x in NONFIN for x in c[3]) for c in cs) or len(names) != len(set(names))


# ------------------------------------------------------------------------------------------------ JSON
class NonStrict(Exception):
    pass


def _boom(tok):
    raise NonStrict(tok)


def same_value(a, b):
    """NaN-aware equality of two scalars of the same sort"""
    if isinstance(a, float) and isinstance(b, float) and math.isnan(a) and math.isnan(b):
        return True
    return type(a) == type(b) and a == b


def expected_json(v):
    """the JSON value the property asks for: numbers as numbers, text as text, NaN/inf and None as null"""
    np = np_()
    if isinstance(v, (bool, np.bool_)):
        return bool(v)
    if isinstance(v, (int, np.integer)):
        return int(v)
    if isinstance(v, (float, np.floating)):
        return float(v) if math.isfinite(float(v)) else None
    if isinstance(v, str):
        return str(v)
    return None


def las_json_request(las):
    secs = []
    for name, sec in las.sections.items():
        if isinstance(sec, str):
            secs.append([name, {"text": sec}])
        else:
            its = []
            for it in sec.values():
                k = model_kind(it.value)
                if k is None:
                    return None
                its.append([it.mnemonic] + k)
            secs.append([name, {"items": its}])
    curves = []
    for c in las.curves:
        ss = [sample_kind(x) for x in c.data]
        if any(s is None for s in ss):
            return None
        curves.append([c.mnemonic, ss])
    return {"op": "vw.json", "sections": secs, "curves": curves}


def real_json_tree(text):
    """the real JSON text in the shape of the driver's answer (ordered pairs; number texts as written)"""
    top = json.loads(text, parse_constant=_boom, object_pairs_hook=lambda ps: [list(p) for p in ps],
                     parse_float=lambda s: {"num": s}, parse_int=lambda s: {"num": s})
    d = dict((k, v) for k, v in top)
    meta = [[name, {"text": sec} if isinstance(sec, str) else {"obj": sec}] for name, sec in d["metadata"]]
    return {"metadata": meta, "data": d["data"]}


def check_json(run, las, case, pend):
    try:
        text = las.json
        text2 = las.to_json()
    except Exception as e:
        run.fail("json-raises", case, dict(exc=repr(e)))
        return
    if text != text2:
        run.fail("json-property-vs-method", case, None)
    try:
        tree = json.loads(text, parse_constant=_boom)
    except NonStrict as e:
        run.fail("json-not-strict", case, dict(token=str(e), text=text[:300]))
        return
    except Exception as e:
        run.fail("json-not-strict", case, dict(exc=repr(e), text=text[:300]))
        return
    meta, data = tree.get("metadata", {}), tree.get("data", {})
    for name, sec in las.sections.items():
        if name not in meta:
            run.fail("json-section-missing", case, dict(section=name))
            continue
        if isinstance(sec, str):
            if meta[name] != sec:
                run.fail("json-text-section", case, dict(section=name))
            continue
        keys = [it.mnemonic for it in sec.values()]
        dup = len(set(keys)) != len(keys)
        if not dup and list(meta[name].keys()) != keys:
            run.fail("json-header-keys", case, dict(section=name, expected=keys, observed=list(meta[name].keys())))
            continue
        for it in sec.values():
            if dup and keys.count(it.mnemonic) > 1:
                continue   # repeated session key: outside the assumption (suffix clash)
            exp = expected_json(it.value)
            got = meta[name].get(it.mnemonic, "<missing>")
            if not same_value(exp, got):
                run.fail("json-header-value", case, dict(section=name, mnemonic=it.mnemonic, value=repr(it.value), expected=repr(exp), observed=repr(got)))
    ckeys = [c.mnemonic for c in las.curves]
    if len(set(ckeys)) == len(ckeys) and list(data.keys()) != ckeys:
        run.fail("json-curve-keys", case, dict(expected=ckeys, observed=list(data.keys())))
    for c in las.curves:
        if ckeys.count(c.mnemonic) > 1:
            continue
        got = data.get(c.mnemonic)
        exp = [expected_json(x) for x in c.data]
        if not isinstance(got, list) or len(got) != len(exp) or not all(same_value(a, b) for a, b in zip(exp, got)):
            run.fail("json-samples", case, dict(curve=c.mnemonic, expected=repr(exp)[:200], observed=repr(got)[:200]))
    req = las_json_request(las)
    if req is not None and run.model is not None:
        pend.append(("to_json", case, req, real_json_tree(text)))


# ------------------------------------------------------------------------------------------------ CSV
def numeric_curve(c):
    return c.data.dtype.kind in "fiub"


def cell_matches(field, x, numeric):
    if numeric:
        try:
            f = float(field)
        except ValueError:
            return False
        xf = float(x)
        return (math.isnan(f) and math.isnan(xf)) or f == xf
    return field == str(x)


def csv_options(rng, las, full):
    n = len(las.curves)
    lists = [["a", "b", "c", "d", "e", "f"][:k] for k in sorted({max(n, 1), max(n - 1, 1), n + 1})]
    ulists = [["u,1", "u2", 'u"3', "", "u5", "u6"][:k] for k in sorted({max(n, 1), max(n - 1, 1), n + 1})]
    out = []
    for mn in [True, False, None, []] + lists:
        for un in [True, False, None, []] + ulists:
            for loc in ["line", "()", "[]", None, "{}"]:
                for lt in [None, "\r\n"]:
                    out.append((mn, un, loc, lt))
    if full:
        return out
    keep = [o for o in out if o[0] is True and o[1] is True and o[3] is None]
    rest = [o for o in out if o not in keep]
    rng.shuffle(rest)
    return keep + rest[:14]


def check_csv(run, las, case, pend, full=True):
    ncur = len(las.curves)
    origs = [c.original_mnemonic for c in las.curves]
    cunits = [c.unit for c in las.curves]
    nrows = len(las.curves[0].data) if ncur else 0
    cells = None
    for mn, un, loc, lt in csv_options(run.rng, las, full):
        c2 = dict(case, csv=dict(mnemonics=mn, units=un, units_loc=loc, lineterminator=lt))
        buf = io.StringIO(newline="")
        kw = {} if lt is None else {"lineterminator": lt}
        try:
            las.to_csv(buf, mnemonics=mn, units=un, units_loc=loc, **kw)
        except Exception as e:
            run.fail("csv-raises", c2, dict(exc=repr(e)))
            if ncur == 0:
                return
            continue
        text = buf.getvalue()
        rows = list(csv.reader(io.StringIO(text, newline="")))
        if run.model is not None:
            if cells is None:
                d = las.data
                cells = [[str(x) for x in d[i, :]] for i in range(d.shape[0])]
            pend.append(("to_csv", c2, {"op": "vw.csv", "mnemonics": mn, "units": un, "units_loc": loc, "origs": origs, "cunits": cunits,
                                        "rows": cells}, rows))
        term = lt or "\n"
        if text and not text.endswith(term):
            run.fail("csv-lineterminator", c2, dict(tail=text[-10:]))
        if lt is None and "\r\n" in text and not any("\r\n" in str(x) for c in las.curves for x in c.data):
            run.fail("csv-lineterminator", c2, dict(text=text[:100]))
        # requested header rows (reading of the docstring)
        ms = origs if mn is True else (list(mn) if mn else [])
        us = cunits if un is True else (list(un) if un else [])
        hdr = []
        if ms:
            if loc in ("()", "[]") and us:
                hdr.append(["%s %s%s%s" % (m, loc[0], u, loc[1]) for m, u in zip(ms, us)])
            else:
                hdr.append(list(ms))
        if us and loc == "line":
            hdr.append(list(us))
        if rows[:len(hdr)] != hdr:
            run.fail("csv-header-rows", c2, dict(expected=hdr, observed=rows[:len(hdr) + 1]))
            continue
        body = rows[len(hdr):]
        if len(body) != nrows:
            run.fail("csv-one-record-per-step", c2, dict(expected=nrows, observed=len(body)))
            continue
        for i, r in enumerate(body):
            if len(r) != ncur or not all(cell_matches(r[j], las.curves[j].data[i], numeric_curve(las.curves[j])) for j in range(ncur)):
                run.fail("csv-field-values", c2, dict(row=i, observed=r, expected=[repr(c.data[i]) for c in las.curves]))
                break


# ------------------------------------------------------------------------------------------------ Excel
def xl_same(cell, v):
    np = np_()
    if isinstance(v, (str, np.str_)):
        return (cell or "") == str(v)
    if v is None:
        return cell is None
    if isinstance(v, (bool, np.bool_)):
        return cell == bool(v)
    f = float(v)
    if math.isnan(f):
        return cell is None or cell == ""
    if math.isinf(f) or abs(f) > 1e308:
        return True      # the property speaks about NaN only; openpyxl's treatment of inf (and of DBL_MAX, which it rounds to inf) is its own
    # openpyxl writes floats with 16 significant digits (0.1 + 0.2 comes back as 0.3): equal to Excel's precision
    return isinstance(cell, (int, float)) and math.isclose(float(cell), f, rel_tol=1e-15, abs_tol=1e-300)


def check_excel(run, las, case):
    import openpyxl
    os.makedirs(SCRATCH, exist_ok=True)
    path = os.path.join(SCRATCH, "c18_%d.xlsx" % os.getpid())
    try:
        try:
            las.to_excel(path)
        except Exception as e:
            run.fail("excel-raises", case, dict(exc=repr(e)))
            return
        wb = openpyxl.load_workbook(path)
        if wb.sheetnames[:2] != ["Header", "Curves"]:
            run.fail("excel-sheets", case, dict(sheets=wb.sheetnames))
            return
        hrows = [[c.value for c in r] for r in wb["Header"].iter_rows()]
        exp = []
        for sname, sec in (("~Version", las.version), ("~Well", las.well), ("~Parameter", las.params), ("~Curves", las.curves)):
            for it in sec.values():
                exp.append((sname, it.mnemonic, it.unit, it.value, it.descr))
        body = [r for r in hrows[1:] if any(x is not None for x in r)]
        if len(body) != len(exp):
            run.fail("excel-header-items", case, dict(expected=len(exp), observed=len(body)))
        else:
            for r, e in zip(body, exp):
                r = (r + [None] * 5)[:5]
                if not (r[0] == e[0] and (r[1] or "") == e[1] and (r[2] or "") == e[2] and xl_same(r[3], e[3]) and (r[4] or "") == e[4]):
                    run.fail("excel-header-item", case, dict(expected=repr(e), observed=repr(r)))
                    break
        ws = wb["Curves"]
        ncur = len(las.curves)
        crow = [[c.value for c in r] for r in ws.iter_rows()]
        if ncur:
            names = (crow[0] + [None] * ncur)[:ncur] if crow else []
            if [n or "" for n in names] != [c.mnemonic for c in las.curves]:
                run.fail("excel-curve-names", case, dict(observed=names))
            for j, c in enumerate(las.curves):
                for i, x in enumerate(c.data):
                    cell = crow[i + 1][j] if i + 1 < len(crow) and j < len(crow[i + 1]) else None
                    if not xl_same(cell, x):
                        run.fail("excel-samples", case, dict(curve=c.mnemonic, row=i, expected=repr(x), observed=repr(cell)))
                        return
            extra = [r for r in crow[1 + len(las.curves[0].data):] if any(x is not None for x in r)]
            if extra:
                run.fail("excel-extra-rows", case, dict(n=len(extra)))
    finally:
        if os.path.exists(path):
            os.remove(path)


# ------------------------------------------------------------------------------------------------ DataFrame
def df_same(a, x, numeric):
    np = np_()
    if numeric:
        if isinstance(a, (str, np.str_)) or a is None:
            return False
        fa, fx = float(a), float(x)
        return (math.isnan(fa) and math.isnan(fx)) or fa == fx
    return str(a) == str(x) and isinstance(a, (str, np.str_))


def floatlike(x):
    try:
        float(str(x))
        return True
    except ValueError:
        return False


def df_numeric(c):
    """df() is built from the stacked `las.data`, where a text curve whose EVERY cell is a float literal cannot be told from a numeric
    one (no file read by lasio yields such a curve: the reader would have made it numeric) — it is compared as numbers"""
    return numeric_curve(c) or (len(c.data) > 0 and all(floatlike(x) for x in c.data))


def df_same_loose(a, x):
    fa, fx = float(str(a)), float(str(x))
    return (math.isnan(fa) and math.isnan(fx)) or fa == fx


def check_df(run, spec_or_las, case, rebuild):
    las = spec_or_las
    ncur = len(las.curves)
    c2 = case
    try:
        df = las.df()
    except Exception as e:
        run.fail("df-raises", c2, dict(exc=repr(e)))
        return
    if ncur == 0:
        if len(df.index) or len(df.columns):
            run.fail("df-empty", c2, None)
        return
    names = [c.mnemonic for c in las.curves]
    if df.index.name != names[0] or [str(c) for c in df.columns] != names[1:]:
        run.fail("df-index-columns", c2, dict(index=df.index.name, columns=[str(c) for c in df.columns], expected=names))
        return
    cols = [list(df.index.values)] + [list(df.iloc[:, j].values) for j in range(ncur - 1)]
    def same(a, x, c):
        if numeric_curve(c) or not df_numeric(c):
            return df_same(a, x, numeric_curve(c))
        return df_same_loose(a, x)
    if any(df_numeric(c) and not numeric_curve(c) for c in las.curves):
        run.dist["df-numeric-looking-text-curve"] += 1
    for c, col in zip(las.curves, cols):
        if len(col) != len(c.data) or not all(same(a, x, c) for a, x in zip(col, c.data)):
            run.fail("df-values", c2, dict(curve=c.mnemonic, expected=repr(list(c.data))[:200], observed=repr(col)[:200]))
            break
    las2 = rebuild()
    try:
        las2.set_data_from_df(df)
    except Exception as e:
        run.fail("set-data-from-df-raises", c2, dict(exc=repr(e)))
        return
    if [c.mnemonic for c in las2.curves] != names:
        run.fail("df-roundtrip-names", c2, dict(expected=names, observed=[c.mnemonic for c in las2.curves]))
        return
    for c, c0 in zip(las2.curves, las.curves):
        if len(c.data) != len(c0.data) or not all(same(a, x, c0) for a, x in zip(c.data, c0.data)):
            run.fail("df-roundtrip-values", c2, dict(curve=c0.mnemonic, expected=repr(list(c0.data))[:200], observed=repr(list(c.data))[:200]))
            break


# ------------------------------------------------------------------------------------------------ units / depth
def unit_doc(strt, stop, step, curve, index="1.5 5\n2.5 6\n"):
    lines = ["~Version", "VERS. 2.0 :", "WRAP. NO :", "~Well"]
    for m, u in (("STRT", strt), ("STOP", stop), ("STEP", step)):
        if u is not None:
            lines.append("%s.%s 1 : x" % (m, u))
    lines.append("NULL. -999.25 :")
    if curve is not None:
        lines += ["~Curve", "DEPT.%s : d" % curve, "A.X : a", "~ASCII"]
        return "\n".join(lines) + "\n" + index
    return "\n".join(lines) + "\n"


def eval_expr(e, idx):
    if e == "idx":
        return idx
    op, sub, c = e
    v = eval_expr(sub, idx)
    k = {"0.3048": 0.3048, "120": 120}[c]
    return v * k if op == "mul" else v / k


def check_units(run, units4, arg, pend, tag):
    check_unit_text(run, unit_doc(*units4), arg, pend, tag)


def check_unit_text(run, text, arg, pend, tag):
    import lasio
    from lasio import defaults, exceptions
    np = np_()
    case = {"text": text, "index_unit": arg}
    try:
        las = lasio.read(text, index_unit=arg) if arg is not None else lasio.read(text)
    except Exception as e:
        run.case(case, tags=["units-unreadable"])
        return
    cands = [las.well[m].unit for m in ("STRT", "STOP", "STEP") if m in las.well]
    if len(las.curves):
        cands.append(las.curves[0].unit)
    matched = sorted({k for k, ps in unit_table().items() for u in cands if u.casefold() in {p.casefold() for p in ps}})
    run.case(case, nontrivial=bool(matched), tags=[tag, "matched=%d" % len(matched)])
    iu = las.index_unit
    if arg is None or arg == "":
        exp = matched[0] if len(matched) == 1 else None
        if iu != exp:
            run.fail("index-unit-detection", case, dict(candidates=cands, expected=exp, observed=iu))
    # depth consistency on the real object
    try:
        dm = las.depth_m
    except exceptions.LASUnknownUnitError:
        dm = None
    except Exception as e:
        dm = None
        if len(las.curves):
            run.fail("depth-raises", case, dict(exc=repr(e)))
    try:
        dft = las.depth_ft
    except exceptions.LASUnknownUnitError:
        dft = None
    except Exception as e:
        dft = None
    if (dm is None) != (dft is None):
        run.fail("depth-defined-together", case, dict(index_unit=iu))
    if len(las.curves):
        if iu in unit_table() and dm is None:
            run.fail("depth-undefined-for-recognised-unit", case, dict(index_unit=iu))
        if iu is None and dm is not None:
            run.fail("depth-defined-without-unit", case, None)
        if dm is not None and dft is not None and not np.allclose(dm, dft * 0.3048, rtol=1e-12, atol=0, equal_nan=True):
            run.fail("depth-m-vs-ft", case, dict(index_unit=iu, m=repr(dm), ft=repr(dft)))
        if iu == "M" and dm is not None and not np.array_equal(dm, las.index, equal_nan=True):
            run.fail("depth-m-identity", case, None)
        if iu == "FT" and dft is not None and not np.array_equal(dft, las.index, equal_nan=True):
            run.fail("depth-ft-identity", case, None)
    if run.model is not None:
        req = {"op": "vw.unit", "units": cands}
        if arg is not None:
            req["arg"] = arg
        pend.append(("index_unit", case, req, iu))
        if len(las.curves):
            pend.append(("depth", case, {"op": "vw.depth", "index_unit": iu},
                         ("depth", las.index, dm, dft)))


SIGMA = ([chr(c) for c in range(0x20, 0x7F)] + [chr(c) for c in range(0xA0, 0x100) if c not in (0xDF, 0xB5, 0xFF)] +
         [chr(c) for c in range(0x400, 0x460)] + [chr(c) for c in range(0x391, 0x3AA) if c != 0x3A2] +
         [chr(c) for c in range(0x3B1, 0x3CA) if c != 0x3C2])


# ------------------------------------------------------------------------------------------------ run
def ask_safe(run, reqs, limit=30000):
    """Model.ask writes a whole chunk before reading: keep every chunk below the pipe buffer size so that neither side can block"""
    out, part, size = [], [], 0
    for r in reqs:
        n = len(json.dumps(r, ensure_ascii=True)) + 1
        if part and size + n > limit:
            out += run.model.ask(part, chunk=len(part))
            part, size = [], 0
        part.append(r)
        size += n
    if part:
        out += run.model.ask(part, chunk=len(part))
    return out


def flush(run, pend):
    if not pend or run.model is None:
        pend.clear()
        return
    np = np_()
    answers = ask_safe(run, [p[2] for p in pend])
    for (stream, case, req, real), m in zip(pend, answers):
        run.traces += 1
        if stream == "depth":
            _, idx, dm, dft = real
            ok = isinstance(m, dict) and "m" in m
            if ok:
                for key, r in (("m", dm), ("ft", dft)):
                    e = m[key]
                    if (e is None) != (r is None) or (e is not None and not np.array_equal(eval_expr(e, idx), r, equal_nan=True)):
                        ok = False
            if not ok:
                run.disagree(stream, case, m, dict(m=repr(dm), ft=repr(dft)), in_domain=True)
        elif m != real:
            run.disagree(stream, case, m, real if len(repr(real)) < 2000 else repr(real)[:2000], in_domain=True)
    pend.clear()


def check_object(run, spec, pend, kind, excel=False, full_csv=True):
    case = {"spec": spec}
    las = build(spec)
    run.case(case, nontrivial=interesting(spec), tags=[kind, "curves=%d" % len(spec.get("curves", [])),
                                                      "fresh" if spec.get("fresh", True) else "bare"])
    check_json(run, las, case, pend)
    check_csv(run, las, case, pend, full=full_csv)
    check_df(run, las, case, lambda: build(spec))
    if excel:
        check_excel(run, las, case)
    # the views are computed from what the curves hold NOW: a sample edited in place after the first exports shows in the next ones
    fl = [j for j, c in enumerate(las.curves) if c.data.dtype.kind == "f" and len(c.data)]
    if fl:
        j = fl[-1]
        las.curves[j].data[0] = 43.5 if las.curves[j].data[0] == 42.5 else 42.5
        case2 = dict(case, edited_in_place=[j, 0])
        check_json(run, las, case2, pend)
        check_csv(run, las, case2, pend, full=False)
        check_df(run, las, case2, lambda: build(spec))


REPAIRED_TEXTS = [
    # header only, no curves: to_csv()/df() raised ValueError (fixed 954ed3f)
    "~V\nVERS. 2.0:\nWRAP. NO:\n~W\nSTRT.M 1:\nSTOP.M 2:\nSTEP.M 1:\nNULL. -999.25:\n",
    # float curve + text curve: df() left the numeric index/columns as strings under pandas 3 (fixed a15971d)
    "~V\nVERS. 2.0:\nWRAP. NO:\n~W\nSTRT.M 1:\nSTOP.M 2:\nSTEP.M 1:\nNULL. -999.25:\n~C\nDEPT.M :\nT.X :\nB.Y :\n~A\n1.0 abc 5\n2.0 def -999.25\n",
]


def check_text_object(run, text, pend, kind, excel=True):
    import lasio
    case = {"las_text": text}
    las = lasio.read(text)
    run.case(case, nontrivial=True, tags=[kind])
    check_json(run, las, case, pend)
    check_csv(run, las, case, pend, full=True)
    check_df(run, las, case, lambda: lasio.read(text))
    if excel:
        check_excel(run, las, case)


def corpus_files():
    base = os.path.join(fw.REPO, "tests", "examples")
    fs = set(glob.glob(os.path.join(base, "**", "*.las"), recursive=True)) | set(glob.glob(os.path.join(base, "**", "*.LAS"), recursive=True))
    return sorted(fs)


def check_corpus(run, pend):
    import lasio
    excel_left = run.budget(3, 40)
    for path in corpus_files():
        case = {"file": os.path.relpath(path, fw.REPO)}
        try:
            las = lasio.read(path)
        except Exception:
            run.case(case, tags=["corpus-unreadable"])
            continue
        ncell = sum(len(c.data) for c in las.curves)
        if ncell > run.budget(6000, 400000):
            run.case(case, tags=["corpus-skipped-large"])
            continue
        lens = {len(c.data) for c in las.curves}
        run.case(case, nontrivial=True, tags=["corpus"])
        check_json(run, las, case, pend)
        if len(lens) <= 1:
            check_csv(run, las, case, pend, full=False)
            check_df(run, las, case, lambda: lasio.read(path))
            if excel_left > 0 and ncell < 3000:
                excel_left -= 1
                check_excel(run, las, case)
        # unit detection of the file as read
        if run.model is not None:
            cands = [las.well[m].unit for m in ("STRT", "STOP", "STEP") if m in las.well]
            if len(las.curves):
                cands.append(las.curves[0].unit)
            if all(all(ch in SIGMA for ch in u) for u in cands):
                pend.append(("index_unit", case, {"op": "vw.unit", "units": cands}, las.index_unit))
        if len(pend) > 200:
            flush(run, pend)


def variants(p):
    return sorted({p, p.upper(), p.lower(), p.title()})


def check_all_units(run, pend):
    rng = run.rng
    table = unit_table()
    others = [None, "", "X", "S"]
    # every spelling x case variant x position (the other candidates absent / blank / unknown)
    for key, ps in table.items():
        for p in ps:
            for v in variants(p):
                for pos in range(4):
                    u = [rng.choice(others) for _ in range(4)]
                    u[pos] = v
                    if u[3] is None and pos != 3:
                        u[3] = rng.choice(["", "X"])
                    check_units(run, u, None, pend, "spelling")
                check_units(run, [v, v, v, v], None, pend, "spelling-all")
    # conflicting pairs
    keys = list(table)
    pairs = [(a, b) for i, a in enumerate(keys) for b in keys[i + 1:]]
    for a, b in pairs:
        for pa in table[a]:
            for pb in table[b]:
                i, j = rng.sample(range(4), 2)
                u = [rng.choice(["", "X"]) for _ in range(4)]
                u[i], u[j] = rng.choice(variants(pa)), rng.choice(variants(pb))
                check_units(run, u, None, pend, "conflict")
    # unknown spellings
    for w in ["", "X", "S", "MS", "FATHOM", "METRESS", "FTT", "IN", "1IN", "CM", "mm", "KM", "футы", "μ", "Ft.", "m.", "0.1", "F.T"]:
        check_units(run, [w, w, w, w], None, pend, "unknown")
        check_units(run, [None, None, None, w], None, pend, "unknown")
    # index_unit argument
    for arg in ["m", "M", "ft", "FT", "metres", "feet", "", ".1in", ".1IN", "s", "mft", "FM"]:
        for u in (["FT"] * 4, ["M"] * 4, ["X"] * 4, [None, None, None, ".1IN"]):
            check_units(run, list(u), arg, pend, "index-unit-arg")
    # random strings over a small alphabet around the table (frequent near misses), random positions
    alpha = "MmFfTtEeRrSs.10IiNn" + "мМеЕтТрР" + "xé"
    for _ in range(run.budget(1500, 40000)):
        u = []
        for pos in range(4):
            r = rng.random()
            if r < 0.15:
                u.append(None)
            elif r < 0.5:
                u.append(rng.choice(variants(rng.choice(rng.choice(list(table.values()))))))
            else:
                u.append("".join(rng.choice(alpha) for _ in range(rng.randint(0, 4))))
        if u[3] is not None and u[3].startswith("."):
            u[3] = "0" + u[3]
        check_units(run, u, None, pend, "random")
        if len(pend) > 400:
            flush(run, pend)
    flush(run, pend)


def check_case_mapping(run):
    """Basic.upper / lower (used by the unit theorems) = str.upper / str.lower on the modelled alphabet; and the two facts the
    case-insensitivity proof rests on hold for CPython on that alphabet"""
    if run.model is None:
        return
    answers = ask_safe(run, [{"op": "vw.upper", "s": c} for c in SIGMA])
    for c, m in zip(SIGMA, answers):
        run.traces += 1
        real = {"upper": c.upper(), "lower": c.lower()}
        if m != real:
            run.disagree("str.upper/lower", {"char": c}, m, real, in_domain=True)
        if c.upper().upper() != c.upper() or c.lower().upper() != c.upper():
            run.fail("case-mapping-laws", {"char": c}, None)
    run.dist["case-mapping-chars"] = len(SIGMA)


def run(run):
    pend = []
    if os.path.isdir(SCRATCH):
        shutil.rmtree(SCRATCH, ignore_errors=True)
    check_case_mapping(run)
    # fixed objects: the untouched LASFile(), curves without rows, one of each awkward ingredient
    fixed = [
        {"fresh": True, "items": {}, "curves": []},
        {"fresh": False, "items": {}, "curves": []},
        {"fresh": True, "items": {}, "curves": [["DEPT", "M", "float", []], ["A", "", "float", []]]},
        {"fresh": True, "items": {"Well": [["X", "", ["np:int64", "3"], ""], ["Y", "", ["np:float64", "nan"], ""], ["Z", "", ["bool", "True"], ""],
                                           ["N", "", ["none", ""], ""], ["I", "", ["int", str(10 ** 30)], ""], ["B", "", ["np:bool", "True"], ""],
                                           ["F", "", ["np:float32", repr(float(np_().float32(1.1)))], ""], ["INF", "", ["float", "-inf"], ""]]},
         "curves": [["DEPT", "m", "float", ["1.0", "2.0", "nan"]], ["A", "x", "float", ["1.5", "inf", "-inf"]], ["A", "", "float", ["1.0", "nan", "3.0"]]]},
        {"fresh": True, "items": {}, "curves": [["DEPT", "m", "float", ["1.0", "2.0", "3.0"]], ["T", "", "text", ["a", "b,c", 'q"r']]]},
        {"fresh": True, "items": {}, "curves": [["T", "", "text", ["a", "", "l1\nl2"]]]},
        {"fresh": True, "items": {}, "curves": [["DEPT", "ft", "int", ["1", "2"]], ["", "", "float", ["nan", "nan"]], ["", "", "float", ["0.1", "1e-07"]]]},
        # regression (fixed 17e170b): a stale suffix (X1:3 after the second X1 is deleted) and NO rows -- an empty set_data renames nothing
        {"fresh": True, "items": {}, "curves": [["DEPT", "", "float", []], ["X1", "", "float", []], ["X1", "", "float", []], ["a", "", "float", []],
                                                ["X1", "", "float", []]], "delete": [2]},
        {"fresh": True, "items": {}, "curves": [["DEPT", "", "float", ["1.0"]], ["X1", "", "float", ["2.0"]], ["X1", "", "float", ["3.0"]],
                                                ["a", "", "float", ["4.0"]], ["X1", "", "float", ["5.0"]]], "delete": [2]},
    ]
    for spec in fixed:
        check_object(run, spec, pend, "fixed", excel=True)
    for text in REPAIRED_TEXTS:
        check_text_object(run, text, pend, "fixed-text")
    flush(run, pend)
    n = run.budget(500, 5000)
    n_excel = run.budget(20, 300)
    for i in range(n):
        spec = gen_spec(run.rng, excel_safe=(i < n_excel))
        check_object(run, spec, pend, "generated", excel=(i < n_excel), full_csv=(i % 8 == 0))
        if len(pend) > 300:
            flush(run, pend)
    flush(run, pend)
    check_corpus(run, pend)
    flush(run, pend)
    check_all_units(run, pend)
    flush(run, pend)
    if os.path.isdir(SCRATCH):
        shutil.rmtree(SCRATCH, ignore_errors=True)


def search(run, disagreements):
    """the tie broke (generated obligation or correspondence): look for an input on which the REAL code violates the property"""
    pend = []
    for d in disagreements[:50]:
        c = d["case"]
        if "spec" in c:
            check_object(run, c["spec"], pend, "search", excel=False)
        elif "text" in c:
            check_unit_text(run, c["text"], c.get("index_unit"), pend, "search")
    pend.clear()
    model, run.model = run.model, None     # oracle only
    try:
        for i in range(run.budget(1500, 20000)):
            check_object(run, gen_spec(run.rng), pend, "search", excel=False, full_csv=(i % 4 == 0))
            if run.failures:
                return
        check_all_units(run, pend)
    finally:
        run.model = model


def replay(run, payload):
    case = payload["case"]
    pend = []
    if "spec" in case:
        check_object(run, case["spec"], pend, "replay", excel=True)
    elif "file" in case:
        import lasio
        path = os.path.join(fw.REPO, case["file"])
        las = lasio.read(path)
        check_json(run, las, case, pend)
        check_csv(run, las, case, pend, full=True)
        check_df(run, las, case, lambda: lasio.read(path))
        check_excel(run, las, case)
    elif "las_text" in case:
        check_text_object(run, case["las_text"], pend, "replay")
    elif "text" in case:
        check_unit_text(run, case["text"], case.get("index_unit"), pend, "replay")
    return not run.failures


LEVEL_TEXT = ("Machine-checked Lean 4 theorems about an executable model of lasio's view logic: every scalar produced by _json_value + "
              "JSONEncoder.default is strict JSON (C18_json_strict; number texts are JSON number literals by type) and carries the value "
              "(C18_json_values, C18_json_carries_every_item/_curve under distinct session keys, counter-example for a repeated key); to_csv "
              "layout for ALL option combinations (C18_csv_layout, C18_csv_units_loc, C18_csv_default_width); index-unit detection depends only "
              "on the upper-cased candidate units for EVERY string (C18_units_case_insensitive, with upper∘upper = upper and upper∘lower = upper "
              "proved for the modelled alphabet), exact characterisation (C18_units_detect_iff), conflicts and unknown spellings give None, "
              "generated obligations over the current DEPTH_UNITS table by decide (C18_units_table_recognised, C18_units_table_conflicts, "
              "C18_depth_defined_on_recognised); depth_m = depth_ft x 381/1250 over the rationals on every branch (C18_depth_consistent); "
              "counter-example theorems for the repaired defects R13 / R18. Tie: vw.json / vw.csv / vw.unit / vw.depth vs the real code.")
LEVEL_NOTE = ("Props/C18Df.lean (model of set_data, C14): C18_df_roundtrip_names / C18_df_roundtrip_keys — set_data_from_df(df()) = set_data(table, names = session names) succeeds, keeps the number of curves, the arrays, units, values and descriptions, restores keys() when the session names are non-blank and pairwise distinct (C13's Distinct), and makes the ORIGINAL mnemonics equal to the old session names (a generated suffix GR:1 becomes part of the original); counter-examples: case-variant duplicates, a blank session name, unequal lengths. pandas itself is trusted. partial: the json/csv/openpyxl/pandas/numpy internals are trusted runtime — to_excel, df() and set_data_from_df are covered by the "
              "oracle only; float rounding of the depth conversions is not modelled (oracle: allclose rtol 1e-12).")
