"""C01 — Numeric curve data survives write->read within the printed precision."""
import io
import math
import re
import textwrap
from fractions import Fraction

from .. import framework as fw
from .. import matrixgen as mg

ID = "C01"
MODULE = "LasioProofs.Props.C01"
EXTRA_MODULES = ["LasioProofs.Props.C01File", "LasioProofs.Props.C01FileDlm"]
RULE = ("(i) `'%.Nf' % x` vs model fmtFixed on >= 10 000 binary64 values per run (random bit patterns, subnormals, 1e22, 1e308, 5e-324, "
        "decimal ties (k+0.5)/10^N, N in 0..12 and a few larger), plus `%w.Nf` and the supported/unsupported classification of format "
        "strings; (ii) textwrap.TextWrapper(width).wrap(row) vs model textWrap on data-like rows (blank/TAB spacers, widths 1..200), "
        "str.split() vs tokensWs, Fraction(token) vs decOfTok; (iii) matrix x option record: LASFile built with append_curve "
        "(1..40 curves biased to the multiples of the per-line field count, rows 1..8 quick / 1..50 thorough, values over the whole "
        "binary64 range, NaN masks outside column 0, NULL-equal cells, (row,column)-encoding cells) written with "
        "version x wrap x fmt x column_fmt x len_numeric_field x spacers x data_width x mnemonics_header x data_section_header; the "
        "text from the ~A line on is compared byte-exactly with model dataLines; oracle: the whole text is re-read with both engines "
        "and the property is checked cell by cell with exact rational arithmetic. non-trivial = configuration inside CfgOK with >= 2 "
        "curves; configurations outside CfgOK (unsupported format, non-blank spacer, "
        "non-numeric NULL, NULL clash) are generated and reported as context only")
TRUSTED = ["CPython float formatting ('%.Nf' is the correctly rounded, round-half-even decimal expansion of the binary value) and float() "
           "(correctly rounded strtod): modelled by fmtFixed / compared on every run",
           "textwrap.TextWrapper(break_long_words=False, break_on_hyphens=False) = whitespace-only chunking: modelled by textWrap and compared on "
           "every run on data-like rows incl. over-long and hyphenated words",
           "the reader side (lasio.read with both engines) is exercised by the oracle only; its model belongs to C02/C05/C09"]
ASSUMPTIONS = ["CfgOK: version in {1.2, 2}; spacer a non-empty string of blanks/TABs, lhs_spacer blanks/TABs (may be empty); fmt and every "
               "column_fmt of the form %[width].Nf; when wrapping, data_width >= 1 (a field wider than data_width stands alone on its line); NULL a "
               "finite number; NoNullClash: no finite non-index cell prints as a token numerically equal to NULL",
               "curves hold float64 data, finite or NaN, NaN never in the index curve; rows >= 1",
               "within half a unit of the last printed digit is read on the written decimal token (exact rationals); the value read back is "
               "float(token)"]

WS6 = "\t\n\x0b\x0c\r "
PLAIN = re.compile(r"^-?[0-9]+(\.[0-9]+)?$")


# ------------------------------------------------------------------------------------------ helpers
def jcfg(cfg):
    """JSON-able copy of an option record (column_fmt keys are ints)"""
    c = dict(cfg)
    c["column_fmt"] = sorted([int(k), v] for k, v in cfg["column_fmt"].items())
    return c


def cfg_from_json(c):
    c = dict(c)
    c["column_fmt"] = {int(k): v for k, v in c["column_fmt"]}
    return c


def build(names, rows, null):
    import lasio
    import numpy as np
    las = lasio.LASFile()
    for j, n in enumerate(names):
        las.append_curve(n, np.array([r[j] for r in rows], dtype=float))
    las.well["NULL"].value = null
    return las


def real_write(names, rows, null, cfg, earlier=None):
    """write the LASFile; with `earlier` the object first holds (and writes / evaluates .data for) the earlier matrix and its
    curve arrays are then edited IN PLACE to `rows` — the written text must reflect the arrays as they are now"""
    if earlier is None:
        las = build(names, rows, null)
    else:
        las = build(names, earlier, null)
        las.write(io.StringIO(), **cfg)
        _ = las.data
        for j in range(len(names)):
            arr = las.curves[j].data
            for i in range(len(rows)):
                arr[i] = rows[i][j]
    s = io.StringIO()
    las.write(s, **cfg)
    return las, s.getvalue()


def data_part(text):
    """the physical lines from the data-section header line on"""
    i = text.index("\n~Other ")
    j = text.index("\n", i + 1)
    lines = text[j + 1:].split("\n")
    # (every written line is terminated; an unterminated last line is returned as it is, marked, so that it shows up as a
    # disagreement with the model instead of stopping the harness)
    return lines[:-1] if lines[-1] == "" else lines[:-1] + [lines[-1] + "<no line terminator>"]


def lines_request(cfg, null_text, session_names, rows):
    return {"op": "dw.lines", "wrap": bool(cfg["wrap"]), "fmt": cfg["fmt"],
            "column_fmt": sorted([int(k), v] for k, v in cfg["column_fmt"].items() if int(k) >= 0),
            "len_numeric_field": cfg["len_numeric_field"], "lhs_spacer": cfg["lhs_spacer"], "spacer": cfg["spacer"],
            "data_width": cfg["data_width"], "header_width": cfg["header_width"],
            "data_section_header": cfg["data_section_header"], "mnemonics_header": bool(cfg["mnemonics_header"]),
            "null": null_text, "mnemonics": session_names, "rows": [[mg.enc(x) for x in r] for r in rows]}


def py_chunks(row):
    s = row.expandtabs(8)
    s = "".join(" " if c in WS6 else c for c in s)
    return re.findall(r" +|[^ ]+", s)


def ref_cell(x, fmt, l, sp, null_text):
    v = null_text if math.isnan(x) else fmt % x
    return sp + (v.rjust(l) if l != -1 else v)


def col_fmt(cfg, j):
    return cfg["column_fmt"].get(j, cfg["fmt"])


def is_finite_number(v):
    return isinstance(v, (int, float)) and not isinstance(v, bool) and not (isinstance(v, float) and (math.isnan(v) or math.isinf(v)))


def cfg_ok(cfg, null, rows):
    """(ok, reason) — the supported domain of the property"""
    if cfg["version"] not in (1.2, 2):
        return False, "version"
    sp, lhs = cfg["spacer"], cfg["lhs_spacer"]
    if not sp or set(sp) - {" ", "\t"}:
        return False, "spacer"
    if set(lhs) - {" ", "\t"}:
        return False, "lhs_spacer"
    if mg.fmt_parse(cfg["fmt"]) is None:
        return False, "fmt"
    ncols = len(rows[0])
    for k, f in cfg["column_fmt"].items():
        if mg.fmt_parse(f) is None and 0 <= k < ncols:
            return False, "column_fmt"
        if mg.fmt_parse(f) is None:
            return False, "column_fmt(unused)"
    if not is_finite_number(null):
        return False, "null"
    nullv = float(null)
    for r in rows:
        for j, x in enumerate(r):
            if j > 0 and not math.isnan(x):
                if float(col_fmt(cfg, j) % x) == nullv:
                    return False, "null-clash"
    if cfg["wrap"] and cfg["data_width"] < 1:
        return False, "data_width<1"
    # a field wider than data_width is in the domain since the repair 1d7c711 (it gets a line of its own, unbroken)
    return True, "ok"


# ------------------------------------------------------------------------------------------ oracle on the real code
def oracle(run, case, names, rows, null, cfg, las, text):
    """Executable reading of C01 on the real implementation: re-read `text` with both engines."""
    import lasio
    nrows, ncols = len(rows), len(rows[0])
    lines = data_part(text)
    toks = " ".join(lines[1:]).split()
    if len(toks) != nrows * ncols:
        run.fail("written-token-count", case, dict(expected=nrows * ncols, got=len(toks)))
        return
    session = [c.mnemonic for c in las.curves]
    for engine in ("numpy", "normal"):
        try:
            l2 = lasio.read(text, engine=engine)
        except Exception as e:
            run.fail("read-raises", case, dict(engine=engine, exc=repr(e)))
            continue
        if len(l2.curves) != ncols:
            run.fail("curve-count", case, dict(engine=engine, expected=ncols, got=len(l2.curves),
                                              shapes=[len(c.data) for c in l2.curves][:6]))
            continue
        if [c.original_mnemonic for c in l2.curves] != list(names) or [c.mnemonic for c in l2.curves] != session:
            run.fail("mnemonics", case, dict(engine=engine, got=[c.original_mnemonic for c in l2.curves]))
            continue
        lens = [len(c.data) for c in l2.curves]
        if any(n != nrows for n in lens):
            run.fail("row-count", case, dict(engine=engine, expected=nrows, got=lens[:6]))
            continue
        for i in range(nrows):
            for j in range(ncols):
                x = rows[i][j]
                y = float(l2.curves[j].data[i])
                tok = toks[i * ncols + j]
                if math.isnan(x):
                    if tok != str(null):
                        run.fail("nan-written-as-null", case, dict(i=i, j=j, token=tok))
                        return
                    if not math.isnan(y):
                        run.fail("nan-comes-back-nan", case, dict(engine=engine, i=i, j=j, got=y))
                        return
                    continue
                N = mg.fmt_parse(col_fmt(cfg, j))[1]
                m = PLAIN.match(tok)
                if not m or len((m.group(1) or ".")[1:]) != N:
                    run.fail("plain-token", case, dict(i=i, j=j, token=tok[:60], N=N))
                    return
                if abs(Fraction(tok) - Fraction(x)) > Fraction(1, 2 * 10 ** N):
                    run.fail("half-unit-of-last-digit", case, dict(i=i, j=j, token=tok[:60], x=x.hex(), N=N))
                    return
                if math.isnan(y):
                    run.fail("index-nulled" if j == 0 else "finite-comes-back-nan", case, dict(engine=engine, i=i, j=j, token=tok[:60]))
                    return
                if y != float(tok):
                    run.fail("read-value-is-float-of-token", case, dict(engine=engine, i=i, j=j, token=tok[:60], got=y.hex()))
                    return


# ------------------------------------------------------------------------------------------ one matrix x config case
def mkcase(names, rows, null, cfg):
    return {"cfg": jcfg(cfg), "null": null, "names": list(names), "rows": [[mg.tohex(x) for x in r] for r in rows]}


def uncase(case):
    return (case["names"], [[mg.fromhex(x) for x in r] for r in case["rows"]], case["null"], cfg_from_json(case["cfg"]))


def one(run, names, rows, null, cfg, kind, pending, with_oracle=True, earlier=None):
    case = mkcase(names, rows, null, cfg)
    if earlier is not None:
        case["earlier"] = [[mg.tohex(x) for x in r] for r in earlier]
    ok, why = cfg_ok(cfg, null, rows)
    nrows, ncols = len(rows), len(rows[0])
    k = mg.fields_per_line(cfg) if mg.fmt_parse(cfg["fmt"]) else 1
    tags = [kind, "ok" if ok else "ctx:" + why, "wrap=%s" % cfg["wrap"], "version=%s" % cfg["version"],
            "mh=%s" % cfg["mnemonics_header"], "dsh=" + cfg["data_section_header"],
            "lnf=" + ("None" if cfg["len_numeric_field"] is None else "-1" if cfg["len_numeric_field"] == -1 else "n"),
            "curves%%perline=%s" % ("0" if ncols % k == 0 else "x") if cfg["wrap"] else "unwrapped",
            "curves=%d-%d" % (10 * (ncols // 10), 10 * (ncols // 10) + 9), "rows=%d" % min(nrows, 9)]
    if any(math.isnan(x) for r in rows for x in r):
        tags.append("has-nan")
    run.case(case, nontrivial=ok and ncols >= 2, tags=tags)
    # integer conversions (%d, %i, %6d) are numeric formats too: outside the model (they truncate), but a finite-or-NaN table must
    # still be WRITTEN, its NaNs through the NULL marker
    fmts = [cfg["fmt"]] + [f for k_, f in cfg["column_fmt"].items() if 0 <= k_ < ncols]
    int_only = (not ok and why in ("fmt", "column_fmt") and all(mg.fmt_parse(f) is not None or f in ("%d", "%i", "%6d") for f in fmts)
                and all(math.isnan(x) or (not math.isinf(x) and abs(x) < 1e15) for r in rows for x in r) and is_finite_number(null))
    try:
        las, text = real_write(names, rows, null, cfg, earlier=earlier)
    except Exception as e:
        run.dist["write-raises:" + type(e).__name__ + (":ok" if ok else ":ctx")] += 1
        if ok:
            run.fail("write-raises", case, repr(e))
        elif int_only:
            run.fail("write-raises-integer-format", case, repr(e))
        return
    if int_only and any(math.isnan(x) for r in rows for x in r[1:]):
        body = data_part(text)
        toks = [t for ln in (body if isinstance(body, list) else str(body).split("\n")) for t in str(ln).split()]
        if any(t.lower() in ("nan", "-nan") for t in toks):
            run.fail("nan-not-through-null-marker", case, {"data": toks[:40]})
    real = data_part(text)
    session = [c.mnemonic for c in las.curves]
    pending.append((case, ok, real, lines_request(cfg, str(las.well["NULL"].value), session, rows)))
    if with_oracle:
        if ok:
            oracle(run, case, names, rows, null, cfg, las, text)
        else:
            probe = fw.Run(run.prop, run.tier, run.seed)
            try:
                oracle(probe, case, names, rows, null, cfg, las, text)
                run.dist["ctx-oracle:" + (probe.failures[0]["clause"] if probe.failures else "holds")] += 1
            except Exception as e:
                run.dist["ctx-oracle:exception " + type(e).__name__] += 1


def flush(run, pending):
    if run.model is None or not pending:
        pending.clear()
        return
    answers = run.model.ask([p[3] for p in pending], chunk=1)      # big requests: one at a time (no pipe deadlock)
    for (case, ok, real, _), m in zip(pending, answers):
        run.traces += 1
        if m == "unmodelled":
            run.dist["model-unmodelled" + (":ok" if ok else ":ctx")] += 1
            if ok:
                run.disagree("data-section-text", case, m, real[:3], in_domain=True)
            continue
        if m != real:
            k = next((i for i, (a, b) in enumerate(zip(m, real)) if a != b), min(len(m), len(real))) if isinstance(m, list) else None
            run.disagree("data-section-text", case, m[k:k + 2] if k is not None else m, real[k:k + 2] if k is not None else real[:2],
                         in_domain=ok)
    pending.clear()


# ------------------------------------------------------------------------------------------ streams (i), (ii)
def stream_fmt(run):
    rng = run.rng
    n = run.budget(12000, 120000)
    xs = []
    for _ in range(n):
        N = rng.choice([0, 1, 2, 3, 4, 5, 5, 6, 7, 8, 9, 10, 11, 12, rng.randint(13, 40)])
        k = rng.random()
        if k < 0.35:
            x = mg.random_bits(rng)
        elif k < 0.55:
            x = rng.uniform(-1e6, 1e6)
        elif k < 0.75:
            x = mg.tie(rng, N)
        elif k < 0.82:
            x = mg.dyadic_tie(rng, N)
        elif k < 0.88:
            x = mg.subnormal(rng)
        else:
            x = rng.choice(mg.SPECIALS + [float("nan"), float("inf"), float("-inf")])
        xs.append((N, x))
    B = 2000
    for i in range(0, len(xs), B):
        part = xs[i:i + B]
        ans = run.model.ask([{"op": "dw.fmt", "N": N, "x": mg.enc(x)} for N, x in part], chunk=256) if run.model else []
        for (N, x), a in zip(part, ans):
            real = ("%." + str(N) + "f") % x
            case = {"stream": "fmt", "N": N, "x": mg.tohex(x)}
            run.case(case, nontrivial=not (math.isnan(x) or math.isinf(x)), tags=["fmt", "N=%d" % min(N, 13)])
            run.traces += 1
            if a != real:
                run.disagree("fmtFixed", case, a[:80] if isinstance(a, str) else a, real[:80], in_domain=True)
    # format-string classification and width handling
    reqs, exp = [], []
    for f in mg.FMT_SUPPORTED + mg.FMT_UNSUPPORTED + ["%5.2f", "%0.3f", "%.3F", "%", "", "%.5f ", " %.5f", "%.5fx", "%..5f", "%5f", "%-8.2f"]:
        for _ in range(6):
            x = mg.moderate(rng)
            reqs.append({"op": "dw.apply", "fmt": f, "x": mg.enc(x)})
            exp.append((f, x, (f % x) if mg.fmt_parse(f) else "unsupported"))
    ans = run.model.ask(reqs) if run.model else []
    for (f, x, e), a in zip(exp, ans):
        case = {"stream": "apply", "fmt": f, "x": mg.tohex(x)}
        run.case(case, tags=["apply"])
        if a != e:
            run.disagree("fmtApply", case, a, e, in_domain=True)
    # len_numeric_field default
    for f in mg.FMT_SUPPORTED:
        cfg = mg.default_cfg()
        cfg["fmt"] = f
        a = run.model.ask1({"op": "dw.apply", "fmt": f, "x": mg.enc(math.pi)}) if run.model else None
        if run.model and a != f % math.pi:
            run.disagree("fmt%pi", {"fmt": f}, a, f % math.pi, in_domain=True)


def data_like_row(rng):
    n = rng.randint(0, 9)
    toks = ["1.0", "-2.5", "123456.789", "-9999.25", "0", "12345678901234", "-0.00000", "7", "nan", "1e-05", "-999.25000",
            "sand-shale", "a-b-c", "x\u2014y", "10000000000000000000000.00000", "well-known-long-hyphenated-word"]
    s = "".join(rng.choice([" ", "  ", "    ", "\t", " \t", "\t\t", "          "]) + rng.choice(toks) for _ in range(n))
    if rng.random() < 0.3:
        s = rng.choice(["", " ", "   ", "\t"]) + s
    if rng.random() < 0.2:
        s = s + rng.choice([" ", "   ", "\t"])
    if rng.random() < 0.1:
        s = s.lstrip()
    return s


def stream_wrap(run):
    rng = run.rng
    n = run.budget(6000, 60000)
    cases = []
    for _ in range(n):
        s = data_like_row(rng)
        w = rng.choice([rng.randint(1, 40), rng.randint(1, 40), rng.randint(20, 200), 79])
        cases.append((s, w))
    cases += [("", 5), ("   ", 5), (" 1.0", 1), ("\xa0 b", 2), ("1.0 \t 2.0", 4), ("1.0\t2.0", 8), ("a" * 9, 8), ("", 0), ("1", 0)]
    ans = run.model.ask([{"op": "dw.wrap", "width": w, "s": s} for s, w in cases], chunk=256) if run.model else []
    for (s, w), a in zip(cases, ans):
        case = {"stream": "wrap", "s": s, "width": w}
        fits = w > 0 and all(len(c) <= w for c in py_chunks(s))
        run.case(case, nontrivial=len(s) > w > 0, tags=["wrap", "fits" if fits else "chunk>width"])
        run.traces += 1
        try:
            # the wrapper as lasio.writer.write configures it since the repair 1d7c711 (only breaks at whitespace)
            real = textwrap.TextWrapper(width=w, break_long_words=False, break_on_hyphens=False).wrap(s)
        except ValueError:
            real = "unmodelled"
        if a != real:
            run.disagree("textWrap", case, a, real, in_domain=True)
    # tokensWs = str.split, decOfTok = Fraction
    rows = [data_like_row(rng) for _ in range(run.budget(1500, 15000))] + ["a\xa0b c \x1c d\x85e", "", " ", "x"]
    ans = run.model.ask([{"op": "dw.tokens", "s": s} for s in rows], chunk=256) if run.model else []
    for s, a in zip(rows, ans):
        run.traces += 1
        if a != s.split():
            run.disagree("tokensWs", {"stream": "tokens", "s": s}, a, s.split(), in_domain=True)
    toks = []
    for _ in range(run.budget(1500, 15000)):
        N = rng.randint(0, 12)
        toks.append(("%." + str(N) + "f") % mg.value(rng, N))
    toks += ["", "-", ".", "1.", ".5", "+2.50", "-0.000", "1e5", "1.2.3", "12a", " 1", "nan", "--1"]
    ans = run.model.ask([{"op": "dw.dec", "s": t} for t in toks], chunk=256) if run.model else []
    for t, a in zip(toks, ans):
        run.traces += 1
        if re.match(r"^[+-]?([0-9]+\.?[0-9]*|\.[0-9]+)$", t):
            k = len(t.split(".")[1]) if "." in t else 0
            e = [t.startswith("-"), str(abs(Fraction(t) * 10 ** k)), k]
        else:
            e = None
        if a != e:
            run.disagree("decOfTok", {"stream": "dec", "s": t}, a, e, in_domain=True)


# ------------------------------------------------------------------------------------------ stream (iii)
def null_value(rng):
    r = rng.random()
    if r < 0.7:
        return -999.25
    if r < 0.9:
        return rng.choice([-999, -9999.0, 0, -999.25, 1e-7, -1e30, 9999.99])
    return rng.choice(["NULL", "-999.25", None, float("nan")])        # outside CfgOK


def gen_matrix(rng, cfg, nrows, ncols, null):
    p = mg.fmt_parse(cfg["fmt"])
    N = p[1] if p else 5
    r = rng.random()
    kind = "rc" if r < 0.15 else "moderate" if r < 0.6 else "ties" if r < 0.68 else "wide"
    if cfg["wrap"] and kind == "wide" and rng.random() < 0.7:
        kind = "moderate"
    rows = mg.matrix(rng, nrows, ncols, kind, N, null if mg_isnum(null) else -999.25)
    if rng.random() < 0.6:
        mg.nan_mask(rng, rows, rng.choice([0.05, 0.3, 1.0]))
    if rng.random() < 0.2 and mg_isnum(null):
        mg.null_cells(rng, rows, null, 0.1)
        for rr in rows:                       # non-index NULL-equal cells are a NULL clash (context); keep index ones mostly
            if rng.random() < 0.8:
                for j in range(1, len(rr)):
                    if not math.isnan(rr[j]) and rr[j] == float(null):
                        rr[j] = 1.0
    return kind, rows


def mg_isnum(v):
    return is_finite_number(v)


def stream_files(run):
    rng = run.rng
    pending = []
    maxrows = run.budget(8, 50)

    def go(names, rows, null, cfg, kind, earlier=None):
        one(run, names, rows, null, cfg, kind, pending, earlier=earlier)
        if len(pending) >= 64:
            flush(run, pending)

    # boundary of "every formatted field fits on a wrapped line": data_width equal to the longest token (and one more)
    for _ in range(run.budget(60, 800)):
        cfg = mg.config(rng, supported_bias=1.0)
        cfg["wrap"] = True
        null = null_value(rng)
        ncols = rng.randint(2, 9)
        kind, rows = gen_matrix(rng, cfg, rng.randint(1, 3), ncols, null)
        try:
            lnf = cfg["len_numeric_field"]
            toks = [ref_cell(x, col_fmt(cfg, j), lnf if lnf is not None else 10, "", str(null)).strip() for r in rows for j, x in enumerate(r)]
        except Exception:
            continue
        longest = max(len(t) for t in toks)
        for extra in (0, 1, -1, -3, -longest + 1):
            c2 = dict(cfg)
            c2["data_width"] = max(longest + extra, 1)
            go(mg.names(rng, ncols), rows, null, c2, "boundary-data-width")
    # histories: the object was written (and .data evaluated) before its arrays were edited in place
    for _ in range(run.budget(80, 1000)):
        cfg = mg.config(rng, supported_bias=1.0)
        null = null_value(rng)
        ncols = rng.randint(1, 6)
        nrows = rng.randint(1, 5)
        _, earlier = gen_matrix(rng, cfg, nrows, ncols, null)
        kind, rows = gen_matrix(rng, cfg, nrows, ncols, null)
        go(mg.names(rng, ncols), rows, null, cfg, "edited-in-place-after-write", earlier=earlier)

    # long files: more rows than any buffer or block size a writer might use (2 columns, unpadded and padded, with and without a
    # left-hand spacer); every row must still be one line of its own
    for nrows, lnf, lhs in ((2050, -1, ""), (4100, None, ""), (2049, -1, " "), (2048, 12, "")):
        cfg = mg.default_cfg()
        cfg.update(len_numeric_field=lnf, lhs_spacer=lhs, fmt="%.2f")
        rows = [[1000.0 + 0.5 * i, float((7 * i) % 13) - 3.25] for i in range(nrows)]
        go(["DEPT", "GR"], rows, -999.25, cfg, "long-file")
        flush(run, pending)
    # the historical failure: 14, 21, 28 curves, wrap=True, default widths (7 fields per physical line)
    for ncols in (7, 14, 21, 28, 35, 6, 8, 13, 15):
        for nrows in (1, 2, 3, 5):
            for eng_kind in ("rc", "moderate"):
                cfg = mg.default_cfg()
                cfg["wrap"] = True
                rows = mg.matrix(rng, nrows, ncols, eng_kind)
                if eng_kind == "moderate":
                    mg.nan_mask(rng, rows, 0.2)
                go(mg.names(rng, ncols)[:1] + ["C%d" % j for j in range(1, ncols)], rows, -999.25, cfg, "historical-wrap-default")
    # every curve count 1..40 under default options, wrapped and not
    for ncols in range(1, 41):
        for wrap in (True, False):
            cfg = mg.default_cfg()
            cfg["wrap"] = wrap
            nrows = rng.randint(1, maxrows)
            rows = mg.matrix(rng, nrows, ncols, "moderate")
            mg.nan_mask(rng, rows, 0.15)
            go(["DEPT"] + ["C%d" % j for j in range(1, ncols)], rows, -999.25, cfg, "all-counts-default")
    # option records x shapes
    for _ in range(run.budget(700, 12000)):
        cfg = mg.config(rng)
        null = null_value(rng)
        for ncols in mg.curve_counts(rng, cfg, 2):
            nrows = rng.choice([1, 1, 2, 3, rng.randint(1, maxrows)])
            kind, rows = gen_matrix(rng, cfg, nrows, ncols, null)
            go(mg.names(rng, ncols), rows, null, cfg, kind)
    # every multiple of the per-line field count for a sample of wrapped configurations
    for _ in range(run.budget(25, 300)):
        cfg = mg.config(rng, supported_bias=1.0)
        cfg["wrap"] = True
        k = mg.fields_per_line(cfg)
        for ncols in range(k, 41, k):
            nrows = rng.randint(1, min(maxrows, 4))
            rows = mg.matrix(rng, nrows, ncols, rng.choice(["rc", "moderate"]), mg.fmt_parse(cfg["fmt"])[1])
            mg.nan_mask(rng, rows, 0.1)
            go(["DEPT"] + ["C%d" % j for j in range(1, ncols)], rows, -999.25, cfg, "multiples-of-per-line-count")
    flush(run, pending)


def oracle_exp(run, case, names, rows, null, cfg, text):
    """exponent notation (`%.Ne`, outside the model): same curves, rows, and every finite sample read back as float(token), the token
    within half a unit of its last printed digit; NaN through the NULL marker"""
    import lasio
    nrows, ncols = len(rows), len(rows[0])
    toks = " ".join(data_part(text)[1:]).split()
    if len(toks) != nrows * ncols:
        run.fail("written-token-count", case, dict(expected=nrows * ncols, got=len(toks)))
        return
    N = int(cfg["fmt"][2:-1])
    for engine in ("numpy", "normal"):
        try:
            l2 = lasio.read(text, engine=engine)
        except Exception as e:
            run.fail("read-raises", case, dict(engine=engine, exc=repr(e)))
            continue
        if len(l2.curves) != ncols or any(len(c.data) != nrows for c in l2.curves):
            run.fail("curve-count" if len(l2.curves) != ncols else "row-count", case,
                     dict(engine=engine, expected=[ncols, nrows], got=[len(c.data) for c in l2.curves][:8]))
            continue
        for i in range(nrows):
            for j in range(ncols):
                x, y, tok = rows[i][j], float(l2.curves[j].data[i]), toks[i * ncols + j]
                if math.isnan(x):
                    if tok != str(null) or not math.isnan(y):
                        run.fail("nan-comes-back-nan", case, dict(engine=engine, i=i, j=j, token=tok, got=repr(y)))
                        return
                    continue
                e10 = int(tok.lower().split("e")[1]) if "e" in tok.lower() else 0
                if y != float(tok) or abs(Fraction(tok) - Fraction(x)) > Fraction(10) ** (e10 - N) / 2:
                    run.fail("read-value-is-float-of-token", case, dict(engine=engine, i=i, j=j, token=tok, got=y.hex(), x=x.hex()))
                    return


def stream_exponent(run, only=None):
    """numeric formats in exponent notation: negative exponents next to negative values, a first row without any hyphen, wrapped and
    unwrapped, both engines (the hyphen inside `1.5000e-05` is not a separator)"""
    shapes = only or [(c, r, f, w, lnf) for c in (2, 3, 5) for r in (3, 4) for f in ("%.4e", "%.7E", "%.3e") for w in (False, True) for lnf in (None, -1)]
    for c, r, f, w, lnf in shapes:
        names = ["DEPT"] + ["C%d" % j for j in range(1, c)]
        rows = [[(1.0 + 0.25 * (i * c + j)) * (10.0 ** ((3 if i == 0 else -5 + j) if (i == 0 or (i + j) % 2) else 2)) * (1.0 if i == 0 or j == 0 or (i * j) % 3 else -1.0)
                 for j in range(c)] for i in range(r)]
        if r > 2 and c > 1:
            rows[2][1] = float("nan")
        cfg = dict(mg.default_cfg(), fmt=f, wrap=w, len_numeric_field=lnf, data_width=40 if w else 79)
        case = dict(mkcase(names, rows, "-999.25", cfg), stream="exponent", shape=[c, r, f, w, lnf])
        run.case(case, nontrivial=True, tags=["exponent", "wrap=%s" % w, f])
        try:
            las, text = real_write(names, rows, "-999.25", cfg)
        except Exception as e:
            run.fail("write-raises", case, repr(e))
            continue
        oracle_exp(run, case, names, rows, "-999.25", cfg, text)


def run(run):
    stream_fmt(run)
    stream_wrap(run)
    stream_files(run)
    stream_exponent(run)


# ------------------------------------------------------------------------------------------ search / shrink / replay
def search(run, disagreements):
    """Broken correspondence: run the oracle on the disagreeing matrix cases and on fresh ones."""
    for d in disagreements[:40]:
        c = d["case"]
        if "cfg" not in c:
            continue
        names, rows, null, cfg = uncase(c)
        if not cfg_ok(cfg, null, rows)[0]:
            continue
        try:
            las, text = real_write(names, rows, null, cfg)
            oracle(run, c, names, rows, null, cfg, las, text)
        except Exception as e:
            run.fail("write-raises", c, repr(e))
        if run.failures:
            return
    pending = []
    for _ in range(run.budget(400, 4000)):
        cfg = mg.config(run.rng, supported_bias=1.0)
        ncols = mg.curve_counts(run.rng, cfg, 1)[0]
        kind, rows = gen_matrix(run.rng, cfg, run.rng.randint(1, 6), ncols, -999.25)
        one(run, mg.names(run.rng, ncols), rows, -999.25, cfg, "search", pending)
        pending.clear()
        if run.failures:
            return


def _fails(run, clause, names, rows, null, cfg, earlier=None):
    probe = fw.Run(run.prop, run.tier, run.seed)
    if not rows or not rows[0] or not cfg_ok(cfg, null, rows)[0]:
        return None
    case = mkcase(names, rows, null, cfg)
    try:
        las, text = real_write(names, rows, null, cfg)
        oracle(probe, case, names, rows, null, cfg, las, text)
    except Exception as e:
        probe.fail("write-raises", case, repr(e))
    return next((f for f in probe.failures if f["clause"] == clause), None)


def shrink(run, f):
    """fewer rows, then fewer trailing curves, then default options, while the same clause still fails"""
    if "cfg" not in f["case"]:
        return f
    names, rows, null, cfg = uncase(f["case"])
    best = f
    changed = True
    while changed:
        changed = False
        cands = []
        if len(rows) > 1:
            cands += [(names, rows[:len(rows) // 2], cfg), (names, rows[1:], cfg), (names, rows[:-1], cfg)]
        if len(names) > 1:
            cands += [(names[:-1], [r[:-1] for r in rows], cfg)]
        d = mg.default_cfg()
        for key in d:
            if cfg[key] != d[key] and not (key == "version" and cfg[key] in (2, 2.0)):
                c2 = dict(cfg)
                c2[key] = d[key]
                cands.append((names, rows, c2))
        for n2, r2, c2 in cands:
            r = _fails(run, f["clause"], n2, r2, null, c2)
            if r:
                names, rows, cfg, best, changed = n2, r2, c2, r, True
                break
    return best


def replay(run, payload):
    case = payload["case"]
    if "cfg" not in case:
        return True
    if case.get("stream") == "exponent":
        sh = case["shape"]
        stream_exponent(run, only=[(sh[0], sh[1], sh[2], sh[3], sh[4])])
        return not run.failures
    names, rows, null, cfg = uncase(case)
    earlier = [[mg.fromhex(x) for x in r] for r in case["earlier"]] if "earlier" in case else None
    try:
        las, text = real_write(names, rows, null, cfg, earlier=earlier)
        oracle(run, case, names, rows, null, cfg, las, text)
    except Exception as e:
        run.fail("write-raises", case, repr(e))
    return not run.failures


LEVEL_TEXT = ("Machine-checked Lean 4 theorems (C01_*) about an executable model of the data-section writer (exact %.Nf of a binary64 value "
              "carried as sign/mantissa/exponent, format_data_section_line, per-column formats, spacers, the ~A line, TextWrapper chunk model): "
              "the printed decimal is within half a unit of its last digit of the exact binary value and has exactly N fraction digits; "
              "printed tokens are plain numeric tokens; whitespace tokenisation of a row returns exactly the cell tokens under CfgOK; wrapping "
              "only moves line breaks between tokens, never exceeds the width and emits no blank line; NaN is written as the NULL text; "
              "re-printing a printed decimal is the identity. The model is tied to lasio/writer.py by a byte-exact comparison of the emitted "
              "data section over matrix x option records, and the end-to-end property (write, then read with both engines) is evaluated on "
              "the real code by an exact-rational oracle for every explored case.")
LEVEL_NOTE = ("With the default `DLM . SPACE` item of lasio.LASFile() in ~Version (Props/C01FileDlm.lean, hypothesis DlmOK instead of 'no DLM item'): C03_file_dlm, C01_file_dlm(+_wrapYes, _unwrapped), C11_file_fixed_point_dlm / C11_file_iterate_dlm (all four steering values equal), C12_file_dlm; counter-examples DLM COMMA over blank-separated data (known finding dlm-not-space), DLM FOO (KeyError); two DLM items are ignored by the reader. WHOLE FILE (Props/C01File.lean): C01_file — Tf.readFull of the text of one write call (header lines ++ ~A line ++ body) returns the five header sections of C03_file, all four steering values (vers, WRAP, NULL, no DLM) and exactly one data window handed to readData; C01_file_wrapYes / C01_file_unwrapped give its curves as the written matrix; C01_file_samples restates the property (same number of curves and rows, NaN iff NaN outside the index, index never nulled, finite samples within half a unit of the last digit); C01_file_writeObj connects to Wo.writeObj. Not covered there: a DLM item, lines after the data section, text columns. Theorems are about the writer model; the reader half of the round trip is covered here by the oracle on explored inputs only "
              "(its model and theorems are C02/C05/C09). model = code holds on the explored inputs. Trusted: Lean kernel, driver compilation, "
              "CPython '%f' / float() / textwrap as modelled and compared on every run.")

RULE = RULE + ("; ALSO (fifth session): directed stream `exponent` (%.4e / %.7E / %.3e, negative exponents next to negative values, a first row without a hyphen, wrapped and unwrapped, both engines; oracle only) and the integer conversions %d / %i / %6d (outside the model: the table must still be written, NaN through the NULL marker)")
