"""C15 — Section lookup by key, attribute, membership and get() always agree."""
from .. import framework as fw
from .. import secops

ID = "C15"
MODULE = "LasioProofs.Props.C15"
EXTRA_MODULES = ["LasioProofs.Props.C15Frame"]
RULE = ("operation sequences over SectionItems (append/insert/del/pop/setitem/setval/get over a 5-name alphabet incl. blank, "
        "case variants and X:<digits>), exhaustive up to a length bound then random longer ones, x mnemonic_transforms on/off; after "
        "every step the real section is compared with the Lean model (result enum, originals, session names, values, 10 probe keys: "
        "membership + position of s[k]); non-trivial = the final section holds >= 2 items or the sequence hit an error enum")
TRUSTED = ["Python list semantics for insert/pop/del index normalisation (modelled as pyIndex / pyInsertPos, compared on every run)"]
ASSUMPTIONS = ["keys are str or int (other key types are outside the property)",
               "attribute clause is taken over keys that are identifiers and not attributes of the SectionItems class (dir() of the live class)"]


def clone(sec):
    from lasio import HeaderItem, SectionItems
    s = SectionItems()
    for it in list.__iter__(sec):
        n = HeaderItem(it.original_mnemonic, it.unit, it.value, it.descr)
        n.set_session_mnemonic_only(it.mnemonic)
        list.append(s, n)
    if sec.mnemonic_transforms:
        s.mnemonic_transforms = True
    return s


def snap(sec):
    return [(i.original_mnemonic, i.mnemonic, i.unit, str(i.value), i.descr) for i in list.__iter__(sec)]


def oracle(run, sec, case):
    """Executable reading of C15 on a real SectionItems value."""
    from lasio import SectionItems
    tr = sec.mnemonic_transforms
    eq = (lambda a, b: a.upper() == b.upper()) if tr else (lambda a, b: a == b)
    items = list(list.__iter__(sec))
    reserved = set(dir(sec))      # class attributes and plain instance attributes shadow item lookup (Python semantics)
    before = snap(sec)
    for k in secops.KEYS + ["Q", "unknown", "", " "]:
        if isinstance(k, str):
            try:
                c = k in sec
            except Exception as e:
                run.fail("contains-raises", case, dict(key=k, exc=repr(e)))
                continue
            try:
                it = sec[k]
                ok = True
            except KeyError:
                ok = False
            except Exception as e:
                run.fail("getitem-wrong-exception", case, dict(key=k, exc=repr(e)))
                continue
            if c != ok:
                run.fail("contains-iff-getitem", case, dict(key=k, contains=c, getitem_ok=ok))
                continue
            first = next((x for x in items if eq(x.mnemonic, k)), None)
            if ok and (it is not first):
                run.fail("first-match", case, dict(key=k))
            if (not ok) and first is not None:
                run.fail("first-match-missed", case, dict(key=k))
            if ok and k.isidentifier() and k not in reserved:
                try:
                    if getattr(sec, k) is not it:
                        run.fail("getattr-eq-getitem", case, dict(key=k))
                except Exception as e:
                    run.fail("getattr-eq-getitem", case, dict(key=k, exc=repr(e)))
            # get() purity
            g = sec.get(k)
            if snap(sec) != before:
                run.fail("get-pure", case, dict(key=k))
                return
            if ok and g is not it:
                run.fail("get-returns-item", case, dict(key=k))
            c2 = clone(sec)
            c2.get(k, default="d", add=True)
            after = snap(c2)
            if ok:
                if after != before:
                    run.fail("get-add-present-changes", case, dict(key=k))
            else:
                if len(after) != len(before) + 1 or after[-1][0] != k or [a[0] for a in after[:-1]] != [b[0] for b in before] \
                        or [(a[2], a[3], a[4]) for a in after[:-1]] != [(b[2], b[3], b[4]) for b in before]:
                    run.fail("get-add-appends-one", case, dict(key=k, before=before, after=after))
            # missing key: KeyError from deletion, nothing changed
            c3 = clone(sec)
            try:
                del c3[k]
                deleted = True
            except KeyError:
                deleted = False
            except Exception as e:
                run.fail("delitem-wrong-exception", case, dict(key=k, exc=repr(e)))
                continue
            if deleted != ok:
                run.fail("delete-iff-present", case, dict(key=k))
            elif deleted:
                idx = next(j for j, x in enumerate(items) if x is first)
                if snap(c3) != before[:idx] + before[idx + 1:]:
                    run.fail("delete-exact", case, dict(key=k, before=before, after=snap(c3)))
            elif snap(c3) != before:
                run.fail("failed-delete-changes", case, dict(key=k))
            # plain value assignment changes only that item's value
            if ok:
                c4 = clone(sec)
                c4[k] = "NEWVALUE"
                idx = next(j for j, x in enumerate(items) if x is first)
                exp = list(before)
                exp[idx] = (exp[idx][0], exp[idx][1], exp[idx][2], "NEWVALUE", exp[idx][4])
                if snap(c4) != exp:
                    run.fail("set-value-frame", case, dict(key=k, before=before, after=snap(c4)))
        else:
            # integer keys address positions exactly as in a list
            try:
                exp = list.__getitem__(sec, k)
            except IndexError:
                exp = IndexError
            try:
                got = sec[k]
            except IndexError:
                got = IndexError
            except Exception as e:
                got = repr(e)
            if got is not exp:
                run.fail("int-key-as-list", case, dict(key=k))
            c5 = clone(sec)
            ref = list(before)
            try:
                del ref[k]
                refok = True
            except IndexError:
                refok = False
            try:
                del c5[k]
                gotok = True
            except IndexError:
                gotok = False
            except Exception as e:
                gotok = repr(e)
            if gotok != refok or (refok and snap(c5) != ref):
                run.fail("int-delete-as-list", case, dict(key=k))
    # membership of ITEMS, and the dict-style views: list order, session mnemonics as keys
    from lasio import HeaderItem
    for x in items:
        try:
            if x not in sec:
                run.fail("item-membership", case, dict(item=x.mnemonic))
        except Exception as e:
            run.fail("item-membership", case, dict(item=x.mnemonic, exc=repr(e)))
    try:
        if HeaderItem("ZZ-not-there") in sec:
            run.fail("item-membership-absent", case, None)
    except Exception as e:
        run.fail("item-membership-absent", case, dict(exc=repr(e)))
    try:
        ks = [i.mnemonic for i in items]
        views = [sec.keys(), list(sec.iterkeys()), [i for i in sec.values()], list(sec.itervalues()), sec.items(), list(sec.iteritems())]
        exp = [ks, ks, items, items, list(zip(ks, items)), list(zip(ks, items))]
        for got, want in zip(views, exp):
            if len(got) != len(want) or any((a is not b) if not isinstance(a, (str, tuple)) else
                                            (a != b if isinstance(a, str) else (a[0] != b[0] or a[1] is not b[1])) for a, b in zip(got, want)):
                run.fail("dict-views", case, dict(keys=ks))
                break
        for x in items:       # item["mnemonic"] etc. read the attributes
            if (x["mnemonic"], x["unit"], x["value"], x["descr"]) != (x.mnemonic, x.unit, x.value, x.descr) or x["original_mnemonic"] != x.original_mnemonic:
                run.fail("item-getitem", case, dict(item=x.mnemonic))
    except Exception as e:
        run.fail("dict-views", case, dict(exc=repr(e)))
    if snap(sec) != before:
        run.fail("views-change-section", case, dict(before=before, after=snap(sec)))
    for sl in (slice(0, 2), slice(1, None), slice(None, None, 2), slice(-2, None), slice(2, None), slice(None, None, -1), slice(1, 4, 2)):
        got = sec[sl]
        exp = list.__getitem__(sec, sl)
        if len(got) != len(exp) or any(a is not b for a, b in zip(list.__iter__(got), exp)):
            run.fail("slice-as-list", case, dict(slice=str(sl)))
        if snap(sec) != before:      # taking a slice is a read: the section (session names included) stays as it is
            run.fail("slice-changes-section", case, dict(slice=str(sl), before=before, after=snap(sec)))
            break


def curve_section_get(run):
    """`get()` on a section of CurveItems: a string default becomes the description of a new CurveItem whose data is a NaN array of
    the first curve's length; without add=True the section is untouched, with add=True exactly one item is appended"""
    import numpy as np
    from lasio import CurveItem, SectionItems
    for n in (0, 1, 3):
        for names in (["DEPT"], ["DEPT", "A", "A"], []):
            for add in (False, True):
                for key in ("A", "NEW", "dept", ""):
                    for tr in (False, True):
                        sec = SectionItems()
                        for k, nm in enumerate(names):
                            sec.append(CurveItem(nm, "u", "", "d%d" % k, np.arange(n, dtype=float) + k))
                        sec.mnemonic_transforms = tr
                        case = {"curve-section-get": {"n": n, "names": names, "add": add, "key": key, "tr": tr}}
                        run.case(case, nontrivial=bool(names), tags=["curve-get"])
                        before = [(i.original_mnemonic, i.mnemonic, i.descr, (list(i.data) if getattr(i, 'data', None) is not None else None)) for i in list.__iter__(sec)]
                        present = key in sec
                        try:
                            it = sec.get(key, default="dflt", add=add)
                        except Exception as e:
                            if names or not isinstance(e, IndexError):      # (an empty section has no first curve to take the length from)
                                run.fail("curve-get-raises", case, dict(exc=repr(e)))
                            continue
                        after = [(i.original_mnemonic, i.mnemonic, i.descr, (list(i.data) if getattr(i, 'data', None) is not None else None)) for i in list.__iter__(sec)]
                        if present or not add:
                            if after != before or (present and it is not sec[key]):
                                run.fail("curve-get-pure", case, dict(before=before, after=after))
                        else:
                            ok = len(after) == len(before) + 1 and list.__getitem__(sec, len(sec) - 1) is it and \
                                [a[0] for a in after[:-1]] == [b[0] for b in before] and [a[3] for a in after[:-1]] == [b[3] for b in before]
                            if not names:       # an empty section: a plain HeaderItem with the default as its value
                                ok = ok and type(it).__name__ == "HeaderItem" and it.value == "dflt"
                            else:
                                ok = ok and it.descr == "dflt" and len(it.data) == n and all(x != x for x in it.data)
                            if not ok or it.original_mnemonic != key:
                                run.fail("curve-get-add", case, dict(before=before, after=[(a[0], a[1], a[2], repr(a[3])) for a in after]))


def one(run, seq, tr, kind, with_oracle=True):
    real = secops.run_real(seq, tr, secops.KEYS)
    case = {"tr": tr, "ops": seq}
    nontrivial = len(real[-1]["items"]) >= 2 or any(isinstance(s["r"], str) and s["r"].endswith("Error") for s in real)
    run.case(case, nontrivial=nontrivial, tags=[kind, "len=%d" % len(seq), "final_items=%d" % min(len(real[-1]["items"]), 5)]
             + ["err=" + s["r"] for s in real if isinstance(s["r"], str) and s["r"].endswith("Error")])
    if with_oracle:
        sec = secops.new_section(tr)
        for n, op in enumerate(seq):
            present = op[0] == "setattr" and (op[1] in sec)
            before = snap(sec)
            secops.apply_real(sec, op)
            for k_ in secops.KEYS:        # look-ups between the operations (what a caller does; they must not matter later)
                secops.probe(sec, k_)
            if op[0] == "setattr":
                # `section.<key> = value` must behave like `section[key] = value` when the key is present, else leave the items alone
                c2 = {"tr": tr, "ops": seq[:n + 1]}
                if present:
                    try:
                        it = sec[op[1]]
                        idx = next(j for j, x in enumerate(list.__iter__(sec)) if x is it)
                        exp = list(before)
                        exp[idx] = (exp[idx][0], exp[idx][1], exp[idx][2], op[2], exp[idx][4])
                        if snap(sec) != exp:
                            run.fail("setattr-sets-value", c2, dict(key=op[1], before=before, after=snap(sec)))
                    except Exception as e:
                        run.fail("setattr-sets-value", c2, dict(key=op[1], exc=repr(e)))
                elif snap(sec) != before:
                    run.fail("setattr-missing-key-changes-items", c2, dict(key=op[1]))
            strip_session = lambda sn: [(a, c, d, e) for (a, b, c, d, e) in sn]
            if op[0] == "getdef" and (strip_session(snap(sec))[:len(before)] != strip_session(before) or (not op[3] and snap(sec) != before)):
                run.fail("get-default-item-mutates-section", {"tr": tr, "ops": seq[:n + 1]}, dict(before=before, after=snap(sec)))
        oracle(run, sec, case)
    return case, real


def run(run):
    batch = []
    LIM = 256
    curve_section_get(run)

    def flush():
        if not batch or run.model is None:
            batch.clear()
            return
        answers = run.model.ask([secops.request(c["ops"], c["tr"], secops.KEYS) for c, _ in batch])
        for (c, real), m in zip(batch, answers):
            run.traces += 1
            if m != real:
                # first differing step
                step = next((i for i, (a, b) in enumerate(zip(m, real)) if a != b), None) if isinstance(m, list) else None
                run.disagree("SectionItems-state-machine", c, m[step] if step is not None else m,
                             real[step] if step is not None else None, in_domain=True)
        batch.clear()

    for seq, kind in secops.sequences(run, 2, 3, 2500, 30000):
        for tr in (False, True):
            batch.append(one(run, seq, tr, kind))
            if len(batch) >= LIM:
                flush()
    flush()
    run.exhaustive = False


def search(run, disagreements):
    """Broken correspondence: run the oracle on the disagreeing sequences, their prefixes and fresh random batches."""
    for d in disagreements[:50]:
        seq, tr = d["case"]["ops"], d["case"]["tr"]
        for n in range(1, len(seq) + 1):
            sec = secops.new_section(tr)
            for op in seq[:n]:
                secops.apply_real(sec, op)
            oracle(run, sec, {"tr": tr, "ops": seq[:n]})
    ops = secops.alphabet()
    for _ in range(run.budget(5000, 50000)):
        n = run.rng.randint(1, 8)
        seq = secops.with_values([run.rng.choice(ops) for _ in range(n)])
        tr = run.rng.random() < 0.5
        sec = secops.new_section(tr)
        for op in seq:
            secops.apply_real(sec, op)
        oracle(run, sec, {"tr": tr, "ops": seq})
        if run.failures:
            return


def shrink(run, f):
    """drop operations while the same clause still fails"""
    case = f["case"]
    seq, tr = list(case["ops"]), case["tr"]

    def fails(s):
        probe = fw.Run(run.prop, run.tier, run.seed)
        sec = secops.new_section(tr)
        for op in s:
            secops.apply_real(sec, op)
        oracle(probe, sec, {"tr": tr, "ops": s})
        return next((x for x in probe.failures if x["clause"] == f["clause"]), None)
    changed = True
    best = f
    while changed:
        changed = False
        for i in range(len(seq)):
            cand = seq[:i] + seq[i + 1:]
            r = fails(cand)
            if r:
                seq, best, changed = cand, r, True
                break
    return best


def replay(run, payload):
    case = payload["case"]
    sec = secops.new_section(case["tr"])
    for op in case["ops"]:
        secops.apply_real(sec, op)
    oracle(run, sec, case)
    return not run.failures

LEVEL_TEXT = ("Machine-checked Lean 4 theorems (C15_*) over EVERY section value, key and transforms setting of an executable model of "
              "SectionItems' accessors (contains/getitem/getattr/delitem/get/set_item_value, Python index rules); the model is tied to "
              "lasio/las_items.py by a correspondence check that replays operation sequences (exhaustive to a length bound, then random) on "
              "the real class and on the compiled model and diffs state + 10 probe keys after every step, and by an executable reading of "
              "the property (oracle) run on the real class for every explored state.")
LEVEL_NOTE = ("Props/C15Frame.lean (sixth session): C15_set_value_lookups - after `s[k] = v` through any key form every lookup of every key (find, membership, s[k'], s.k', session and original key lists) answers exactly as before, for every section and both transform settings; C15_pop_eq_del_int (pop(i) = del s[i] for every integer), C15_delete_keys (key lists lose exactly the addressed entry). Theorems are about the model; model = code is established only on the explored sequences. Keys are str/int. Attribute clause over "
              "identifiers that are not class attributes. Trusted: Lean kernel, driver compilation, CPython list semantics.")

RULE = RULE + ("; ALSO (fifth session): `setval` with plain values that are not str / int / float (None, numpy scalars, list, tuple, bytes, bool)")
