#!/bin/bash
# tools/seedintake.sh <seedout-dir> <Cxx> <first-letter> [extra checks...] : confirm each change k of <seedout-dir>/<k>, keep the
# confirmed ones as /verif/seeded/<Cxx>-<letter>, run the quick check(s) against them; prints one line per step.
src=$1; pid=$2; letter=$3; shift 3; extra="$@"
letters=(a b c d e f g h i j k l m n o p q r s t u v w)
idx=0; for i in "${!letters[@]}"; do [ "${letters[$i]}" = "$letter" ] && idx=$i; done
for k in $(ls $src | sort -n); do
  [ -f $src/$k/patch.diff ] || continue
  name=$pid-${letters[$idx]}; idx=$((idx+1))
  (
    res=$(/verif/tools/seedconfirm.sh $src/$k 2>&1 | tail -3 | tr '\n' ' ')
    echo "$name <- $src/$k : $res"
    if echo "$res" | grep -q "demo clean=0 mutated=[1-9]" && echo "$res" | grep -q "254/254"; then
      mkdir -p /verif/seeded/$name && cp $src/$k/patch.diff $src/$k/demo.py $src/$k/meta.json /verif/seeded/$name/
      /verif/tools/seedrun.sh seeded/$name $pid $extra
    else
      echo "$name NOT CONFIRMED"
    fi
  ) &
done
wait
