#!/bin/bash
# tools/intakeround.sh <round-tag> <Cxx>... : seedintake for /tmp/seedout-cNNr<tag> of each property, next free letters; prints check lines only
tag=$1; shift
for p in "$@"; do
  n=$(echo $p | tr 'C' 'c')
  [ -d /tmp/seedout-${n}${tag} ] || { echo "$p: no output"; continue; }
  L=$(ls -d /verif/seeded/$p-* | sed 's/.*-//' | sort | tail -1)
  nl=$(echo $L | tr 'a-r' 'b-s')
  /verif/tools/seedintake.sh /tmp/seedout-${n}${tag} $p $nl 2>&1 | grep -v "^WARNING\|vanished\|rsync" | grep -v " <- " | cut -c1-230
done
