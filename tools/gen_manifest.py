#!/venv/bin/python
"""Regenerates MANIFEST.json from the property modules present under harness/props (run from /verif)."""
import importlib, json, os, sys
sys.path.insert(0, os.path.dirname(os.path.dirname(os.path.abspath(__file__))))
ROOT = os.path.dirname(os.path.dirname(os.path.abspath(__file__)))
props = [json.loads(l) for l in open(os.path.join(ROOT, "properties.jsonl"))]
base = json.load(open("/root/.vp/BASELINE.json"))
checks, na = [], []
MODS = []
PENDING = {}
# property checks that are complete (a module file may exist while a helper is still writing it)
READY = set(open(os.path.join(ROOT, "tools", "ready.txt")).read().split())
for p in props:
    pid = p["id"]
    path = os.path.join(ROOT, "harness", "props", pid.lower() + ".py")
    if not os.path.exists(path) or pid not in READY:
        na.append({"property_id": pid, "reason": PENDING.get(pid, "check not built yet in this tree (Lean model of this part of lasio still to be written); not claimed")})
        continue
    m = importlib.import_module("harness.props." + pid.lower())
    MODS.extend([m.MODULE] + list(getattr(m, "EXTRA_MODULES", [])))
    checks.append({
        "property_id": pid,
        "quick_cmd": "./check %s --tier quick" % pid,
        "thorough_cmd": "./check %s --tier thorough" % pid,
        "evidence_file": "evidence/%s.json" % pid,
        "replay_cmd_template": "./check %s --replay {path}" % pid,
        "engine": "lean-model+correspondence",
        "level_claimed": {"category": "proof", "text": m.LEVEL_TEXT, "design_ref": "DESIGN.md section 6/" + pid},
        "level_note": m.LEVEL_NOTE,
        "technique": getattr(m, "TECHNIQUE", "Lean 4 theorems about an executable model of the code + correspondence check model-vs-implementation + oracle search on breakage"),
    })
man = {
    "version": 1,
    "setup_cmd": "cd lean && lake build lasio_driver && (lake build " + " ".join(dict.fromkeys(MODS)) + " || true) && cd .. && ./check --selftest",
    "hooks": {"guard": "KINVERARITY1_LASIO_VERIF", "enable": "none - all instrumentation is in-process wrapping by the harness; no hook commits in /repo",
              "baseline_off_cmd": base["cmd"], "source_commits": [], "add_only": True},
    "engines": [{"name": "lean-model+correspondence", "path": "lean/ + harness/", "serves_properties": [c["property_id"] for c in checks],
                 "kind_free_text": "Lean 4 executable model + machine-checked theorems (lake build, #print axioms audit), translator-generated tables (harness/translate.py), compiled driver behind a JSON line protocol, Python correspondence/oracle harness running the real lasio in-process"}],
    "checks": checks,
    "not_applicable": na,
    "notes": "See DESIGN.md. Exit 0 = held on everything explored; exit 1 + VIOLATION line; exit 2 = infrastructure error (never a verdict).",
}
json.dump(man, open(os.path.join(ROOT, "MANIFEST.json"), "w"), indent=1)
print("checks:", [c["property_id"] for c in checks], "not claimed:", len(na))
