#!/usr/bin/env python3
"""tools/mkresults.py <seedall log> : writes seeded/RESULTS.json (seed -> how its own property's check reported it)"""
import json, os, re, sys
ROOT = os.path.dirname(os.path.dirname(os.path.abspath(__file__)))
res = {}
for line in open(sys.argv[1], errors="replace"):
    m = re.match(r"(C\d\d-[a-z]) (C\d\d) exit=(\d+) (.*)", line.strip())
    if not m:
        continue
    name, pid, rc, rest = m.group(1), m.group(2), int(m.group(3)), m.group(4)
    if rc == 1 and "no-failing-input-found" in rest:
        res[name] = pid + " (broken proof obligation / correspondence, no-failing-input-found)"
    elif rc == 1:
        res[name] = pid + " (concrete replay)"
    elif rc == 0:
        res[name] = "NOT reported by " + pid
    else:
        res[name] = pid + " exit=%d (infrastructure error)" % rc
json.dump(res, open(os.path.join(ROOT, "seeded", "RESULTS.json"), "w"), indent=1, sort_keys=True)
print(len(res), "seeds;", sum(1 for v in res.values() if "concrete" in v), "with concrete replay;", [k for k, v in res.items() if "concrete" not in v])
