#!/usr/bin/env python3
"""tools/mkharmlessprompt.py <tag> <files/focus text> : scratch worktree /tmp/lasio-agent-<tag> + brief for a sub-agent that writes
behaviour-preserving refactorings (used to test that the checks raise no false alarm)."""
import os, subprocess, sys
tag, focus = sys.argv[1], sys.argv[2]
wt = "/tmp/lasio-agent-" + tag
out = "/tmp/seedout-" + tag
if not os.path.exists(wt):
    subprocess.run(["git", "-C", "/repo", "worktree", "add", "-q", "--detach", wt, "HEAD"], check=True)
os.makedirs(out, exist_ok=True)
print(f"""You are helping to test a verification effort for a Python library by writing realistic *behaviour-preserving refactorings*
(the verification must stay silent on them).

The library is `lasio` (reader/writer for LAS well-log files). You have your own scratch git worktree of it at `{wt}`
(work ONLY there; never touch /repo or /verif and do not read anything under /verif). Run Python as `/venv/bin/python` from inside
the worktree with `import sys, os; sys.path.insert(0, os.getcwd())` first so that `import lasio` resolves to the worktree's copy.
Test suite: `cd {wt} && /venv/bin/python -m pytest -q -p no:cacheprovider 2>&1 | tail -3` — on the unchanged tree it reports
`13 failed, 254 passed` (the 13 are network/chardet tests); it must report exactly the same after each of your changes.

YOUR TASK: produce FOUR different, independent refactorings of the lasio source, focused on: {focus}
Each must be something a maintainer would plausibly commit (10-60 changed lines): restructuring loops or conditionals, extracting or
inlining helper functions, renaming locals/private helpers, replacing a regular expression by an exactly equivalent spelling,
replacing manual loops by comprehensions/generators or vice versa, reordering independent statements, re-wording log and exception
MESSAGES (not exception types), adding debug logging, modernising idioms (f-strings, `with` blocks, enumerate, early returns).
STRICT requirement: for EVERY input and every sequence of public API calls the observable behaviour is unchanged — same return values
(including types/dtypes), same exception types raised at the same calls, same mutations of objects, same bytes written, same files
opened and closed at the same points of failure. Allowed to differ: log output, exception message text, names of private helpers,
speed. Think hard about edge cases (empty inputs, duplicates, None, Unicode, negative indexes, exceptions in the middle): if you are not
sure an edit is equivalent, do not make it. Do not fix bugs. Do not change public signatures or defaults.

For each refactoring k = 1..4 write into `{out}/<k>/`:
  * `patch.diff` — `git diff` of the worktree for that refactoring alone (relative to HEAD; must apply with `git apply` to a clean checkout),
  * `meta.json`  — {{"kind": "harmless", "summary": "<what was refactored and why it is equivalent, 2-4 sentences>", "files": [...], "tests_result": "<tail line of pytest with the change>"}}
Procedure per refactoring: edit → run the test suite (13 failed, 254 passed) → also write and run a quick differential script of your own
that compares old vs new behaviour on a few dozen inputs incl. edge cases (you can keep a pristine copy of the package via
`git show HEAD:lasio/<file>` — never `git stash`, the stash is shared by all worktrees), → `git diff > patch.diff` → `git checkout -- .` → next.
Leave the worktree clean when done. Finish with a short report listing the four refactorings.""")
