#!/bin/bash
# tools/seedconfirm.sh <dir with patch.diff demo.py meta.json> : confirm a seeded change in a scratch worktree of /repo HEAD
src=$1; wt=/tmp/lasio-confirm-$$
git -C /repo worktree add -q --detach $wt HEAD || exit 2
cd $wt
cp $src/demo.py $wt/_demo.py
/venv/bin/python _demo.py >/dev/null 2>&1; clean=$?
if ! git apply --check $src/patch.diff 2>/dev/null; then echo "$(basename $src): PATCH DOES NOT APPLY"; cd /; git -C /repo worktree remove --force $wt; exit 1; fi
git apply $src/patch.diff
/venv/bin/python _demo.py >/dev/null 2>&1; mut=$?
rm -f _demo.py
tests=$(/verif/tools/baseline.py $wt | head -1)
cd /; git -C /repo worktree remove --force $wt
echo "$(basename $src): demo clean=$clean mutated=$mut ; $tests"
