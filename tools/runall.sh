#!/bin/bash
# tools/runall.sh [tier] : run every check registered in MANIFEST.json (in parallel), print one summary line each
tier=${1:-quick}
cd "$(dirname "$0")/.."
ids=$(python3 -c "import json; print(' '.join(c['property_id'] for c in json.load(open('MANIFEST.json'))['checks']))")
(cd lean && lake build lasio_driver >/dev/null 2>&1)
echo $ids | tr ' ' '\n' | xargs -P ${PAR:-6} -I{} bash -c "out=\$(timeout 3000 ./check {} --tier $tier 2>&1); rc=\$?; echo \"{} exit=\$rc \$(echo \"\$out\" | grep -c '^KNOWN-FINDING') known; \$(echo \"\$out\" | grep -m1 '^VIOLATION\|^INFRA' ) \$(echo \"\$out\" | tail -1 | cut -c1-150)\""
