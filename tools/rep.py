#!/usr/bin/env python3
"""rep.py FILE <<< JSON [[old,new],...]  : exact, unique replacements"""
import sys, json
p=sys.argv[1]; s=open(p).read()
for old,new in json.load(sys.stdin):
    assert s.count(old)==1, (s.count(old), old[:60])
    s=s.replace(old,new)
open(p,'w').write(s)
