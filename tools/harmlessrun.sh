#!/bin/bash
# tools/harmlessrun.sh <dir-under-/verif/harmless> : baseline tests + EVERY registered check (quick) against the refactoring;
# prints one line per check that is not silent (exit != 0), and a summary line.
d=$1; name=$(basename $d)
wt=/tmp/lasio-hconf-$$
git -C /repo worktree add -q --detach $wt HEAD || exit 2
git -C $wt apply /verif/$d/patch.diff || { echo "$name PATCH DOES NOT APPLY"; git -C /repo worktree remove --force $wt; exit 2; }
t=$(/verif/tools/baseline.py $wt | head -1)
git -C /repo worktree remove --force $wt
ids=$(python3 -c "import json; print(' '.join(c['property_id'] for c in json.load(open('/verif/MANIFEST.json'))['checks']))")
out=$(/verif/tools/seedrun.sh $d $ids 2>&1 | grep -v "^WARNING")
bad=$(echo "$out" | grep -v "exit=0")
echo "$name: $t; silent $(echo "$out" | grep -c 'exit=0')/$(echo "$out" | wc -l)"
[ -n "$bad" ] && echo "$bad"
