#!/bin/bash
# tools/seedrun.sh <patch-dir-under-/verif> <Cxx> [<Cyy>...]
# Runs the given checks (quick) against a scratch worktree of /repo HEAD with the patch applied, from a scratch COPY of /verif
# (so neither /repo nor /verif/lean/Generated.lean is disturbed for anybody else), then removes both.
# prints one line per check: <name> <Cxx> exit=<n> <VIOLATION line or last line>
dir=$1; shift
name=$(basename $dir)
wt=/tmp/lasio-seed-$$; vf=/tmp/verif-seed-$$
git -C /repo worktree add -q --detach $wt HEAD || exit 2
if ! git -C $wt apply --check /verif/$dir/patch.diff 2>/dev/null; then echo "$name patch does not apply"; git -C /repo worktree remove --force $wt; exit 2; fi
git -C $wt apply /verif/$dir/patch.diff
mkdir -p $vf && rsync -a --exclude .git --exclude replays --exclude .scratch /verif/ $vf/
cd $vf
for p in "$@"; do
  out=$(LASIO_REPO=$wt timeout 1500 ./check $p --tier quick 2>&1); rc=$?
  line=$(echo "$out" | grep -m1 '^VIOLATION' || echo "$out" | tail -1)
  echo "$name $p exit=$rc ${line:0:200}"
done
cd /; rm -rf $vf; git -C /repo worktree remove --force $wt
