#!/bin/bash
# tools/seedrun.sh <seeded-id> <Cxx> [<Cyy>...] : apply a seeded change to /repo, run the given checks (quick), revert.
# prints one line per check: <seeded-id> <Cxx> exit=<n> <VIOLATION line or last line>
id=$1; shift
cd /verif
if ! git -C /repo diff --quiet; then echo "/repo is dirty, refusing"; exit 2; fi
if ! git -C /repo apply --check /verif/seeded/$id/patch.diff 2>/dev/null; then echo "$id patch does not apply"; exit 2; fi
git -C /repo apply /verif/seeded/$id/patch.diff
for p in "$@"; do
  out=$(timeout 1500 ./check $p --tier quick 2>&1); rc=$?
  line=$(echo "$out" | grep -m1 '^VIOLATION' || echo "$out" | tail -1)
  echo "$id $p exit=$rc ${line:0:220}"
done
git -C /repo checkout -- .
git checkout -q -- evidence 2>/dev/null
rm -rf replays
