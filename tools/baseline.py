#!/venv/bin/python
"""Run lasio's test-suite on /repo and compare with the 254 stable-pass tests of /root/.vp/BASELINE.json."""
import json, subprocess, sys, tempfile, os, xml.etree.ElementTree as ET
repo = sys.argv[1] if len(sys.argv) > 1 else "/repo"
par = [] if os.environ.get("SEQ") else ["-n", "8"]
base = json.load(open("/root/.vp/BASELINE.json"))
with tempfile.TemporaryDirectory() as d:
    x = os.path.join(d, "j.xml")
    subprocess.run(["/venv/bin/python", "-m", "pytest", "-q", "-p", "no:cacheprovider", "--timeout=900",
                    "--continue-on-collection-errors", "--junitxml=" + x] + par, cwd=repo,
                   stdout=subprocess.DEVNULL, stderr=subprocess.DEVNULL)
    passed = set()
    for tc in ET.parse(x).getroot().iter("testcase"):
        if not any(c.tag in ("failure", "error", "skipped") for c in tc):
            passed.add(tc.get("classname") + "::" + tc.get("name"))
missing = [t for t in base["stable_pass"] if t not in passed]
# tests that share output files can interfere under xdist: re-run the missing ones alone
still = []
for t in missing:
    mod, name = t.rsplit("::", 1)
    r = subprocess.run(["/venv/bin/python", "-m", "pytest", "-q", "-p", "no:cacheprovider", "--no-cov",
                        mod.replace(".", "/") + ".py::" + name], cwd=repo, stdout=subprocess.DEVNULL, stderr=subprocess.DEVNULL)
    if r.returncode != 0:
        still.append(t)
missing = still
print("baseline: %d/%d stable tests pass" % (len(base["stable_pass"]) - len(missing), len(base["stable_pass"])))
for t in missing:
    print("  FAILS:", t)
sys.exit(1 if missing else 0)
