#!/usr/bin/env python3
"""tools/mkseedprompt.py <Cxx> <tag> [focus text] : creates a scratch worktree /tmp/lasio-agent-<tag> of /repo HEAD and prints the
brief for a fresh sub-agent (property text + worktree only; nothing from /verif)."""
import json, os, subprocess, sys
pid, tag = sys.argv[1], sys.argv[2]
focus = sys.argv[3] if len(sys.argv) > 3 else ""
p = [json.loads(l) for l in open(os.path.join(os.path.dirname(os.path.dirname(os.path.abspath(__file__))), "properties.jsonl"))]
p = [x for x in p if x["id"] == pid][0]
wt = "/tmp/lasio-agent-" + tag
out = "/tmp/seedout-" + tag
if not os.path.exists(wt):
    subprocess.run(["git", "-C", "/repo", "worktree", "add", "-q", "--detach", wt, "HEAD"], check=True)
os.makedirs(out, exist_ok=True)
print(f"""You are helping to test a verification effort by writing realistic *breaking changes* (mutations) to a Python library.

The library is `lasio` (reader/writer for LAS well-log files). You have your own scratch git worktree of it at `{wt}`
(work ONLY there; never touch /repo or /verif and do not read anything under /verif). Run Python as `/venv/bin/python` from inside
the worktree with `sys.path.insert(0, os.getcwd())` first (or `cd {wt} && /venv/bin/python script.py` with that line at the top
of the script) so that `import lasio` resolves to the worktree's copy — check `lasio.__file__`.
The test suite: `cd {wt} && /venv/bin/python -m pytest -q -p no:cacheprovider -x -q 2>&1 | tail -5` — on the unchanged tree 254 tests
pass and 13 fail (network / chardet tests: test_encoding *chardet*, test_examples::test_github, test_open_file::test_open_url*,
test_read::test_data_characters_types, test_version::*vcs_tool, test_write::test_write_changed_file). Those same 254 must still pass
after your change (run without -x to see the full count: `... -q 2>&1 | tail -3` should report `13 failed, 254 passed`).

THE PROPERTY (a semantic property of lasio that is supposed to hold for every input/history, not just the tested ones):

  id: {p['id']} — {p['title']}
  statement: {p['statement']}
  quantified over: {p['quantifier']['text']}
  code it is anchored in: {json.dumps(p['anchors'].get('mechanism', []))}

YOUR TASK: produce THREE different, independent changes to the lasio source, each of which
  (1) still imports/compiles and keeps all 254 passing tests passing,
  (2) BREAKS the property above for some inputs/histories, and
  (3) looks like something a maintainer could plausibly commit (a refactoring, 'simplification', performance tweak, bug-fix attempt, lint
      clean-up), not sabotage; a few lines, in the library code (not tests).
  Prefer changes that need something SPECIFIC to manifest — a multi-step sequence of operations, an unusual but legitimate input, a
  particular option combination, a boundary value, two cooperating sites that each look fine alone — NOT ones that ordinary use would
  expose at once (if nearly every file breaks, it is too blunt). The three changes should touch different mechanisms/functions.
  {focus}

For each change k = 1, 2, 3 write into `{out}/<k>/`:
  * `patch.diff`  — `git diff` of the worktree for that change alone (relative to HEAD; must apply with `git apply` to a clean checkout),
  * `demo.py`     — a small self-contained program starting with `import sys, os; sys.path.insert(0, os.getcwd())` that is run from the
                    root of a checkout: it must exit 0 (print PASS) on the unchanged code and exit 1 (print what differs) with the change
                    applied. It must test the PROPERTY as stated (through lasio's public API), not the implementation detail you changed.
  * `meta.json`   — {{"property": "{p['id']}", "summary": "<what the change does, 2-4 sentences>", "needs": "<what is needed for it to manifest and what still works>", "files": [...], "tests_result": "<tail line of pytest with the change>"}}
Procedure per change: edit → run the test suite (must be 13 failed, 254 passed) → write demo → confirm demo fails with the change →
`git diff > patch.diff` → `git checkout -- .` → confirm demo passes on the clean worktree → next change.
Never use `git stash` (the stash is shared by all worktrees of the repository and other agents work in theirs); to look at the pristine code use `git show HEAD:lasio/<file>`.
Leave the worktree clean (`git status` empty) when done. Finish with a short report listing the three changes.""")
