#!/bin/bash
# tools/seedall.sh [P] [pattern] : run every seeded change under /verif/seeded (matching pattern) against the check of its own
# property (quick tier), P at a time; one line per seed on stdout; updates nothing.
P=${1:-6}; pat=${2:-C}
cd /verif
ls -d seeded/${pat}* | grep -v RESULTS | xargs -P $P -I{} bash -c 'd={}; n=$(basename $d); p=${n%%-*}; /verif/tools/seedrun.sh $d $p 2>&1 | grep -v "^WARNING" | tail -1'
