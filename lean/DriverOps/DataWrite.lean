import DriverOps.Common
/- driver ops with prefix "dw." (owned by the DataWrite model)

  "dw.fmt"   {"N": n, "x": cell}                       → text
  "dw.apply" {"fmt": text, "x": cell}                  → text | "unsupported"
  "dw.wrap"  {"width": n, "s": text}                   → [lines] | "unmodelled"
  "dw.tokens" {"s": text}                              → [tokens]            (tokensWs)
  "dw.dec"   {"s": text}                               → [neg, "a", k] | null (decOfTokS)
  "dw.lines" {"wrap","fmt","column_fmt":[[j,fmt]…],"len_numeric_field": int|null,"lhs_spacer","spacer",
              "data_width","header_width","data_section_header","mnemonics_header",
              "null": text, "mnemonics": […], "rows": [[cell…]…]}   → [lines] | "unmodelled"
  cell = [neg, "<m decimal>", e] | "nan" | "inf" | "-inf"
-/
open Lean Lasio Lasio.Dw

def dwGetCell (j : Json) : Except String F64 :=
  match j with
  | .str "nan" => pure .nan
  | .str "inf" => pure (.inf false)
  | .str "-inf" => pure (.inf true)
  | .arr a => do
    if a.size != 3 then throw "cell: expected [neg, m, e]"
    let neg ← a[0]!.getBool?
    let ms ← a[1]!.getStr?
    let e ← a[2]!.getInt?
    match ms.toNat? with
    | some m => pure (.finite neg m e)
    | none => throw "cell: bad mantissa"
  | _ => throw "cell: bad shape"

def dwJLines (r : Option (List Str)) : Json :=
  match r with
  | some ls => jlist jstr ls
  | none => Json.str "unmodelled"

def dwGetColFmt (j : Json) : Except String (Nat × Str) := do
  let a ← arr j
  if a.size != 2 then throw "column_fmt entry: expected [j, fmt]"
  pure (← a[0]!.getNat?, ← getS a[1]!)

def handleDataWrite (op : String) (j : Json) : Except String Json := do
  match op with
  | "dw.fmt" =>
    let n ← (← fld j "N").getNat?
    let x ← dwGetCell (← fld j "x")
    pure (jstr (fmtFixed n x))
  | "dw.apply" =>
    let f ← fldS j "fmt"
    let x ← dwGetCell (← fld j "x")
    match parseFmt f with
    | some f => pure (jstr (fmtApply f x))
    | none => pure (Json.str "unsupported")
  | "dw.wrap" =>
    let w ← (← fld j "width").getNat?
    let s ← fldS j "s"
    pure (dwJLines (textWrap w s))
  | "dw.tokens" =>
    let s ← fldS j "s"
    pure (jlist jstr (tokensWs s))
  | "dw.dec" =>
    let s ← fldS j "s"
    match decOfTokS s with
    | some (neg, a, k) => pure (Json.arr #[Json.bool neg, Json.str (toString a), jnat k])
    | none => pure Json.null
  | "dw.lines" =>
    let lnf ← match (← fld j "len_numeric_field") with
      | .null => pure none
      | v => do pure (some (← v.getInt?))
    let cfg : DataCfg := {
      wrap := ← (← fld j "wrap").getBool?
      fmt := ← fldS j "fmt"
      columnFmt := ← getList dwGetColFmt (← fld j "column_fmt")
      lenNumericField := lnf
      lhsSpacer := ← fldS j "lhs_spacer"
      spacer := ← fldS j "spacer"
      dataWidth := ← (← fld j "data_width").getNat?
      headerWidth := ← (← fld j "header_width").getNat?
      dataSectionHeader := ← fldS j "data_section_header"
      mnemonicsHeader := ← (← fld j "mnemonics_header").getBool? }
    let null ← fldS j "null"
    let mn ← getList getS (← fld j "mnemonics")
    let rows ← getList (getList dwGetCell) (← fld j "rows")
    pure (dwJLines (dataLines cfg null mn rows))
  | _ => throw s!"unknown op {op}"
