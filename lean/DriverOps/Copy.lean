import DriverOps.Common
/- driver ops with prefix "cp." (owned by the Copy model) -/
open Lean Lasio

def handleCopy (op : String) (j : Json) : Except String Json :=
  throw s!"op {op} not implemented"
