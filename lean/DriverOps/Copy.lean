import DriverOps.Common
/- driver ops with prefix "cp." (owned by the Copy model)
  cp.item    {"item":[orig,session,unit,value,descr], "data": str|null, "curve": bool, "old": bool}
             -> [orig,session,unit,value,descr,data|null,curve]       (rebuildItem (reduceItem o); "old": reduceItemOld)
  cp.section {"path":"pickle01"|"pickle2plus"|"deepcopy"|"deepcopy_old", "tr":bool, "items":[[orig,session,unit,value,descr],…]}
             -> {"tr":bool, "items":[[orig,session,unit,value,descr],…]}
-/
open Lean Lasio

def cpItemOfJson (j : Json) : Except String Item := do
  let a ← arr j
  if a.size < 5 then throw "item: 5 fields expected"
  pure ⟨← getS a[0]!, ← getS a[1]!, ← getS a[2]!, ← getS a[3]!, ← getS a[4]!⟩

def cpItemJson (it : Item) : Json :=
  Json.arr #[jstr it.orig, jstr it.session, jstr it.unit, jstr it.value, jstr it.descr]

def handleCopy (op : String) (j : Json) : Except String Json := do
  match op with
  | "cp.item" =>
    let it ← cpItemOfJson (← fld j "item")
    let dj ← fld j "data"
    let data ← (match dj with
      | .null => pure none
      | d => do pure (some (← getS d)) : Except String (Option Str))
    let curve ← (← fld j "curve").getBool?
    let old ← (← fld j "old").getBool?
    let o : PyItem := ⟨it, data, curve⟩
    let r := rebuildItem (if old then reduceItemOld o else reduceItem o)
    pure (Json.arr #[jstr r.it.orig, jstr r.it.session, jstr r.it.unit, jstr r.it.value, jstr r.it.descr,
      (match r.data with | some d => jstr d | none => Json.null), Json.bool r.isCurve])
  | "cp.section" =>
    let path ← (← fld j "path").getStr?
    let tr ← (← fld j "tr").getBool?
    let items ← getList cpItemOfJson (← fld j "items")
    let s : Section := ⟨items, tr⟩
    let r ← (match path with
      | "pickle01" => pure (rebuildSection .pickle01 s)
      | "pickle2plus" => pure (rebuildSection .pickle2plus s)
      | "deepcopy" => pure (rebuildSection .deepcopy s)
      | "deepcopy_old" => pure (rebuildSectionOld s)
      | p => throw s!"unknown path {p}" : Except String Section)
    pure (Json.mkObj [("tr", Json.bool r.tr), ("items", jlist cpItemJson r.items)])
  | _ => throw s!"op {op} not implemented"
