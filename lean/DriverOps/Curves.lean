import DriverOps.Common
/- driver ops with prefix "cv." (owned by the Curves model)

  curve  := [orig, session, unit, value, descr, [cell,…]]           (cells are strings)
  state  := {"tr": bool, "init": [curve,…]}
  op     := ["append_curve", m, u, v, d, cells] | ["insert_curve", ix, m, u, v, d, cells]
          | ["append_item", curve, isCurve] | ["insert_item", ix, curve, isCurve] | ["replace_item", ix, curve, isCurve]
          | ["delete_ix", ix] | ["delete_mnem", m]
          | ["update_ix", ix, cells|null, unit|null, descr|null, value|null]
          | ["update_mnem", m, cells|null, unit|null, descr|null, value|null]
          | ["setitem_curve", key, curve] | ["setitem_data", key, cells]
          | ["set_data", [[cell,…],…] (rows), [name,…]|null, truncate]

  cv.run  {"tr","init","ops":[op,…],"probes":[str|int,…]}
          -> [ per step {"r": "ok"|"KeyError"|"ValueError"|"IndexError"|"AssertionError",
                         "curves":[curve,…], "wf":bool, "spec":[[orig,unit,value,descr,cells],…]  (specRun),
                         "absok": bool (abs state = spec), "data": rows|"ValueError", "index": cells|"IndexError",
                         "items":[[key,cells],…], "get":[cells|"KeyError"|"IndexError",…]} ]
  cv.run2 {"a":state,"b":state,"ops":[[0|1, op],…]} -> [ per step {"a":[curve,…],"b":[curve,…]} ]
-/
open Lean Lasio

def cvCells (j : Json) : Except String (List Cell) := getList getS j
def cvCellsJ (l : List Cell) : Json := jlist jstr l

def cvOpt {α} (f : Json → Except String α) (j : Json) : Except String (Option α) :=
  match j with
  | .null => pure none
  | x => do pure (some (← f x))

def cvCurve (j : Json) : Except String (Item × List Cell) := do
  let a ← arr j
  if a.size < 6 then throw "curve: 6 fields expected"
  pure (⟨← getS a[0]!, ← getS a[1]!, ← getS a[2]!, ← getS a[3]!, ← getS a[4]!⟩, ← cvCells a[5]!)

def cvState (j : Json) : Except String LasCurves := do
  let tr ← (← fld j "tr").getBool?
  let cs ← getList cvCurve (← fld j "init")
  pure ⟨⟨cs.map (·.1), tr⟩, cs.map (·.2)⟩

def cvOp (j : Json) : Except String CurveOp := do
  let a ← arr j
  let name ← (a[0]!).getStr?
  match name with
  | "append_curve" => pure (.appendCurve (← getS a[1]!) (← getS a[2]!) (← getS a[3]!) (← getS a[4]!) (← cvCells a[5]!))
  | "insert_curve" =>
    pure (.insertCurve (← (a[1]!).getInt?) (← getS a[2]!) (← getS a[3]!) (← getS a[4]!) (← getS a[5]!) (← cvCells a[6]!))
  | "append_item" => do
    let c ← cvCurve a[1]!
    pure (.appendItem ⟨c.1, c.2, ← (a[2]!).getBool?⟩)
  | "insert_item" => do
    let c ← cvCurve a[2]!
    pure (.insertItem (← (a[1]!).getInt?) ⟨c.1, c.2, ← (a[3]!).getBool?⟩)
  | "replace_item" => do
    let c ← cvCurve a[2]!
    pure (.replaceItem (← (a[1]!).getInt?) ⟨c.1, c.2, ← (a[3]!).getBool?⟩)
  | "delete_ix" => pure (.deleteIx (← (a[1]!).getInt?))
  | "delete_mnem" => pure (.deleteMnem (← getS a[1]!))
  | "update_ix" =>
    pure (.updateIx (← (a[1]!).getInt?) (← cvOpt cvCells a[2]!) (← cvOpt getS a[3]!) (← cvOpt getS a[4]!) (← cvOpt getS a[5]!))
  | "update_mnem" =>
    pure (.updateMnem (← getS a[1]!) (← cvOpt cvCells a[2]!) (← cvOpt getS a[3]!) (← cvOpt getS a[4]!) (← cvOpt getS a[5]!))
  | "setitem_curve" => do
    let c ← cvCurve a[2]!
    pure (.setItemCurve (← getS a[1]!) c.1 c.2)
  | "setitem_data" => pure (.setItemData (← getS a[1]!) (← cvCells a[2]!))
  | "set_data" =>
    pure (.setData (← getList cvCells a[1]!) (← cvOpt (getList getS) a[2]!) (← (a[3]!).getBool?))
  | _ => throw s!"unknown curve op {name}"

def cvResJ (r : CvResult) : Json := Json.str (match r with
  | .ok => "ok" | .keyError => "KeyError" | .valueError => "ValueError" | .indexError => "IndexError"
  | .assertionError => "AssertionError")

def cvDump (L : LasCurves) : Json :=
  Json.arr ((List.range L.sec.items.length).map fun i =>
    match L.sec.items[i]? with
    | some it => Json.arr #[jstr it.orig, jstr it.session, jstr it.unit, jstr it.value, jstr it.descr,
        match L.data[i]? with | some d => cvCellsJ d | none => Json.null]
    | none => Json.null).toArray

def cvSpecJ (S : SpecCurves) : Json :=
  jlist (fun c => Json.arr #[jstr c.orig, jstr c.unit, jstr c.value, jstr c.descr, cvCellsJ c.data]) S

def cvExc (r : Except CvResult (List Cell)) : Json :=
  match r with | .ok d => cvCellsJ d | .error e => cvResJ e

def handleCurves (op : String) (j : Json) : Except String Json := do
  match op with
  | "cv.run" =>
    let L0 ← cvState j
    let ops ← getList cvOp (← fld j "ops")
    let probes ← getList getKey (← fld j "probes")
    let mut L := L0
    let mut S := L0.abs
    let mut out : Array Json := #[]
    for o in ops do
      let (L', r) := L.step o
      S := specStep L.keys S o
      L := L'
      out := out.push (Json.mkObj [
        ("r", cvResJ r), ("curves", cvDump L), ("wf", Json.bool (decide L.WF)), ("spec", cvSpecJ S),
        ("absok", Json.bool (decide (L.abs = S))),
        ("data", match L.dataView with | .ok rows => jlist cvCellsJ rows | .error e => cvResJ e),
        ("index", cvExc L.index),
        ("items", jlist (fun p => Json.arr #[jstr p.1, cvCellsJ p.2]) L.itemsView),
        ("get", jlist (fun k => cvExc (L.getitem k)) probes)])
    pure (Json.arr out)
  | "cv.run2" =>
    let a ← cvState (← fld j "a")
    let b ← cvState (← fld j "b")
    let ops ← getList (fun o => do
      let p ← arr o
      let w ← (p[0]!).getInt?
      pure (decide (w ≠ 0), ← cvOp p[1]!)) (← fld j "ops")
    let mut P := (a, b)
    let mut out : Array Json := #[]
    for o in ops do
      P := cvStep2 P o
      out := out.push (Json.mkObj [("a", cvDump P.1), ("b", cvDump P.2)])
    pure (Json.arr out)
  | _ => throw s!"op {op} not implemented"
