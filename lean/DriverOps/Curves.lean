import DriverOps.Common
/- driver ops with prefix "cv." (owned by the Curves model) -/
open Lean Lasio

def handleCurves (op : String) (j : Json) : Except String Json :=
  throw s!"op {op} not implemented"
