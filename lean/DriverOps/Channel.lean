import DriverOps.Common
/- driver ops with prefix "ch." (owned by the Channel model) -/
open Lean Lasio

def handleChannel (op : String) (j : Json) : Except String Json :=
  throw s!"op {op} not implemented"
