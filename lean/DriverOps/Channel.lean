import DriverOps.Common
/- driver ops with prefix "ch." (Channel model: C10) -/
open Lean Lasio

def jsecs (l : List SecObj) : Json := jlist (fun s => jlist jstr s) l

def getSecObj (j : Json) : Except String SecObj := getList getS j

def getWOp (j : Json) : Except String WOp := do
  let a ← arr j
  let name ← (a[0]!).getStr?
  match name with
  | "new" => pure .newLas
  | "mutate" => do
    let o ← (a[1]!).getNat?; let k ← (a[2]!).getNat?; let v ← getSecObj a[3]!
    pure (.mutate o k v)
  | "read" => do
    let o ← (a[1]!).getNat?
    let ps ← getList (fun p => do
      let q ← arr p
      let k ← (q[0]!).getNat?; let v ← getSecObj q[1]!
      pure (k, v)) a[2]!
    pure (.read o ps)
  | _ => throw s!"unknown world op {name}"

def handleChannel (op : String) (j : Json) : Except String Json := do
  match op with
  | "ch.classify" => do
    let s ← fldS j "s"
    pure (Json.str (match classifyStr s with
      | .content => "content" | .filename => "filename" | .indexError => "IndexError"))
  | "ch.splitlines" => do
    let s ← fldS j "s"
    pure (jlist jstr (pySplitlines s))
  | "ch.enc" => do
    let bom ← (← fld j "bom").getBool?
    let arg ← fld j "arg"
    let a : Option Str := match arg with | .str s => some s.toList | _ => none
    pure (match chooseEncoding bom a with
      | .utf8sig => Json.str "utf-8-sig" | .named e => jstr e | .detect => Json.str "<detect>")
  | "ch.univnl" => do
    let s ← fldS j "s"
    pure (jstr (univNL s))
  | "ch.world" => do
    let fresh ← (← fld j "fresh").getBool?
    let ops ← getList getWOp (← fld j "ops")
    let mut w := World.init
    let mut out : Array Json := #[]
    for o in ops do
      w := w.step fresh o
      out := out.push (jlist (fun i => jsecs (w.observe i)) (List.range w.objs.length))
    pure (Json.arr out)
  | _ => throw s!"op {op} not implemented"
