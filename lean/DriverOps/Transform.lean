import DriverOps.Common
import DriverOps.Data
import DriverOps.Reader
/- driver ops with prefix "tf." (owned by the Transform model)

"tf.apply" {"text": t, "ts": [[name, args…] …]} → text          (`Tf.applyText`: split into lines, transform, concatenate)
     ["insBlank", k, ws]   ["insComment", k, indent, text]   ["padLine", k, lead, trail]
     ["repadLine", k, "SPACE"|"TAB"|"COMMA", [sep…]]          ["relayout", k, "Version"|"Well"|"Curves"|"Parameter"|"other", p0,…,p5]
     ["crlf"]  ["lf"]  ["dropFinalNewline"]  ["addFinalNewline"]
     ["rewrap", first, last, d, [width…]]                     ["redelim", first, last, vk, replace, from, to, [sep…]]
"tf.read"  {"text", "ignore": bool, "case": "upper"|"lower"|"preserve", "engine": "numpy"|"normal", "null_policy": "strict"|"none",
            "null": float-text|null, "floats": {token: float-text}}
     → {"ok": {"sections": [[key, items|text]…], "steer": [vers, wrap, null, dlm],
               "data": [{"first", "last", "res": {"ok": {"engine", "columns", "slots"}} | {"err": e}} …]}}
     | {"err": […]} | "unmodelled"                            (`Tf.readFull` on `Rd.splitLines text`, LASF test included)
"tf.skip"  {"line"} → bool    (`Tf.isSkip`)
-/
open Lean Lasio Lasio.Tf

def tfSec (s : String) : SecName :=
  match s with
  | "Version" => .version | "Well" => .well | "Curves" => .curves | "Parameter" => .parameter | _ => .other

def tfDlm (j : Json) : Except String Dt.Dlm := do
  let s ← j.getStr?
  match dtGetDlm s with
  | some d => pure d
  | none => throw s!"bad delimiter {s}"

def tfTransform (j : Json) : Except String Transform := do
  let a ← arr j
  let name ← (a[0]!).getStr?
  let nat (i : Nat) : Except String Nat := (a[i]!).getNat?
  let str (i : Nat) : Except String Str := getS a[i]!
  match name with
  | "insBlank" => pure (.insBlank (← nat 1) (← str 2))
  | "insComment" => pure (.insComment (← nat 1) (← str 2) (← str 3))
  | "padLine" => pure (.padLine (← nat 1) (← str 2) (← str 3))
  | "repadLine" => pure (.repadLine (← nat 1) (← tfDlm a[2]!) (← getList getS a[3]!))
  | "relayout" =>
    pure (.relayout (← nat 1) (tfSec (← (a[2]!).getStr?)) (← str 3) (← str 4) (← str 5) (← str 6) (← str 7) (← str 8))
  | "crlf" => pure .crlf
  | "lf" => pure .lf
  | "dropFinalNewline" => pure .dropFinalNewline
  | "addFinalNewline" => pure .addFinalNewline
  | "rewrap" => pure (.rewrap (← nat 1) (← nat 2) (← nat 3) (← getList (fun x => x.getNat?) a[4]!))
  | "redelim" =>
    pure (.redelim (← nat 1) (← nat 2) (← nat 3) (← (a[4]!).getBool?) (← tfDlm a[5]!) (← tfDlm a[6]!) (← getList getS a[7]!))
  | _ => throw s!"unknown transformation {name}"

def tfDataRes (r : Except Dt.DErr (Dt.Engine × List (Dt.Slot × Dt.Column))) : Json :=
  match r with
  | .ok (used, curves) =>
    Json.mkObj [("ok", Json.mkObj [
      ("engine", Json.str (match used with | .numpy => "numpy" | .normal => "normal")),
      ("columns", jlist (fun sc => dtJColumn sc.2) curves),
      ("slots", jlist (fun sc => dtJSlot sc.1) curves)])]
  | .error e => Json.mkObj [("err", dtJErr e)]

def handleTransform (op : String) (j : Json) : Except String Json := do
  match op with
  | "tf.apply" =>
    let text ← fldS j "text"
    let ts ← getList tfTransform (← fld j "ts")
    pure (jstr (applyText ts text))
  | "tf.skip" => pure (Json.bool (isSkip (← fldS j "line")))
  | "tf.read" =>
    let text ← fldS j "text"
    let ign ← (← fld j "ignore").getBool?
    let c ← rdCase (← (← fld j "case").getStr?)
    let engine ← (← fld j "engine").getStr?
    let np ← (← fld j "null_policy").getStr?
    let null ← dtOptStr (← fld j "null")
    let ft ← dtGetFloats (← fld j "floats")
    let eng : Option Dt.Engine := match engine with | "numpy" => some .numpy | "normal" => some .normal | _ => none
    let pol : Option Dt.NullPolicy := match np with | "strict" => some .strict | "none" => some .none | _ => none
    match eng, pol with
    | some e, some p =>
      if text.take 4 == "LASF".toList then pure (rdErr .lasf)
      else match readFull ⟨⟨ign, c⟩, ⟨e, p⟩⟩ (fun _ => null) ft (Rd.splitLines text) with
        | .error e => pure (rdErr e)
        | .ok r =>
          pure (Json.mkObj [("ok", Json.mkObj [
            ("sections", jlist (fun kv => Json.arr #[jstr kv.1, rdSecVal kv.2]) r.sections),
            ("steer", Json.arr #[rdOpt r.steer.vers, rdOpt r.steer.wrap, rdOpt r.steer.null, rdOpt r.steer.dlm]),
            ("data", jlist (fun (x : DataRead) => Json.mkObj [("first", jnat x.first), ("last", jnat x.last), ("res", tfDataRes x.res)])
              r.data)])])
    | _, _ => pure (Json.str "unmodelled")
  | _ => throw s!"op {op} not implemented"
