import DriverOps.Common
/- driver ops with prefix "tf." (owned by the Transform model) -/
open Lean Lasio

def handleTransform (op : String) (j : Json) : Except String Json :=
  throw s!"op {op} not implemented"
