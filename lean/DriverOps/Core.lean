import DriverOps.Common
/- ops: "sec" (SectionItems op sequences), "hl" (header line) -/
open Lean Lasio

def dumpSec (s : Section) : Json :=
  Json.arr (s.items.map fun it => Json.arr #[jstr it.orig, jstr it.session, jstr it.value]).toArray

def probe (s : Section) (k : Key) : Json :=
  Json.arr #[Json.bool (s.contains k), match s.getitem k with
    | .ok i => Json.num (JsonNumber.fromNat i)
    | .error e => jerr e]

/-- run one `SectionItems` operation -/
def secStep (s : Section) (op : Array Json) : Except String (Section × Json) := do
  let name ← (op[0]!).getStr?
  match name with
  | "append" => do
    let o ← getS op[1]!; let v ← getS op[2]!
    pure (s.append (mkItem o [] v []), Json.str "ok")
  | "insert" => do
    let i ← (op[1]!).getInt?; let o ← getS op[2]!; let v ← getS op[3]!
    pure (s.insert i (mkItem o [] v []), Json.str "ok")
  | "del" => do
    let k ← getKey op[1]!
    match s.delitem k with
    | .ok s' => pure (s', Json.str "ok")
    | .error e => pure (s, jerr e)
  | "pop" => do
    let i ← (op[1]!).getInt?
    match s.pop i with
    | .ok s' => pure (s', Json.str "ok")
    | .error e => pure (s, jerr e)
  | "setitem" => do
    let k ← getKey op[1]!; let o ← getS op[2]!; let v ← getS op[3]!
    pure (s.setItem k (mkItem o [] v []), Json.str "ok")
  | "setval" => do
    let k ← getKey op[1]!; let v ← getS op[2]!
    match s.setValue k v with
    | .ok s' => pure (s', Json.str "ok")
    | .error e => pure (s, jerr e)
  | "get" => do
    let m ← getS op[1]!; let d ← getS op[2]!; let add ← (op[3]!).getBool?
    let (it, s') := s.get m d add
    pure (s', Json.arr #[jstr it.orig, jstr it.session, jstr it.value])
  | "getdef" => do
    -- get(key, default=section[src], add): when src is missing the real call is not made
    let m ← getS op[1]!; let src ← getKey op[2]!; let add ← (op[3]!).getBool?
    match s.getitem src with
    | .error _ => pure (s, Json.str "skipped")
    | .ok i =>
      match s.items[i]? with
      | none => pure (s, Json.str "skipped")
      | some d =>
        let (it, s') := s.getWithItem m d add
        pure (s', Json.arr #[jstr it.orig, jstr it.session, jstr it.value])
  | "slice" => do
    -- section[a:b:c] : positions of the returned items in the (unchanged) section
    let gi (j : Json) : Except String (Option Int) := if j.isNull then pure none else do pure (some (← j.getInt?))
    let a ← gi op[1]!; let b ← gi op[2]!; let c ← (op[3]!).getInt?
    match s.getSlice a b c with
    | some l => pure (s, Json.arr (l.map fun n => Json.num (JsonNumber.fromNat n)).toArray)
    | none => pure (s, Json.str "ValueError")
  | "setattr" => do
    let k ← getS op[1]!; let v ← getS op[2]!
    pure (s.setAttrValue k v, Json.str "ok")
  | _ => throw s!"unknown section op {name}"

def handleSec (j : Json) : Except String Json := do
  let tr ← (← j.getObjVal? "tr").getBool?
  let ops ← arr (← j.getObjVal? "ops")
  let probes ← (← arr (← j.getObjVal? "probes")).mapM getKey
  let mut s : Section := ⟨[], tr⟩
  let mut out : Array Json := #[]
  for op in ops do
    let (s', r) ← secStep s (← arr op)
    s := s'
    out := out.push (Json.mkObj [("r", r), ("items", dumpSec s),
      ("probes", Json.arr (probes.map (probe s)))])
  pure (Json.arr out)

def secName (s : String) : SecName :=
  match s with
  | "Version" => .version | "Well" => .well | "Curves" => .curves | "Parameter" => .parameter | _ => .other

def jfields (f : Fields) : Json := Json.arr #[jstr f.name, jstr f.unit, jstr f.value, jstr f.descr]

def handleHl (j : Json) : Except String Json := do
  let sec ← (← j.getObjVal? "sec").getStr?
  let line ← getS (← j.getObjVal? "line")
  match parseHeaderLine (secName sec) line with
  | some f => pure (jfields f)
  | none => pure Json.null

