import Lean.Data.Json
import LasioModel
/- JSON helpers shared by all driver op files. -/
open Lean Lasio

def jstr (s : Str) : Json := Json.str (String.ofList s)
def jerr (e : Err) : Json := Json.str (match e with
  | .keyError => "KeyError" | .indexError => "IndexError" | .valueError => "ValueError"
  | .typeError => "TypeError" | .other => "Other")

def getS (j : Json) : Except String Str := do let s ← j.getStr?; pure s.toList
def getKey (j : Json) : Except String Key :=
  match j with
  | .str s => pure (.str s.toList)
  | _ => do let i ← j.getInt?; pure (.int i)

def arr (j : Json) : Except String (Array Json) := j.getArr?
def fld (j : Json) (k : String) : Except String Json := j.getObjVal? k
def fldS (j : Json) (k : String) : Except String Str := do getS (← j.getObjVal? k)
def jnat (n : Nat) : Json := Json.num (JsonNumber.fromNat n)
def jint (n : Int) : Json := Json.num (JsonNumber.fromInt n)
def jlist {α} (f : α → Json) (l : List α) : Json := Json.arr (l.map f).toArray
def getList {α} (f : Json → Except String α) (j : Json) : Except String (List α) := do
  let a ← j.getArr?
  a.toList.mapM f
