import DriverOps.Common
/- driver ops with prefix "vw." (owned by the Views model) -/
open Lean Lasio

def handleViews (op : String) (j : Json) : Except String Json :=
  throw s!"op {op} not implemented"
