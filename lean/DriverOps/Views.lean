import DriverOps.Common
/- driver ops with prefix "vw." (owned by the Views model, C18)

  vw.json   {"sections":[[name, {"text":s} | {"items":[[session, kind, text],…]}],…], "curves":[[session, [[kind, text],…]],…]}
            header kinds: int float nonfinite npint npfloat npnonfinite text none bool npbool   (text of nonfinite: nan|inf|-inf,
            of bool: True|False); sample kinds: f nan inf -inf text int
            → {"metadata":[[name, {"text":s} | {"obj":[[key, jval],…]}],…], "data":[[key,[jval,…]],…]}
            jval: null | true | false | {"num":text} | "string" | {"bare":"NaN"|"Infinity"|"-Infinity"}
  vw.csv    {"mnemonics": true|false|null|[…], "units": true|false|null|[…], "units_loc": "line"|"()"|"[]"|null|other,
             "origs":[…], "cunits":[…], "rows":[[…],…]} → [[…],…]
  vw.unit   {"units":[…], "arg": str|null (optional), "old": bool (optional)} → key | null
  vw.depth  {"index_unit": str|null} → {"m": expr|null, "ft": expr|null, "contains":[M?,F?,.1IN?]}
            expr: "idx" | ["mul", expr, "0.3048"|"120"] | ["div", expr, "0.3048"|"120"]
  vw.upper  {"s": str} → {"upper": str, "lower": str}
-/
open Lean Lasio

namespace VwOps

def numText (s : Str) : Except String NumText :=
  if h : isJsonNumber s = true then pure ⟨s, h⟩
  else throw s!"not a JSON number literal: {String.ofList s}"

def nonFin (s : Str) : Except String NonFin :=
  match String.ofList s with
  | "nan" => pure .nan
  | "inf" => pure .posInf
  | "-inf" => pure .negInf
  | t => throw s!"bad non-finite text {t}"

def pyBool (s : Str) : Except String Bool :=
  match String.ofList s with
  | "True" => pure true
  | "False" => pure false
  | t => throw s!"bad bool text {t}"

def hval (kind : String) (t : Str) : Except String HVal :=
  match kind with
  | "int" => do pure (.pyInt (← numText t))
  | "float" => do pure (.pyFloat (← numText t))
  | "nonfinite" => do pure (.pyFloatNonFinite (← nonFin t))
  | "npint" => do pure (.npInt (← numText t))
  | "npfloat" => do pure (.npFloat (← numText t))
  | "npnonfinite" => do pure (.npFloatNonFinite (← nonFin t))
  | "text" => pure (.text t)
  | "none" => pure .none
  | "bool" => do pure (.bool (← pyBool t))
  | "npbool" => do pure (.npBool (← pyBool t))
  | k => throw s!"bad header value kind {k}"

def sample (kind : String) (t : Str) : Except String Sample :=
  match kind with
  | "f" => do pure (.f (← numText t))
  | "nan" => pure .nan
  | "inf" => pure (.inf false)
  | "-inf" => pure (.inf true)
  | "text" => pure (.text t)
  | "int" => do pure (.int (← numText t))
  | k => throw s!"bad sample kind {k}"

def getItem (j : Json) : Except String (Str × HVal) := do
  let a ← arr j
  if a.size != 3 then throw "item: [session, kind, text] expected"
  pure (← getS a[0]!, ← hval (← a[1]!.getStr?) (← getS a[2]!))

def getSample (j : Json) : Except String Sample := do
  let a ← arr j
  if a.size != 2 then throw "sample: [kind, text] expected"
  sample (← a[0]!.getStr?) (← getS a[1]!)

def getSection (j : Json) : Except String (Str × SecView) := do
  let a ← arr j
  if a.size != 2 then throw "section: [name, body] expected"
  let name ← getS a[0]!
  match a[1]!.getObjVal? "text" with
  | .ok t => pure (name, .text (← getS t))
  | .error _ => pure (name, .items (← getList getItem (← fld a[1]! "items")))

def getCurve (j : Json) : Except String (Str × List Sample) := do
  let a ← arr j
  if a.size != 2 then throw "curve: [session, samples] expected"
  pure (← getS a[0]!, ← getList getSample a[1]!)

def jval : JVal → Json
  | .null => Json.null
  | .bool b => Json.bool b
  | .num t => Json.mkObj [("num", jstr t.text)]
  | .str s => jstr s
  | .bare .nan => Json.mkObj [("bare", Json.str "NaN")]
  | .bare .posInf => Json.mkObj [("bare", Json.str "Infinity")]
  | .bare .negInf => Json.mkObj [("bare", Json.str "-Infinity")]

def jsec : JSec → Json
  | .text s => Json.mkObj [("text", jstr s)]
  | .obj kvs => Json.mkObj [("obj", jlist (fun kv => Json.arr #[jstr kv.1, jval kv.2]) kvs)]

def getRowOpt (j : Json) : Except String RowOpt :=
  match j with
  | .bool true => pure .dflt
  | .bool false => pure .off
  | .null => pure .off
  | _ => do pure (.list (← getList getS j))

def getUnitsLoc (j : Json) : UnitsLoc :=
  match j with
  | .str "line" => .line
  | .str "()" => .paren
  | .str "[]" => .bracket
  | _ => .other

def getOptS (j : Json) : Except String (Option Str) :=
  match j with
  | .null => pure none
  | _ => do pure (some (← getS j))

def jconst : DConst → Json
  | .ft => Json.str "0.3048"
  | .tenthIn => Json.str "120"

def jexpr : DepthExpr → Json
  | .idx => Json.str "idx"
  | .mul e c => Json.arr #[Json.str "mul", jexpr e, jconst c]
  | .div e c => Json.arr #[Json.str "div", jexpr e, jconst c]

def jopt {α} (f : α → Json) : Option α → Json
  | none => Json.null
  | some a => f a

end VwOps

open VwOps in
def handleViews (op : String) (j : Json) : Except String Json :=
  match op with
  | "vw.json" => do
    let secs ← getList getSection (← fld j "sections")
    let curves ← getList getCurve (← fld j "curves")
    let t := encodeLas { sections := secs, curves := curves }
    pure (Json.mkObj [
      ("metadata", jlist (fun ns => Json.arr #[jstr ns.1, jsec ns.2]) t.metadata),
      ("data", jlist (fun c => Json.arr #[jstr c.1, jlist jval c.2]) t.data)])
  | "vw.csv" => do
    let o : CsvOpts := { mnemonics := ← getRowOpt (← fld j "mnemonics"), units := ← getRowOpt (← fld j "units"),
                         unitsLoc := getUnitsLoc ((j.getObjVal? "units_loc").toOption.getD Json.null) }
    let origs ← getList getS (← fld j "origs")
    let cunits ← getList getS (← fld j "cunits")
    let rows ← getList (getList getS) (← fld j "rows")
    pure (jlist (jlist jstr) (csvRows o origs cunits rows))
  | "vw.unit" => do
    let units ← getList getS (← fld j "units")
    let old := match j.getObjVal? "old" with | .ok (.bool true) => true | _ => false
    if old then pure (jopt jstr (detectIndexUnitOld units))
    else match j.getObjVal? "arg" with
      | .ok a => do pure (jopt jstr (resolveIndexUnit (← getOptS a) units))
      | .error _ => pure (jopt jstr (detectIndexUnit units))
  | "vw.depth" => do
    let iu ← getOptS (← fld j "index_unit")
    pure (Json.mkObj [("m", jopt jexpr (depthM iu)), ("ft", jopt jexpr (depthFt iu)),
      ("contains", Json.arr #[Json.bool (indexUnitContains iu "M".toList), Json.bool (indexUnitContains iu "F".toList),
                               Json.bool (indexUnitContains iu ".1IN".toList)])])
  | "vw.upper" => do
    let s ← fldS j "s"
    pure (Json.mkObj [("upper", jstr (upper s)), ("lower", jstr (lower s))])
  | _ => throw s!"op {op} not implemented"
