import DriverOps.Common
import DriverOps.DataWrite
/- driver ops with prefix "wo." (owned by the WriteObj model)

"wo.write"  {"cfg": {"version": "1.2"|"2.0"|null, "wrap": true|false|null, "header_width": n, "fmt": text,
                     "column_fmt": [[j, fmt]..], "len_numeric_field": int|null, "lhs_spacer", "spacer", "data_width": n,
                     "data_section_header": text, "mnemonics_header": bool},
             "obj": OBJ, "step_diff": cell|null, "sss": [value, value, value] (optional: the STRT / STOP / STEP keywords)}
            -> {"lines": [..], "after": OBJ} | {"raise": "KeyError"|"IndexError"|"Other"|..} | "unmodelled"
"wo.decision" {"obj": OBJ} -> true | false | {"raise": ..}
  OBJ   = {"version": [item..], "version_tr": bool, "well": [item..], "well_tr": bool, "curves": [item..], "params": [item..],
           "other": text, "data": [[cell..]..] (column-major), "index_initial": [cell..]|null}
  item  = [orig, session, unit, value, descr]
  value = ["s", text] | ["n", cell, str(value)] | ["none"]
  cell  = [neg, "<m decimal>", e] | "nan" | "inf" | "-inf"     (as in dw.*)
-/
open Lean Lasio Lasio.Wo

def woGetVal (j : Json) : Except String PVal := do
  let a ← arr j
  match a[0]! with
  | .str "s" => pure (.str (← getS a[1]!))
  | .str "n" => pure (.num (← dwGetCell a[1]!) (← getS a[2]!))
  | .str "none" => pure .none
  | _ => throw "value: bad tag"

def woJCell : F64 → Json
  | .nan => Json.str "nan"
  | .inf neg => Json.str (if neg then "-inf" else "inf")
  | .finite neg m e => Json.arr #[Json.bool neg, Json.str (toString m), jint e]

def woJVal : PVal → Json
  | .str s => Json.arr #[Json.str "s", jstr s]
  | .num x t => Json.arr #[Json.str "n", woJCell x, jstr t]
  | .none => Json.arr #[Json.str "none"]

def woGetItem (j : Json) : Except String OItem := do
  let a ← arr j
  if a.size != 5 then throw "item: expected 5 fields"
  pure ⟨← getS a[0]!, ← getS a[1]!, ← getS a[2]!, ← woGetVal a[3]!, ← getS a[4]!⟩

def woJItem (it : OItem) : Json :=
  Json.arr #[jstr it.orig, jstr it.session, jstr it.unit, woJVal it.value, jstr it.descr]

def woGetObj (j : Json) : Except String WObj := do
  let ii ← match (← fld j "index_initial") with
    | .null => pure none
    | v => do pure (some (← getList dwGetCell v))
  pure {
    version := ← getList woGetItem (← fld j "version")
    versionTr := ← (← fld j "version_tr").getBool?
    well := ← getList woGetItem (← fld j "well")
    wellTr := ← (← fld j "well_tr").getBool?
    curves := ← getList woGetItem (← fld j "curves")
    params := ← getList woGetItem (← fld j "params")
    other := ← fldS j "other"
    data := ← getList (getList dwGetCell) (← fld j "data")
    indexInitial := ii }

def woJObj (o : WObj) : Json :=
  Json.mkObj [
    ("version", jlist woJItem o.version), ("version_tr", Json.bool o.versionTr),
    ("well", jlist woJItem o.well), ("well_tr", Json.bool o.wellTr),
    ("curves", jlist woJItem o.curves), ("params", jlist woJItem o.params),
    ("other", jstr o.other), ("data", jlist (jlist woJCell) o.data),
    ("index_initial", match o.indexInitial with | none => Json.null | some l => jlist woJCell l)]

def woGetCfg (j : Json) : Except String WriteCfg := do
  let version ← match (← fld j "version") with
    | .null => pure none
    | v => do pure (some (← v.getStr?))
  let wrap ← match (← fld j "wrap") with
    | .null => pure none
    | v => do pure (some (← v.getBool?))
  let lnf ← match (← fld j "len_numeric_field") with
    | .null => pure none
    | v => do pure (some (← v.getInt?))
  pure {
    version := version, wrap := wrap
    headerWidth := ← (← fld j "header_width").getNat?
    fmt := ← fldS j "fmt"
    columnFmt := ← getList dwGetColFmt (← fld j "column_fmt")
    lenNumericField := lnf
    lhsSpacer := ← fldS j "lhs_spacer"
    spacer := ← fldS j "spacer"
    dataWidth := ← (← fld j "data_width").getNat?
    dataSectionHeader := ← fldS j "data_section_header"
    mnemonicsHeader := ← (← fld j "mnemonics_header").getBool? }

def woJErr : WoErr → Json
  | .raise e => Json.mkObj [("raise", jerr e)]
  | .unmodelled => Json.str "unmodelled"

def handleWriteObj (op : String) (j : Json) : Except String Json := do
  match op with
  | "wo.write" =>
    let cfg ← woGetCfg (← fld j "cfg")
    let o ← woGetObj (← fld j "obj")
    let sd ← match (← fld j "step_diff") with
      | .null => pure none
      | v => do pure (some (← dwGetCell v))
    -- optional STRT / STOP / STEP keyword arguments: "sss": [value, value, value] (["none"] = not given)
    let k ← match j.getObjVal? "sss" with
      | .ok (.arr a) =>
        if a.size != 3 then throw "sss: expected 3 values"
        else pure ({ strt := ← woGetVal a[0]!, stop := ← woGetVal a[1]!, step := ← woGetVal a[2]! } : SssArgs)
      | _ => pure ({} : SssArgs)
    match writeObjK k cfg sd o with
    | .error e => pure (woJErr e)
    | .ok (lines, o') => pure (Json.mkObj [("lines", jlist jstr lines), ("after", woJObj o')])
  | "wo.decision" =>
    let o ← woGetObj (← fld j "obj")
    match refreshDecision o with
    | .error e => pure (woJErr e)
    | .ok d => pure (Json.bool d)
  | _ => throw s!"op {op} not implemented"
