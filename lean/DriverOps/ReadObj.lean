import DriverOps.Common
import DriverOps.Reader
import DriverOps.Data
import LasioModel.ReadObj
import LasioModel.ReadObjFull
/- driver ops with prefix "ro." (owned by the ReadObj model: the TYPED header `read()` builds)

  "ro.read"   {"text", "ignore": bool, "case": "upper"|"lower"|"preserve"}
      → {"ok": {"sections": [[key, kind, [item …]] | [key, null, text] …],      kind = "curves"|"params"|"metadata"
                "steer": [vers, wrap, null, dlm] (raw text or null), "data": [[first, last, title] …]}}
      | {"err": …} | "unmodelled"                                              (errors as in "rd.header")
      item  = [orig, unit, VALUE, descr]
      VALUE = {"t":"str","v":text} | {"t":"int","v":"<decimal>"}
            | {"t":"float","v":"<[-]mant>e<exp10>","neg":bool,"mant":"<decimal>","exp10":"<decimal>"}
              (the EXACT decimal the literal denotes; its binary64 rounding is `float(v)`, not modelled)
  "ro.value"  {"kind": "curves"|"params"|"metadata", "name", "value"} → VALUE          (`Ro.typeValue`)
  "ro.kind"   {"title", "version": text}                              → kind            (`Ro.parserKind`)
  "ro.full"   {"text", "ignore", "case", "engine": "numpy"|"normal", "null_policy": "strict"|"none", "null": float-text|null,
               "floats": {token: float-text}}                                            (`Ro.readFullCols` / `Ro.readObjFull`)
      → {"ok": {"sections": … (as "ro.read"), "curves": [[float-text …] …] (column-major, one per curve),
                "index_initial": [float-text …] | null}}
      | {"err": …} (header errors as "rd.header") | {"dataerr": "ReshapeError"|"IndexError"|"Other"} | "unmodelled"
        ("unmodelled": not exactly one data section, a text column, an extra curve, or an undecided provisional version)
-/
open Lean Lasio

def roVal : NumVal → Json
  | .str s => Json.mkObj [("t", "str"), ("v", jstr s)]
  | .int i => Json.mkObj [("t", "int"), ("v", Json.str (toString i))]
  | .flt n m e =>
    Json.mkObj [("t", "float"), ("v", Json.str ((if n then "-" else "") ++ toString m ++ "e" ++ toString e)),
      ("neg", Json.bool n), ("mant", Json.str (toString m)), ("exp10", Json.str (toString e))]

def roKind : Rd.PKind → Json
  | .curves => "curves" | .params => "params" | .metadata => "metadata"

def roGetKind (s : String) : Except String Rd.PKind :=
  match s with
  | "curves" => pure .curves | "params" => pure .params | "metadata" => pure .metadata
  | _ => throw s!"bad parser kind {s}"

def roItem (it : Ro.TItem) : Json := Json.arr #[jstr it.orig, jstr it.unit, roVal it.value, jstr it.descr]

def roSec (kv : Rd.RKey × Ro.TSecVal) : Json :=
  match kv.2 with
  | .items k l => Json.arr #[jstr kv.1, roKind k, jlist roItem l]
  | .text s => Json.arr #[jstr kv.1, Json.null, jstr s]

def handleReadObj (op : String) (j : Json) : Except String Json := do
  match op with
  | "ro.read" =>
    let text ← fldS j "text"
    let ign ← (← fld j "ignore").getBool?
    let c ← rdCase (← (← fld j "case").getStr?)
    match Ro.readObjHeader ⟨ign, c⟩ text with
    | .error e => pure (rdErr e)
    | .ok th =>
      pure (Json.mkObj [("ok", Json.mkObj [
        ("sections", jlist roSec th.sections),
        ("steer", Json.arr #[rdOpt th.raw.steer.vers, rdOpt th.raw.steer.wrap, rdOpt th.raw.steer.null, rdOpt th.raw.steer.dlm]),
        ("data", jlist rdWin th.raw.data)])])
  | "ro.full" =>
    let text ← fldS j "text"
    let ign ← (← fld j "ignore").getBool?
    let c ← rdCase (← (← fld j "case").getStr?)
    let engine ← (← fld j "engine").getStr?
    let np ← (← fld j "null_policy").getStr?
    let null ← dtOptStr (← fld j "null")
    let ft ← dtGetFloats (← fld j "floats")
    let eng : Option Dt.Engine := match engine with | "numpy" => some .numpy | "normal" => some .normal | _ => none
    let pol : Option Dt.NullPolicy := match np with | "strict" => some .strict | "none" => some .none | _ => none
    match eng, pol with
    | some e, some p =>
      if text.take 4 == "LASF".toList then pure (rdErr .lasf)
      else
        let env : Ro.Env := ⟨⟨fun _ => .nan, fun t => t⟩, ft, fun _ => none, fun _ => null⟩
        match Ro.readFullCols env ⟨⟨ign, c⟩, ⟨e, p⟩⟩ (Rd.splitLines text) with
        | .error (.header e) => pure (rdErr e)
        | .error (.data e) => pure (Json.mkObj [("dataerr", dtJErr e)])
        | .error .unmodelled => pure (Json.str "unmodelled")
        | .ok (th, cols) =>
          let tc := Ro.textColumns cols
          pure (Json.mkObj [("ok", Json.mkObj [
            ("sections", jlist roSec th.sections),
            ("curves", jlist (jlist jstr) tc),
            ("index_initial", match tc.head? with | some c0 => jlist jstr c0 | none => Json.null)])])
    | _, _ => pure (Json.str "unmodelled")
  | "ro.value" =>
    let k ← roGetKind (← (← fld j "kind").getStr?)
    pure (roVal (Ro.typeValue k (← fldS j "name") (← fldS j "value")))
  | "ro.kind" =>
    pure (roKind (Ro.parserKind (← fldS j "title") (← fldS j "version")))
  | _ => throw s!"op {op} not implemented"
