import DriverOps.Common
import DriverOps.Reader
import LasioModel.ReadObj
/- driver ops with prefix "ro." (owned by the ReadObj model: the TYPED header `read()` builds)

  "ro.read"   {"text", "ignore": bool, "case": "upper"|"lower"|"preserve"}
      → {"ok": {"sections": [[key, kind, [item …]] | [key, null, text] …],      kind = "curves"|"params"|"metadata"
                "steer": [vers, wrap, null, dlm] (raw text or null), "data": [[first, last, title] …]}}
      | {"err": …} | "unmodelled"                                              (errors as in "rd.header")
      item  = [orig, unit, VALUE, descr]
      VALUE = {"t":"str","v":text} | {"t":"int","v":"<decimal>"}
            | {"t":"float","v":"<[-]mant>e<exp10>","neg":bool,"mant":"<decimal>","exp10":"<decimal>"}
              (the EXACT decimal the literal denotes; its binary64 rounding is `float(v)`, not modelled)
  "ro.value"  {"kind": "curves"|"params"|"metadata", "name", "value"} → VALUE          (`Ro.typeValue`)
  "ro.kind"   {"title", "version": text}                              → kind            (`Ro.parserKind`)
-/
open Lean Lasio

def roVal : NumVal → Json
  | .str s => Json.mkObj [("t", "str"), ("v", jstr s)]
  | .int i => Json.mkObj [("t", "int"), ("v", Json.str (toString i))]
  | .flt n m e =>
    Json.mkObj [("t", "float"), ("v", Json.str ((if n then "-" else "") ++ toString m ++ "e" ++ toString e)),
      ("neg", Json.bool n), ("mant", Json.str (toString m)), ("exp10", Json.str (toString e))]

def roKind : Rd.PKind → Json
  | .curves => "curves" | .params => "params" | .metadata => "metadata"

def roGetKind (s : String) : Except String Rd.PKind :=
  match s with
  | "curves" => pure .curves | "params" => pure .params | "metadata" => pure .metadata
  | _ => throw s!"bad parser kind {s}"

def roItem (it : Ro.TItem) : Json := Json.arr #[jstr it.orig, jstr it.unit, roVal it.value, jstr it.descr]

def roSec (kv : Rd.RKey × Ro.TSecVal) : Json :=
  match kv.2 with
  | .items k l => Json.arr #[jstr kv.1, roKind k, jlist roItem l]
  | .text s => Json.arr #[jstr kv.1, Json.null, jstr s]

def handleReadObj (op : String) (j : Json) : Except String Json := do
  match op with
  | "ro.read" =>
    let text ← fldS j "text"
    let ign ← (← fld j "ignore").getBool?
    let c ← rdCase (← (← fld j "case").getStr?)
    match Ro.readObjHeader ⟨ign, c⟩ text with
    | .error e => pure (rdErr e)
    | .ok th =>
      pure (Json.mkObj [("ok", Json.mkObj [
        ("sections", jlist roSec th.sections),
        ("steer", Json.arr #[rdOpt th.raw.steer.vers, rdOpt th.raw.steer.wrap, rdOpt th.raw.steer.null, rdOpt th.raw.steer.dlm]),
        ("data", jlist rdWin th.raw.data)])])
  | "ro.value" =>
    let k ← roGetKind (← (← fld j "kind").getStr?)
    pure (roVal (Ro.typeValue k (← fldS j "name") (← fldS j "value")))
  | "ro.kind" =>
    pure (roKind (Ro.parserKind (← fldS j "title") (← fldS j "version")))
  | _ => throw s!"op {op} not implemented"
