import DriverOps.Common
/- driver ops with prefix "num." (owned by the NumLit model) -/
open Lean Lasio

def handleNumLit (op : String) (j : Json) : Except String Json :=
  throw s!"op {op} not implemented"
