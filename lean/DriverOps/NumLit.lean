import DriverOps.Common
/- driver ops with prefix "num." (owned by the NumLit model)

  num.num       {"s": text}                                   -> NumVal
  num.item      {"kind": "metadata"|"params"|"curves", "name", "value"}            -> NumVal
  num.fields    {"kind": ..., "descrFirst": bool, "name", "unit", "value", "descr"} -> [name, unit, NumVal, descr]
  num.brackets  {"s": text}                                   -> text        (strip_brackets)
  num.commasub  {"s": text}                                   -> text        (the comma substitution)
  num.plain     {"s": text}                                   -> bool        (the guard regex, no strip)
  num.udigits   {}                                            -> [zero code points of the \d class]

  NumVal = ["int", "<decimal>"] | ["flt", neg, "<mantissa decimal>", exp10] | ["str", text]
  (integers travel as decimal strings: they can exceed the precision of a JSON double)
-/
open Lean Lasio

def jintStr (i : Int) : Json := Json.str (toString i)

def jNumVal : NumVal → Json
  | .int i => Json.arr #[Json.str "int", jintStr i]
  | .flt n m e => Json.arr #[Json.str "flt", Json.bool n, Json.str (toString m), jintStr e]
  | .str s => Json.arr #[Json.str "str", jstr s]

def handleNumLit (op : String) (j : Json) : Except String Json := do
  match op with
  | "num.num" => pure (jNumVal (num (← fldS j "s")))
  | "num.item" =>
    let kind ← (← fld j "kind").getStr?
    let name ← fldS j "name"
    let value ← fldS j "value"
    match kind with
    | "metadata" => pure (jNumVal (metadataValue name value))
    | "params" => pure (jNumVal (paramsValue value))
    | "curves" => pure (jNumVal (curvesValue value))
    | _ => throw s!"num.item: unknown kind {kind}"
  | "num.fields" =>
    let kind ← (← fld j "kind").getStr?
    let name ← fldS j "name"
    let unit ← fldS j "unit"
    let value ← fldS j "value"
    let descr ← fldS j "descr"
    let df := match j.getObjVal? "descrFirst" with
      | .ok (Json.bool b) => b
      | _ => false
    let it ← match kind with
      | "metadata" => pure (metadataItem df name unit value descr)
      | "params" => pure (paramsItem name unit value descr)
      | "curves" => pure (curvesItem name unit value descr)
      | _ => throw s!"num.fields: unknown kind {kind}"
    pure (Json.arr #[jstr it.name, jstr it.unit, jNumVal it.value, jstr it.descr])
  | "num.brackets" => pure (jstr (stripBrackets (← fldS j "s")))
  | "num.commasub" => pure (jstr (commaSub (← fldS j "s")))
  | "num.plain" => pure (Json.bool (isPlainDec (← fldS j "s")))
  | "num.udigits" => pure (jlist jnat uniDigitZeros)
  | _ => throw s!"op {op} not implemented"
