import DriverOps.Common
/- driver ops with prefix "dt." (owned by the Data model)

"dt.read"  {"lines":[raw lines with their '\n'], "first":n, "last":n, "engine":"numpy"|"normal", "null_policy":"strict"|"none",
            "wrap_declared":bool, "wrapped":text, "null":float-text|null, "dlm":"SPACE"|"TAB"|"COMMA", "declared":n,
            "floats":{token: float-text}}
   → {"ok":{"engine":"numpy"|"normal","columns":[["f",[float texts]] | ["s",[texts]] …],"slots":[j | -1 …]}}
   | {"err":"ReshapeError"|"IndexError"|"Other"} | "unmodelled"   (any other engine / null policy / delimiter)
"dt.subs"  {"line":text, "comma":bool, "hyphen":bool, "dot":bool} → text           (the read substitutions, in order)
"dt.split" {"dlm":"SPACE"|"TAB"|"COMMA"|"PY", "line":text} → [tokens]              ("PY" = str.split())
"dt.sniff" {"lines":[…], "first":n, "last":n, "dlm":…, "comma":bool, "hyphen":bool, "dot":bool} → {"count": n | -1, "hyphen": bool}
"dt.plain" {"tok":text} → bool     (isPlainDecimal = numeric_literal_regex.fullmatch)
"dt.null"  {"use":bool, "null":float-text|null, "columns":[["f"|"s",[cells]]…]} → [["f"|"s",[cells]]…]     (applyNull)
-/
open Lean Lasio Lasio.Dt

def dtGetDlm (s : String) : Option Dlm :=
  match s with
  | "SPACE" => some .space | "TAB" => some .tab | "COMMA" => some .comma | _ => none

def dtGetFloats (j : Json) : Except String FloatTable := do
  let o ← j.getObj?
  o.foldl (fun acc k v => do
    let l ← acc
    let t ← getS v
    pure ((k.toList, t) :: l)) (pure [])

def dtJColumn : Column → Json
  | .floats c => Json.arr #[Json.str "f", jlist jstr c]
  | .text c => Json.arr #[Json.str "s", jlist jstr c]

def dtGetColumn (j : Json) : Except String Column := do
  let a ← arr j
  let k ← (a[0]!).getStr?
  let cells ← getList getS a[1]!
  pure (if k == "f" then .floats cells else .text cells)

def dtJSlot : Slot → Json
  | .declared j => jnat j
  | .extra => jint (-1)

def dtJErr : DErr → Json
  | .reshapeError => Json.str "ReshapeError"
  | .indexError => Json.str "IndexError"
  | .other => Json.str "Other"

def dtGetSubs (j : Json) : Except String Subs := do
  pure ⟨← (← fld j "comma").getBool?, ← (← fld j "hyphen").getBool?, ← (← fld j "dot").getBool?⟩

def dtOptStr (j : Json) : Except String (Option Str) :=
  match j with
  | .null => pure none
  | _ => do pure (some (← getS j))

def handleData (op : String) (j : Json) : Except String Json := do
  match op with
  | "dt.read" =>
    let lines ← getList getS (← fld j "lines")
    let first ← (← fld j "first").getNat?
    let last ← (← fld j "last").getNat?
    let engine ← (← fld j "engine").getStr?
    let np ← (← fld j "null_policy").getStr?
    let wd ← (← fld j "wrap_declared").getBool?
    let wrapped ← fldS j "wrapped"
    let null ← dtOptStr (← fld j "null")
    let dlm ← (← fld j "dlm").getStr?
    let declared ← (← fld j "declared").getNat?
    let ft ← dtGetFloats (← fld j "floats")
    let eng : Option Engine := match engine with | "numpy" => some .numpy | "normal" => some .normal | _ => none
    let pol : Option NullPolicy := match np with | "strict" => some .strict | "none" => some .none | _ => none
    match eng, pol, dtGetDlm dlm with
    | some e, some p, some d =>
      match readData ⟨e, p⟩ lines first last ⟨wd, wrapped, null, d⟩ declared ft with
      | .ok (used, curves) =>
        pure (Json.mkObj [("ok", Json.mkObj [
          ("engine", Json.str (match used with | .numpy => "numpy" | .normal => "normal")),
          ("columns", jlist (fun sc => dtJColumn sc.2) curves),
          ("slots", jlist (fun sc => dtJSlot sc.1) curves)])])
      | .error e => pure (Json.mkObj [("err", dtJErr e)])
    | _, _, _ => pure (Json.str "unmodelled")
  | "dt.subs" =>
    let sb ← dtGetSubs j
    pure (jstr (applySubs sb (← fldS j "line")))
  | "dt.split" =>
    let dlm ← (← fld j "dlm").getStr?
    let line ← fldS j "line"
    if dlm == "PY" then pure (jlist jstr (pySplit line))
    else match dtGetDlm dlm with
      | some d => pure (jlist jstr (splitLine d line))
      | none => pure (Json.str "unmodelled")
  | "dt.sniff" =>
    let lines ← getList getS (← fld j "lines")
    let first ← (← fld j "first").getNat?
    let last ← (← fld j "last").getNat?
    let dlm ← (← fld j "dlm").getStr?
    let sb ← dtGetSubs j
    match dtGetDlm dlm with
    | some d =>
      let r := sniffColumns sb d lines first last
      pure (Json.mkObj [("count", match r.count with | some n => jnat n | none => jint (-1)),
                        ("hyphen", Json.bool r.hyphenFired)])
    | none => pure (Json.str "unmodelled")
  | "dt.plain" => pure (Json.bool (isPlainDecimal (← fldS j "tok")))
  | "dt.null" =>
    let use ← (← fld j "use").getBool?
    let null ← dtOptStr (← fld j "null")
    let cols ← getList dtGetColumn (← fld j "columns")
    pure (jlist dtJColumn (applyNull use null cols))
  | _ => throw s!"op {op} not implemented"
