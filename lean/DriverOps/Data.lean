import DriverOps.Common
/- driver ops with prefix "dt." (owned by the Data model) -/
open Lean Lasio

def handleData (op : String) (j : Json) : Except String Json :=
  throw s!"op {op} not implemented"
