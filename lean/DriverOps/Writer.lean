import DriverOps.Common
/- driver ops with prefix "wr." (owned by the Writer model)

"wr.header"   {"version": "1.2"|"2.0", "header_width": n, "wrap": true|false|null (optional, default null),
               "version_tr": bool (optional, default false),
               "sections": {"Version":[item..], "Well":[..], "Curves":[..], "Parameter":[..]}, "other": text}
              item = [orig, session, unit, [text, falsy, isZero, isNone], descr]
              -> {"lines":[..], "values_after": {"Well":[[text,falsy,isZero,isNone]..], "Parameter":[..]},
                  "version_after": [[orig, session, unit, text, descr]..]}   |  {"raise": "KeyError"|...}
"wr.readitem" {"version", "kind": "Version"|"Well"|"Curves"|"Parameter"|other, "case": "preserve"|"upper"|"lower",
               "line"} -> [name, unit, rawvalue, descr] | null
"wr.readline" same request -> "skip" | "stop" | "error" | [name, unit, rawvalue, descr]   (line stripped first, comments)
"wr.readsection" {"version","kind","case","lines":[..]} -> [[name, unit, rawvalue, descr]..] | null
"wr.std"      {"value": [text, falsy, isZero, isNone], "unit": u} -> [text, falsy, isZero, isNone]
"wr.order"    {"version","section","mnemonic"} -> "value:descr" | "descr:value" | {"raise": ..}
"wr.splitlines" {"text"} -> [..]
-/
open Lean Lasio
/- the writer model lives in `Lasio.Wr`; names are qualified here because `DriverOps.Common` imports every model file -/

def getWVal (j : Json) : Except String Wr.WVal := do
  let a ← arr j
  pure ⟨← getS a[0]!, ← (a[1]!).getBool?, ← (a[2]!).getBool?, ← (a[3]!).getBool?⟩

def jWVal (v : Wr.WVal) : Json := Json.arr #[jstr v.text, Json.bool v.falsy, Json.bool v.isZero, Json.bool v.isNone]

def getWItem (j : Json) : Except String Wr.WItem := do
  let a ← arr j
  pure ⟨← getS a[0]!, ← getS a[1]!, ← getS a[2]!, ← getWVal a[3]!, ← getS a[4]!⟩

def jRItem (r : Wr.RItem) : Json := Json.arr #[jstr r.name, jstr r.unit, jstr r.value, jstr r.descr]

def jraise (e : Err) : Json := Json.mkObj [("raise", jerr e)]

def getCase (s : String) : Except String Wr.MCase :=
  match s with
  | "preserve" => pure .preserve | "upper" => pure .upper | "lower" => pure .lower
  | _ => throw s!"bad case {s}"

def wrKind (s : String) : SecName :=
  match s with
  | "Version" => .version | "Well" => .well | "Curves" => .curves | "Parameter" => .parameter | _ => .other

def optBool (j : Json) (k : String) : Except String (Option Bool) :=
  match j.getObjVal? k with
  | .ok (.bool b) => pure (some b)
  | .ok .null => pure none
  | .ok _ => throw s!"{k}: expected bool or null"
  | .error _ => pure none

def handleWriter (op : String) (j : Json) : Except String Json := do
  match op with
  | "wr.header" =>
    let version ← (← fld j "version").getStr?
    let hw ← (← fld j "header_width").getNat?
    let wrap ← optBool j "wrap"
    let vtr := (← optBool j "version_tr").getD false
    let secs ← fld j "sections"
    let sec := fun (k : String) => do getList getWItem (← fld secs k)
    let las : Wr.WLas := ⟨← sec "Version", vtr, ← sec "Well", ← sec "Curves", ← sec "Parameter", ← fldS j "other"⟩
    match Wr.headerLines version wrap hw las with
    | .error e => pure (jraise e)
    | .ok (lines, las') =>
      pure (Json.mkObj [
        ("lines", jlist jstr lines),
        ("values_after", Json.mkObj [("Well", jlist (fun it => jWVal it.value) las'.well),
                                     ("Parameter", jlist (fun it => jWVal it.value) las'.params)]),
        ("version_after", jlist (fun (it : Wr.WItem) =>
          Json.arr #[jstr it.orig, jstr it.session, jstr it.unit, jstr it.value.text, jstr it.descr]) las'.version)])
  | "wr.readitem" =>
    let version ← (← fld j "version").getStr?
    let kind ← (← fld j "kind").getStr?
    let c ← getCase (← (← fld j "case").getStr?)
    match Wr.readItem version (wrKind kind) c (← fldS j "line") with
    | some r => pure (jRItem r)
    | none => pure Json.null
  | "wr.readline" =>
    let version ← (← fld j "version").getStr?
    let kind ← (← fld j "kind").getStr?
    let c ← getCase (← (← fld j "case").getStr?)
    match Wr.readLine version (wrKind kind) c (← fldS j "line") with
    | .skip => pure (Json.str "skip")
    | .stop => pure (Json.str "stop")
    | .error => pure (Json.str "error")
    | .item r => pure (jRItem r)
  | "wr.readsection" =>
    let version ← (← fld j "version").getStr?
    let kind ← (← fld j "kind").getStr?
    let c ← getCase (← (← fld j "case").getStr?)
    let lines ← getList getS (← fld j "lines")
    match Wr.readSection version (wrKind kind) c lines with
    | some rs => pure (jlist jRItem rs)
    | none => pure Json.null
  | "wr.std" =>
    let v ← getWVal (← fld j "value")
    pure (jWVal (Wr.standardizeValue v (← fldS j "unit")))
  | "wr.order" =>
    let version ← (← fld j "version").getStr?
    let s ← (← fld j "section").getStr?
    match Wr.orderOf version s (← fldS j "mnemonic") with
    | .ok .valueDescr => pure (Json.str "value:descr")
    | .ok .descrValue => pure (Json.str "descr:value")
    | .error e => pure (jraise e)
  | "wr.splitlines" => pure (jlist jstr (Wr.splitlines (← fldS j "text")))
  | _ => throw s!"op {op} not implemented"
