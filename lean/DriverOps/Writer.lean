import DriverOps.Common
/- driver ops with prefix "wr." (owned by the Writer model) -/
open Lean Lasio

def handleWriter (op : String) (j : Json) : Except String Json :=
  throw s!"op {op} not implemented"
