import DriverOps.Common
/- driver ops with prefix "rd." (owned by the Reader model) -/
open Lean Lasio

def handleReader (op : String) (j : Json) : Except String Json :=
  throw s!"op {op} not implemented"
