import DriverOps.Common
/- driver ops with prefix "rd." (owned by the Reader model)

  "rd.header"   {"text", "ignore": bool, "case": "upper"|"lower"|"preserve"}
      → {"ok": {"sections": [[key, items | text] …], "steer": [vers, wrap, null, dlm] (raw text or null),
                "data": [[first, last, title] …]}}
      | {"err": ["HeaderError", lineNo]} | {"err": ["NoSections"|"KeyError"|"LASF"|"IndexError"|"AttributeError"]}
      | "unmodelled"                      items are [orig, unit, rawvalue, descr]
  "rd.sections" {"text"} → [[first, last, title, kind] …]     (find_sections_in_file + determine_section_type)
  "rd.lines"    {"text"} → [line …]
-/
open Lean Lasio

def rdItem (it : Rd.RItem) : Json := Json.arr #[jstr it.orig, jstr it.unit, jstr it.value, jstr it.descr]

def rdSecVal : Rd.SecVal → Json
  | .items l => jlist rdItem l
  | .text s => jstr s

def rdOpt (o : Option Str) : Json := match o with | some s => jstr s | none => Json.null

def rdWin (w : Nat × Nat × Str) : Json := Json.arr #[jnat w.1, jnat w.2.1, jstr w.2.2]

def rdKind : Rd.SecKind → Json
  | .items => "items" | .other => "other" | .data => "data" | .las3data => "las3data"

def rdErr : Rd.RErr → Json
  | .headerError n => Json.mkObj [("err", Json.arr #["HeaderError", jnat n])]
  | .noSections => Json.mkObj [("err", Json.arr #["NoSections"])]
  | .keyError => Json.mkObj [("err", Json.arr #["KeyError"])]
  | .lasf => Json.mkObj [("err", Json.arr #["LASF"])]
  | .indexError => Json.mkObj [("err", Json.arr #["IndexError"])]
  | .attributeError => Json.mkObj [("err", Json.arr #["AttributeError"])]
  | .unmodelled => Json.str "unmodelled"

def rdCase (s : String) : Except String Rd.MCase :=
  match s with
  | "upper" => pure .upper | "lower" => pure .lower | "preserve" => pure .preserve
  | _ => throw s!"bad mnemonic case {s}"

def handleReader (op : String) (j : Json) : Except String Json := do
  match op with
  | "rd.header" =>
    let text ← fldS j "text"
    let ign ← (← fld j "ignore").getBool?
    let c ← rdCase (← (← fld j "case").getStr?)
    match Rd.readHeader ⟨ign, c⟩ text with
    | .error e => pure (rdErr e)
    | .ok h =>
      pure (Json.mkObj [("ok", Json.mkObj [
        ("sections", jlist (fun kv => Json.arr #[jstr kv.1, rdSecVal kv.2]) h.sections),
        ("steer", Json.arr #[rdOpt h.steer.vers, rdOpt h.steer.wrap, rdOpt h.steer.null, rdOpt h.steer.dlm]),
        ("data", jlist rdWin h.data)])])
  | "rd.sections" =>
    let text ← fldS j "text"
    pure (jlist (fun w => Json.arr #[jnat w.1, jnat w.2.1, jstr w.2.2, rdKind (Rd.sectionType w.2.2)])
      (Rd.findSections (Rd.splitLines text)))
  | "rd.lines" =>
    let text ← fldS j "text"
    pure (jlist jstr (Rd.splitLines text))
  | _ => throw s!"op {op} not implemented"
