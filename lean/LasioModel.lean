import LasioModel.Basic
import LasioModel.Section
import LasioModel.Resource
import LasioModel.HeaderLine
import LasioModel.Generated
