import LasioModel.Basic
import LasioModel.Section
import LasioModel.Resource
import LasioModel.Generated
