import LasioProofs.Props.C04
import LasioProofs.Props.C13
import LasioProofs.Props.C15
import LasioProofs.Props.C20
