import LasioModel.Basic
/- Writer model (to be filled in) -/
namespace Lasio
end Lasio
