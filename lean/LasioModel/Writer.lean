import LasioModel.Basic
import LasioModel.Section
import LasioModel.HeaderLine
import LasioModel.Generated
/-
Model of the HEADER part of `lasio.writer.write` (writer.py:83-204, 328-445) and of its inverse through the
reader: `parse_header_items_section` loop body + `SectionParser.metadata/params/curves/strip_brackets`
(reader.py:715-746, 767-939).  `num()` is NOT applied here: the value of a re-read item is its raw text.

A header value is seen by the writer only through `str(value)`, `not value`, `value != 0`, `value is None`.
-/
namespace Lasio.Wr

/-! ## values -/

/-- a header value as the writer sees it -/
structure WVal where
  text : Str       -- `str(value)`
  falsy : Bool     -- `not value`
  isZero : Bool    -- `value == 0`
  isNone : Bool    -- `value is None`
deriving DecidableEq, Repr

/-- a `str` value -/
def WVal.str (s : Str) : WVal := ⟨s, s.isEmpty, false, false⟩
/-- `None` -/
def WVal.none : WVal := ⟨"None".toList, true, false, true⟩
/-- the integer `0` that `standardize_value` substitutes -/
def WVal.intZero : WVal := ⟨['0'], true, true, false⟩
/-- a number with its `str()` rendering (`not x` is `x == 0` for numbers; NaN is truthy and non-zero) -/
def WVal.num (text : Str) (isZero : Bool) : WVal := ⟨text, isZero, isZero, false⟩

/-- the flags of a Python object are consistent: `None` is falsy and `None != 0` -/
def WVal.WF (v : WVal) : Prop := v.isNone = true → v.falsy = true ∧ v.isZero = false

/-- `standardize_value(value, unit)` (writer.py:328-349) -/
def standardizeValue (v : WVal) (unit : Str) : WVal :=
  let v1 := if !unit.isEmpty && v.falsy && !v.isZero then WVal.intZero else v
  if v1.isNone then WVal.str [] else v1

/-! ## items, order tables -/

structure WItem where
  orig : Str        -- `original_mnemonic`
  session : Str     -- `mnemonic`
  unit : Str        -- `str(unit)`
  value : WVal
  descr : Str       -- `str(descr)`
deriving DecidableEq, Repr

inductive Order where
  | valueDescr | descrValue
deriving DecidableEq, Repr

/-- the two order strings `get_formatter_function` / `SectionParser.metadata` understand -/
def parseOrder (s : String) : Option Order :=
  if s == "value:descr" then some .valueDescr
  else if s == "descr:value" then some .descrValue
  else none

/-- `order_definitions[version]` as the rows of that version -/
def versionRows (version : String) : List (String × String × String × List (String × List String)) :=
  Generated.orderDefinitions.filter (·.1 == version)

/-- `version in order_definitions` -/
def versionPresent (version : String) : Bool := !(versionRows version).isEmpty

/-- `order_definitions[version][section]` = (default order, [(order, mnemonics)]); `none` = KeyError -/
def sectionOrders (version sect : String) : Option (String × List (String × List String)) :=
  ((versionRows version).find? (·.2.1 == sect)).map fun r => (r.2.2.1, r.2.2.2)

/-- the dict `orders` built by `orders[mnemonic] = order` over the rows in turn (a later row wins) -/
def ordersGet (rows : List (String × List String)) (m : Str) : Option String :=
  rows.foldl (fun acc r => if r.2.any (fun x => x.toList == m) then some r.1 else acc) none

/-- the two-step lookup both sides use since the repair of the case-variant defect:
`orders.get(mnemonic, orders.get(mnemonic.upper(), default_order))` without the default -/
def ordersGet2 (rows : List (String × List String)) (m : Str) : Option String :=
  match ordersGet rows m with
  | some s => some s
  | none => ordersGet rows (upper m)

/-- `get_section_order_function(section, version)(mnemonic)`:
`orders.get(mnemonic, orders.get(mnemonic.upper(), default_order))`, and equally the lookup of
`SectionParser.metadata` (the two pieces of source are the same code).  `keyError`: version or section absent from
the table; `typeError`: the table holds a string that is neither "value:descr" nor "descr:value"
(the formatter function is then `None`). -/
def orderOf (version sect : String) (m : Str) : Except Err Order :=
  match sectionOrders version sect with
  | none => .error .keyError
  | some (dflt, rows) =>
    match parseOrder ((ordersGet2 rows m).getD dflt) with
    | some o => .ok o
    | none => .error .typeError

/-- the lookup BEFORE the repair (exact key only, `orders.get(mnemonic, default_order)`); kept to document the
defect `Null` / `mnemonic_case='upper'` (theorem `C03_counterexample_case_variant`) -/
def orderOfOld (version sect : String) (m : Str) : Except Err Order :=
  match sectionOrders version sect with
  | none => .error .keyError
  | some (dflt, rows) =>
    match parseOrder ((ordersGet rows m).getD dflt) with
    | some o => .ok o
    | none => .error .typeError

def secKey : SecName → String
  | .version => "Version" | .well => "Well" | .curves => "Curves" | .parameter => "Parameter" | .other => ""

/-! ## formatting -/

/-- the field written between unit and colon -/
def rhsOf (o : Order) (it : WItem) : Str :=
  match o with
  | .valueDescr => it.value.text
  | .descrValue => it.descr

/-- the field written after the colon -/
def lastOf (o : Order) (it : WItem) : Str :=
  match o with
  | .valueDescr => it.descr
  | .descrValue => it.value.text

structure Widths where
  left : Nat
  middle : Nat
deriving DecidableEq, Repr

/-- Python `max(list)` of naturals (only used on non-empty lists) -/
def maxList (l : List Nat) : Nat := l.foldr max 0

/-- `get_section_widths` (writer.py:422-445): the order is looked up by the ORIGINAL mnemonic.  For an empty
section Python returns `None, None` and the formatter would fall back to 10 / 40; no line is formatted then. -/
def sectionWidths (ord : Str → Order) (items : List WItem) : Widths :=
  if items.isEmpty then ⟨10, 40⟩ else
    ⟨maxList (items.map fun it => it.orig.length),
     maxList (items.map fun it => it.unit.length + 1 + (rhsOf (ord it.orig) it).length)⟩

/-- `get_formatter_function(order, left_width, middle_width)(item)` (writer.py:352-393):
`"%s.%s : %s" % (orig.ljust(left), unit + " " * (middle - len(unit) - len(rhs)) + rhs, last)` -/
def formatItem (o : Order) (W : Widths) (it : WItem) : Str :=
  ljust W.left ' ' it.orig ++
    '.' :: (it.unit ++ List.replicate (W.middle - it.unit.length - (rhsOf o it).length) ' ' ++ rhsOf o it ++
      ' ' :: ':' :: ' ' :: lastOf o it)

/-- the item lines of one section for a total order function -/
def sectionLines (ord : Str → Order) (items : List WItem) : List Str :=
  items.map fun it => formatItem (ord it.orig) (sectionWidths ord items) it

/-- the item lines of one section as `write` produces them.  The order function is obtained first
(KeyError for an unknown version even when the section is empty); an unusable order string fails at the
first item it is needed for. -/
def writeSection (version sect : String) (items : List WItem) : Except Err (List Str) :=
  match sectionOrders version sect with
  | none => .error .keyError
  | some _ =>
    if items.all (fun it => match orderOf version sect it.orig with | .ok _ => true | .error _ => false) then
      .ok (sectionLines (fun m => match orderOf version sect m with | .ok o => o | .error _ => .valueDescr) items)
    else .error .typeError

/-- the loop `header_item.value = standardize_value(header_item.value, header_item.unit)` over ~Well / ~Parameter -/
def standardizeItems (items : List WItem) : List WItem :=
  items.map fun it => { it with value := standardizeValue it.value it.unit }

/-! ## `SectionItems.set_item` on writer items (WRAP and VERS replacement) -/

def wRenumber (tr : Bool) (test : Str) : List WItem → Nat → List WItem
  | [], _ => []
  | it :: rest, k =>
    if cmpStr tr (useful it.orig) test then
      { it with session := useful it.orig ++ ':' :: natToStr (k + 1) } :: wRenumber tr test rest (k + 1)
    else it :: wRenumber tr test rest k

/-- `assign_duplicate_suffixes(test)` -/
def wAssignSuffixes (tr : Bool) (test : Str) (items : List WItem) : List WItem :=
  if (items.filter fun it => cmpStr tr (useful it.orig) test).length > 1 then wRenumber tr test items 0 else items

/-- `section[key] = HeaderItem(...)` / `section.KEY = HeaderItem(...)`: replace the first item whose SESSION
mnemonic matches, else append; then re-suffix the group of the new item -/
def wSetItem (tr : Bool) (key : Str) (it : WItem) (items : List WItem) : List WItem :=
  match findFirst (fun x => cmpStr tr key x.session) items with
  | some i => wAssignSuffixes tr (useful it.orig) (items.set i it)
  | none => wAssignSuffixes tr (useful it.orig) (items ++ [it])

def mkWItem (o u : Str) (v : WVal) (d : Str) : WItem := ⟨o, useful o, u, v, d⟩

def wrapItem (w : Bool) : WItem :=
  if w then mkWItem "WRAP".toList [] (.str "YES".toList) "Multiple lines per depth step".toList
  else mkWItem "WRAP".toList [] (.str "NO".toList) "One line per depth step".toList

/-- the VERS item substituted in the copy of ~Version; `none` = the `assert version in (1.2, 2, None)` fails
(`version=None` is resolved by the caller to the VERS value, which must then be 1.2 or 2.0 to be in the model) -/
def versItem (version : String) : Option WItem :=
  if version == "1.2" then
    some (mkWItem "VERS".toList [] (.num "1.2".toList false) "CWLS LOG ASCII STANDARD - VERSION 1.2".toList)
  else if version == "2.0" then
    some (mkWItem "VERS".toList [] (.num "2.0".toList false) "CWLS log ASCII Standard -VERSION 2.0".toList)
  else none

/-! ## `str.splitlines()` -/

def isLineBreak (c : Char) : Bool :=
  let n := c.toNat
  n == 0x0A || n == 0x0B || n == 0x0C || n == 0x0D || n == 0x1C || n == 0x1D || n == 0x1E || n == 0x85 ||
  n == 0x2028 || n == 0x2029

/-- `str.splitlines()` with `acc` the current line reversed -/
def splitlinesAux : Str → Str → List Str
  | [], acc => if acc.isEmpty then [] else [acc.reverse]
  | '\r' :: '\n' :: rest, acc => acc.reverse :: splitlinesAux rest []
  | c :: rest, acc =>
    if isLineBreak c then acc.reverse :: splitlinesAux rest [] else splitlinesAux rest (c :: acc)

def splitlines (s : Str) : List Str := splitlinesAux s []

/-! ## the header -/

/-- the header part of a LASFile after `update_start_stop_step` / `update_units_from_index_curve` -/
structure WLas where
  version : List WItem
  versionTr : Bool          -- `las.version.mnemonic_transforms`
  well : List WItem
  curves : List WItem
  params : List WItem
  other : Str
deriving DecidableEq, Repr

def titleLine (t : String) (w : Nat) : Str := ljust w '-' t.toList

/-- the five header sections in the order `write` emits them, as (title text, lines after the title), and the
LASFile afterwards (WRAP replaced in ~Version, ~Well / ~Parameter values standardised in place).
`wrap = none`: `las.version["WRAP"]` must exist (KeyError otherwise).  Nothing here depends on `header_width`
or on any of the data-section options. -/
def headerSections (version : String) (wrap : Option Bool) (las : WLas) :
    Except Err (List (String × List Str) × WLas) := do
  let vsec ← match wrap with
    | none =>
      match findFirst (fun x => cmpStr las.versionTr x.session "WRAP".toList) las.version with
      | some _ => pure las.version
      | none => throw Err.keyError
    | some w => pure (wSetItem las.versionTr "WRAP".toList (wrapItem w) las.version)
  let vers ← match versItem version with
    | some it => pure it
    | none => throw Err.other
  let vcopy := wSetItem las.versionTr "VERS".toList vers vsec
  let lv ← writeSection version "Version" vcopy
  let well := standardizeItems las.well
  let lw ← writeSection version "Well" well
  let lc ← writeSection version "Curves" las.curves
  let params := standardizeItems las.params
  let lp ← writeSection version "Parameter" params
  pure ([("~Version ", lv), ("~Well ", lw), ("~Curve Information ", lc), ("~Params ", lp),
         ("~Other ", splitlines las.other)],
        { las with version := vsec, well := well, params := params })

/-- lines written before the data section title: each title is `title.ljust(header_width, "-")` -/
def headerLines (version : String) (wrap : Option Bool) (headerWidth : Nat) (las : WLas) :
    Except Err (List Str × WLas) :=
  match headerSections version wrap las with
  | .error e => .error e
  | .ok (secs, las') => .ok (secs.flatMap (fun tl => titleLine tl.1 headerWidth :: tl.2), las')

/-! ## reading one line back -/

inductive MCase where
  | preserve | upper | lower
deriving DecidableEq, Repr

def caseMap : MCase → Str → Str
  | .preserve, s => s
  | .upper, s => upper s
  | .lower, s => lower s

/-- the test of `strip_brackets`: at least two characters, `[..]` or `(..)` -/
def isBracketed (x : Str) : Bool :=
  2 ≤ x.length &&
    ((x.head? == some '[' && x.getLast? == some ']') || (x.head? == some '(' && x.getLast? == some ')'))

/-- `SectionParser.strip_brackets` -/
def stripBrackets (x : Str) : Str :=
  let x := strip x
  if isBracketed x then (x.drop 1).dropLast else x

/-- `SectionParser.__init__` (reader.py:804-815) + the lookup of `metadata`
`self.orders.get(name, self.orders.get(name.upper(), self.default_order))`:
`defs[self.version]` is evaluated for every title; an unknown title keeps "value:descr" and `{}`;
a ~V/~W title whose section is missing from the table leaves `self.orders` unset (AttributeError). -/
def readerOrderOf (version : String) (kind : SecName) (name : Str) : Except Err Order :=
  if !versionPresent version then .error .keyError else
  match kind with
  | .other => .ok .valueDescr
  | _ =>
    match sectionOrders version (secKey kind) with
    | none => .error .keyError
    | some (dflt, rows) =>
      match parseOrder ((ordersGet2 rows name).getD dflt) with
      | some o => .ok o
      | none => .error .typeError

/-- a re-read item; `value` is the raw text (before `num`) -/
structure RItem where
  name : Str
  unit : Str
  value : Str
  descr : Str
deriving DecidableEq, Repr

/-- `read_line(line, section_name=parser.section_name2)`, the case map, and the `SectionParser` constructor of
the section kind (`metadata` for ~V/~W/unknown titles, `curves`, `params`).  `none` = an exception
(no pattern matches; version absent from ORDER_DEFINITIONS). -/
def readItem (version : String) (kind : SecName) (c : MCase) (line : Str) : Option RItem :=
  if !versionPresent version then none else
  match parseHeaderLine kind line with
  | none => none
  | some f =>
    let name := caseMap c f.name
    let unit := stripBrackets f.unit
    match kind with
    | .curves => some ⟨name, unit, f.value, f.descr⟩
    | .parameter => some ⟨name, unit, f.value, f.descr⟩
    | .other => some ⟨name, unit, f.value, f.descr⟩     -- default_order "value:descr", orders {}
    | .version | .well =>
      match readerOrderOf version kind name with
      | .ok .valueDescr => some ⟨name, unit, f.value, f.descr⟩
      | .ok .descrValue => some ⟨name, unit, f.descr, f.value⟩
      | .error .keyError => none                          -- `self.orders` never set: AttributeError
      | .error _ => some ⟨name, unit, [], []⟩             -- neither branch of `metadata` taken

inductive LineRes where
  | skip | stop | error | item (r : RItem)
deriving DecidableEq, Repr

/-- one iteration of the loop of `parse_header_items_section` (ignore_comments = ("#",), header errors raise) -/
def readLine (version : String) (kind : SecName) (c : MCase) (raw : Str) : LineRes :=
  let line := strip raw
  match line with
  | [] => .skip
  | ch :: _ =>
    if ch == '#' then .skip
    else if ch == '~' then .stop
    else match readItem version kind c line with
      | some r => .item r
      | none => .error

/-- the items of the lines of one section (the title line excluded); `none` = an exception -/
def readSection (version : String) (kind : SecName) (c : MCase) : List Str → Option (List RItem)
  | [] => some []
  | raw :: rest =>
    match readLine version kind c raw with
    | .skip => readSection version kind c rest
    | .stop => some []
    | .error => none
    | .item r => (readSection version kind c rest).map (r :: ·)

end Lasio.Wr
