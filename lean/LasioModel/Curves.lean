import LasioModel.Section
/-
Model of the curve-editing API of `lasio.las.LASFile` (las.py), method by method:
`append_curve`, `insert_curve`, `append_curve_item`, `insert_curve_item`, `replace_curve_item`,
`delete_curve`, `update_curve`, `__setitem__`, `set_data`, and the views `keys/values/items/index/data/__getitem__`.

State: the `~Curves` section (a `Section` from Section.lean, so that every statement about `SectionItems`
transfers) and, in parallel, one data array per curve.  An array is a list of opaque cell tags
(`Cell := Str`); a 2-D array is a list of rows.

Validated facts about the real code (harness/props/c14.py compares after every step):
* `insert_curve_item` asserts `isinstance(curve_item, CurveItem)` BEFORE touching the list; `replace_curve_item`
  deletes first and inserts afterwards, so an `AssertionError` there leaves the curve deleted, and a negative
  `ix` re-inserts relative to the SHORTER list (`replace_curve_item(-1, c)` puts `c` before the last remaining curve).
* `delete_curve(mnemonic=m)` / `update_curve(mnemonic=m)` / `las[m] = …` resolve `m` with
  `self.curves.keys().index(m)` / `m in self.curves.keys()` : exact, case-sensitive comparison with the SESSION
  mnemonics, `ValueError` when absent (even when `mnemonic_transforms` is on).
* `delete_curve(ix=i)` is `list.pop(i)` (IndexError out of range), `update_curve(ix=i)` is `self.curves[i]`
  (`SectionItems.__getitem__` with an int: no item matches an int, then `list.__getitem__`).
* `set_data`: `data[:, :len(curves)]` when `truncate`; while `size > 0` and wider than the curve list, append
  `CurveItem("")` (each append re-suffixes the `UNKNOWN` group); names default to the original mnemonics (also for
  `names=[]`), a short list is padded with `""`; when `size > 0` every curve `i` is RENAMED to `names[i]` (original :=
  name, session := useful name) and then receives column `i` — for an array narrower than the curve list the
  curve at position `width` is renamed, then `data[:, width]` raises IndexError and `assign_duplicate_suffixes()`
  is never reached; otherwise all groups are re-suffixed (iteration over a Python `set` of useful names; the
  result does not depend on the order, see `assignMany_set_indep` in LasioProofs/Lemmas/CurvesLemmas.lean).
* Not modelled (outside the domain of the harness): aliasing (the same `CurveItem`/array object put into two
  places), non-1-D curve arrays, `set_data` with a 1-D array or a DataFrame, `delete_curve()` without arguments,
  `names` that is not a list of `str`.
-/
namespace Lasio

abbrev Cell := Str

/-- the curves of one LASFile: the `~Curves` section and the data array of each curve (parallel lists) -/
structure LasCurves where
  sec : Section
  data : List (List Cell)
deriving DecidableEq, Repr

/-- well-formedness: one array per curve (an invariant of every operation, `C14_wf_step`) -/
def LasCurves.WF (L : LasCurves) : Prop := L.sec.items.length = L.data.length

instance (L : LasCurves) : Decidable L.WF := by unfold LasCurves.WF; infer_instance

inductive CvResult where
  | ok | keyError | valueError | indexError | assertionError
deriving DecidableEq, Repr

/-- an item object handed to `append_curve_item` / `insert_curve_item` / `replace_curve_item`:
`isCurve = false` is a `HeaderItem` that is not a `CurveItem` -/
structure CurveArg where
  item : Item
  data : List Cell
  isCurve : Bool
deriving DecidableEq, Repr

/-- `keys().index(m)` : first position whose session mnemonic equals `m` exactly -/
def keyIndex (keys : List Str) (m : Str) : Option Nat := findFirst (fun k => k == m) keys

def LasCurves.keys (L : LasCurves) : List Str := L.sec.keys
def LasCurves.len (L : LasCurves) : Nat := L.sec.items.length

/-- `insert_curve_item(ix, curve_item)` -/
def LasCurves.insertItem (L : LasCurves) (ix : Int) (c : CurveArg) : LasCurves × CvResult :=
  if c.isCurve then
    (⟨L.sec.insert ix c.item, insertAt L.data (pyInsertPos L.sec.items.length ix) c.data⟩, .ok)
  else (L, .assertionError)

/-- `append_curve_item(curve_item)` = `insert_curve_item(len(self.curves), curve_item)` -/
def LasCurves.appendItem (L : LasCurves) (c : CurveArg) : LasCurves × CvResult :=
  L.insertItem (Int.ofNat L.sec.items.length) c

/-- `insert_curve(ix, mnemonic, data, unit, descr, value)` -/
def LasCurves.insertCurve (L : LasCurves) (ix : Int) (m u v d : Str) (data : List Cell) : LasCurves × CvResult :=
  L.insertItem ix ⟨mkItem m u v d, data, true⟩

/-- `append_curve(mnemonic, data, unit, descr, value)` -/
def LasCurves.appendCurve (L : LasCurves) (m u v d : Str) (data : List Cell) : LasCurves × CvResult :=
  L.insertCurve (Int.ofNat L.sec.items.length) m u v d data

/-- `delete_curve(ix=ix)` = `self.curves.pop(ix)` -/
def LasCurves.deleteIx (L : LasCurves) (ix : Int) : LasCurves × CvResult :=
  match L.sec.pop ix, pyIndex L.sec.items.length ix with
  | .ok s', some j => (⟨s', L.data.eraseIdx j⟩, .ok)
  | _, _ => (L, .indexError)

/-- `delete_curve(mnemonic=m)` -/
def LasCurves.deleteMnem (L : LasCurves) (m : Str) : LasCurves × CvResult :=
  match keyIndex L.keys m with
  | some j => L.deleteIx (Int.ofNat j)
  | none => (L, .valueError)

/-- `replace_curve_item(ix, curve_item)` = `delete_curve(ix=ix)` then `insert_curve_item(ix, curve_item)` -/
def LasCurves.replaceItem (L : LasCurves) (ix : Int) (c : CurveArg) : LasCurves × CvResult :=
  match L.deleteIx ix with
  | (L', .ok) => L'.insertItem ix c
  | r => r

/-- the attribute assignments of `update_curve` on the curve at position `j` -/
def LasCurves.updateAt (L : LasCurves) (j : Nat) (data : Option (List Cell)) (unit descr value : Option Str) :
    LasCurves :=
  ⟨{ L.sec with items := L.sec.items.modify j (fun it =>
      { it with unit := unit.getD it.unit, descr := descr.getD it.descr, value := value.getD it.value }) },
   L.data.modify j (fun old => data.getD old)⟩

/-- `update_curve(ix=ix, data=…, unit=…, descr=…, value=…)` (`none` = the `False` default, no update) -/
def LasCurves.updateIx (L : LasCurves) (ix : Int) (data : Option (List Cell)) (unit descr value : Option Str) :
    LasCurves × CvResult :=
  match L.sec.getitem (.int ix) with
  | .ok j => (L.updateAt j data unit descr value, .ok)
  | .error _ => (L, .indexError)

/-- `update_curve(mnemonic=m, …)` -/
def LasCurves.updateMnem (L : LasCurves) (m : Str) (data : Option (List Cell)) (unit descr value : Option Str) :
    LasCurves × CvResult :=
  match keyIndex L.keys m with
  | some j => L.updateIx (Int.ofNat j) data unit descr value
  | none => (L, .valueError)

/-- `las[key] = CurveItem(...)` -/
def LasCurves.setItemCurve (L : LasCurves) (key : Str) (it : Item) (data : List Cell) : LasCurves × CvResult :=
  if key != it.session then (L, .keyError)
  else match keyIndex L.keys key with
    | some j => L.replaceItem (Int.ofNat j) ⟨it, data, true⟩
    | none => L.appendItem ⟨it, data, true⟩

/-- `las[key] = array` -/
def LasCurves.setItemData (L : LasCurves) (key : Str) (data : List Cell) : LasCurves × CvResult :=
  match keyIndex L.keys key with
  | some _ => L.updateMnem key (some data) none none none
  | none => L.appendCurve key [] [] [] data

/-! ### `set_data` -/

/-- `data.shape[1]` of a list of rows (irrelevant when there are no rows: then `size == 0`) -/
def cvRowsWidth : List (List Cell) → Nat
  | [] => 0
  | r :: _ => r.length

/-- `data[:, i]` -/
def cvColumn (rows : List (List Cell)) (i : Nat) : List Cell := rows.map (fun r => r.getD i [])

/-- `CurveItem("")` -/
def cvBlankItem : Item := mkItem [] [] [] []

/-- `k` times `self.curves.append(CurveItem(""))` (the new curve's array is `np.asarray([])`) -/
def LasCurves.extend (L : LasCurves) : Nat → LasCurves
  | 0 => L
  | k + 1 => LasCurves.extend ⟨L.sec.append cvBlankItem, L.data ++ [[]]⟩ k

/-- `item.mnemonic = n` (`HeaderItem.__setattr__`) -/
def renameItem (it : Item) (n : Str) : Item := { it with orig := n, session := useful n }

def cvMapIdx {α β} (f : Nat → α → β) : Nat → List α → List β
  | _, [] => []
  | i, a :: as => f i a :: cvMapIdx f (i + 1) as

/-- `assign_duplicate_suffixes(t)` for every `t` of a list of test mnemonics, in that order -/
def assignMany (s : Section) (ts : List Str) : Section := ts.foldl Section.assignSuffixes s

/-- `assign_duplicate_suffixes()` : every useful mnemonic present is a test mnemonic (Python iterates a `set`;
here: list order, the result is the same for every order and multiplicity, `assignMany_set_indep`) -/
def Section.assignAll (s : Section) : Section := assignMany s (s.items.map fun it => useful it.orig)

/-- the `names` actually used by `set_data` for a curve list with original mnemonics `origs` -/
def effectiveNames (origs : List Str) (names : Option (List Str)) : List Str :=
  match names with
  | none => origs
  | some [] => origs
  | some ns => ns ++ List.replicate (origs.length - ns.length) []

/-- `data[:, :len(self.curves)]` when `truncate` -/
def setDataRows (ncurves : Nat) (rows : List (List Cell)) (truncate : Bool) : List (List Cell) :=
  if truncate then rows.map (fun r => r.take ncurves) else rows

/-- the loop `for i, curve in enumerate(self.curves): curve.mnemonic = names[i]; curve.data = data[:, i]` for an array
of width `w`, followed by `assign_duplicate_suffixes()` when the loop did not raise -/
def LasCurves.assignCols (L : LasCurves) (rows : List (List Cell)) (w : Nat) (names : Option (List Str)) :
    LasCurves × CvResult :=
  let names1 := effectiveNames L.sec.origs names
  let items2 := cvMapIdx (fun i it => if i ≤ w then renameItem it (names1.getD i []) else it) 0 L.sec.items
  let data2 := cvMapIdx (fun i d => if i < w then cvColumn rows i else d) 0 L.data
  if L.sec.items.length ≤ w then
    (⟨Section.assignAll { L.sec with items := items2 }, data2⟩, .ok)
  else (⟨{ L.sec with items := items2 }, data2⟩, .indexError)

/-- `set_data(array_like, names, truncate)` for a 2-D array given as its list of rows -/
def LasCurves.setData (L : LasCurves) (rows : List (List Cell)) (names : Option (List Str)) (truncate : Bool) :
    LasCurves × CvResult :=
  let rows1 := setDataRows L.sec.items.length rows truncate
  let w := cvRowsWidth rows1
  if 0 < rows1.length * w then
    (L.extend (w - L.sec.items.length)).assignCols rows1 w names
  else (L, .ok)      -- an empty array: nothing is renamed, no suffix is re-assigned (since the repair of `df-empty-stale-suffix`)

/-! ### the operations as data -/

inductive CurveOp where
  | appendCurve (m u v d : Str) (data : List Cell)
  | insertCurve (ix : Int) (m u v d : Str) (data : List Cell)
  | appendItem (c : CurveArg)
  | insertItem (ix : Int) (c : CurveArg)
  | replaceItem (ix : Int) (c : CurveArg)
  | deleteIx (ix : Int)
  | deleteMnem (m : Str)
  | updateIx (ix : Int) (data : Option (List Cell)) (unit descr value : Option Str)
  | updateMnem (m : Str) (data : Option (List Cell)) (unit descr value : Option Str)
  | setItemCurve (key : Str) (it : Item) (data : List Cell)
  | setItemData (key : Str) (data : List Cell)
  | setData (rows : List (List Cell)) (names : Option (List Str)) (truncate : Bool)
deriving DecidableEq, Repr

def LasCurves.step (L : LasCurves) : CurveOp → LasCurves × CvResult
  | .appendCurve m u v d data => L.appendCurve m u v d data
  | .insertCurve ix m u v d data => L.insertCurve ix m u v d data
  | .appendItem c => L.appendItem c
  | .insertItem ix c => L.insertItem ix c
  | .replaceItem ix c => L.replaceItem ix c
  | .deleteIx ix => L.deleteIx ix
  | .deleteMnem m => L.deleteMnem m
  | .updateIx ix data u d v => L.updateIx ix data u d v
  | .updateMnem m data u d v => L.updateMnem m data u d v
  | .setItemCurve key it data => L.setItemCurve key it data
  | .setItemData key data => L.setItemData key data
  | .setData rows names truncate => L.setData rows names truncate

def LasCurves.run (L : LasCurves) (ops : List CurveOp) : LasCurves := ops.foldl (fun L op => (L.step op).1) L

/-- a fresh `LASFile()` : no curves, `mnemonic_transforms = False` -/
def LasCurves.empty : LasCurves := ⟨⟨[], false⟩, []⟩

/-! ### views -/

/-- `las.values()` -/
def LasCurves.values (L : LasCurves) : List (List Cell) := L.data
/-- `las.items()` -/
def LasCurves.itemsView (L : LasCurves) : List (Str × List Cell) := L.sec.keys.zip L.data

/-- `las[key]` : `int` → `self.curves[key].data`; `str` → must be literally among the session mnemonics, then
`self.curves[key].data` (the section's own comparison) -/
def LasCurves.getitem (L : LasCurves) (k : Key) : Except CvResult (List Cell) :=
  match k with
  | .int _ =>
    match L.sec.getitem k with
    | .ok j => .ok (L.data.getD j [])
    | .error _ => .error .indexError
  | .str m =>
    if L.keys.contains m then
      match L.sec.getitem k with
      | .ok j => .ok (L.data.getD j [])
      | .error _ => .error .keyError
    else .error .keyError

/-- `las.index` = `self.curves[0].data` -/
def LasCurves.index (L : LasCurves) : Except CvResult (List Cell) := L.getitem (.int 0)

/-- `las.data` = `np.vstack([c.data for c in curves]).T` as a list of rows (`np.empty((0, 0))` when there is no curve);
ValueError for unequal lengths -/
def LasCurves.dataView (L : LasCurves) : Except CvResult (List (List Cell)) :=
  match L.data with
  | [] => .ok []
  | d :: ds =>
    if ds.all (fun x => x.length == d.length) then
      .ok ((List.range d.length).map fun j => L.data.map (fun col => col.getD j []))
    else .error .valueError

/-! ### the abstract specification: a plain list of (name, metadata, array) -/

structure SpecCurve where
  orig : Str
  unit : Str
  value : Str
  descr : Str
  data : List Cell
deriving DecidableEq, Repr

abbrev SpecCurves := List SpecCurve

def specOf (it : Item) (d : List Cell) : SpecCurve := ⟨it.orig, it.unit, it.value, it.descr, d⟩

/-- abstraction: forget the session mnemonics -/
def LasCurves.abs (L : LasCurves) : SpecCurves := List.zipWith specOf L.sec.items L.data

def specInsert (S : SpecCurves) (ix : Int) (c : SpecCurve) : SpecCurves :=
  insertAt S (pyInsertPos S.length ix) c

def specDelete (S : SpecCurves) (ix : Int) : SpecCurves :=
  match pyIndex S.length ix with
  | some j => S.eraseIdx j
  | none => S

def specUpdate (S : SpecCurves) (ix : Int) (data : Option (List Cell)) (unit descr value : Option Str) :
    SpecCurves :=
  match pyIndex S.length ix with
  | some j => S.modify j (fun c => ⟨c.orig, unit.getD c.unit, value.getD c.value, descr.getD c.descr,
      data.getD c.data⟩)
  | none => S

def specReplace (S : SpecCurves) (ix : Int) (c : CurveArg) : SpecCurves :=
  match pyIndex S.length ix with
  | some j =>
    let S' := S.eraseIdx j
    if c.isCurve then specInsert S' ix (specOf c.item c.data) else S'
  | none => S

def cvBlankSpec : SpecCurve := ⟨[], [], [], [], []⟩

/-- the rename-and-assign loop on the plain list -/
def specAssignCols (S : SpecCurves) (rows : List (List Cell)) (w : Nat) (names : Option (List Str)) : SpecCurves :=
  let names1 := effectiveNames (S.map (·.orig)) names
  cvMapIdx (fun i c =>
    ({ c with orig := if i ≤ w then names1.getD i [] else c.orig,
              data := if i < w then cvColumn rows i else c.data } : SpecCurve)) 0 S

/-- `set_data` on the plain list -/
def specSetData (S : SpecCurves) (rows : List (List Cell)) (names : Option (List Str)) (truncate : Bool) :
    SpecCurves :=
  let rows1 := setDataRows S.length rows truncate
  let w := cvRowsWidth rows1
  if 0 < rows1.length * w then
    specAssignCols (S ++ List.replicate (w - S.length) cvBlankSpec) rows1 w names
  else S

/-- the same operations on the plain list; a mnemonic argument is resolved in the table `keys` of the current
session mnemonics (`keys.index(m)`), everything else is ordinary list surgery -/
def specStep (keys : List Str) (S : SpecCurves) : CurveOp → SpecCurves
  | .appendCurve m u v d data => S ++ [⟨m, u, v, d, data⟩]
  | .insertCurve ix m u v d data => specInsert S ix ⟨m, u, v, d, data⟩
  | .appendItem c => if c.isCurve then S ++ [specOf c.item c.data] else S
  | .insertItem ix c => if c.isCurve then specInsert S ix (specOf c.item c.data) else S
  | .replaceItem ix c => specReplace S ix c
  | .deleteIx ix => specDelete S ix
  | .deleteMnem m =>
    match keyIndex keys m with
    | some j => S.eraseIdx j
    | none => S
  | .updateIx ix data u d v => specUpdate S ix data u d v
  | .updateMnem m data u d v =>
    match keyIndex keys m with
    | some j => specUpdate S (Int.ofNat j) data u d v
    | none => S
  | .setItemCurve key it data =>
    if key != it.session then S
    else match keyIndex keys key with
      | some j => S.set j (specOf it data)
      | none => S ++ [specOf it data]
  | .setItemData key data =>
    match keyIndex keys key with
    | some j => specUpdate S (Int.ofNat j) (some data) none none none
    | none => S ++ [⟨key, [], [], [], data⟩]
  | .setData rows names truncate => specSetData S rows names truncate

/-- the plain-list history: mnemonic arguments are looked up in the session names of the concrete state reached
so far, nothing else of the concrete state is used -/
def specRun : LasCurves → SpecCurves → List CurveOp → SpecCurves
  | _, S, [] => S
  | L, S, op :: ops => specRun (L.step op).1 (specStep L.keys S op) ops

/-! ### two LASFiles edited alternately -/

/-- `false` addresses the first LASFile, `true` the second -/
def cvStep2 (P : LasCurves × LasCurves) (o : Bool × CurveOp) : LasCurves × LasCurves :=
  if o.1 then (P.1, (P.2.step o.2).1) else ((P.1.step o.2).1, P.2)

def cvRun2 (P : LasCurves × LasCurves) (ops : List (Bool × CurveOp)) : LasCurves × LasCurves :=
  ops.foldl cvStep2 P

end Lasio
