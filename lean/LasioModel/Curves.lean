import LasioModel.Basic
/- Curves model (to be filled in) -/
namespace Lasio
end Lasio
