import LasioModel.Basic
/-
Model of `lasio.las_items.SectionItems` / `HeaderItem` (las_items.py), method by method.
An item carries its original mnemonic, its session mnemonic, unit, value (as an opaque tag), descr.
-/
namespace Lasio

structure Item where
  orig : Str
  session : Str
  unit : Str
  value : Str
  descr : Str
deriving DecidableEq, Repr

/-- `HeaderItem.useful_mnemonic` -/
def useful (o : Str) : Str := if strip o == [] then "UNKNOWN".toList else o

/-- `HeaderItem(mnemonic, unit, value, descr)` : session mnemonic starts as the useful one -/
def mkItem (o u v d : Str) : Item := ⟨o, useful o, u, v, d⟩

structure Section where
  items : List Item
  tr : Bool            -- `mnemonic_transforms`
deriving DecidableEq, Repr

inductive Key where
  | str (s : Str)
  | int (i : Int)
deriving DecidableEq, Repr

inductive Err where
  | keyError | indexError | valueError | typeError | other
deriving DecidableEq, Repr

/-- `mnemonic_compare` on two strings -/
def cmpStr (tr : Bool) (a b : Str) : Bool := if tr then upper a == upper b else a == b

/-- `mnemonic_compare(item.mnemonic, key)` : an `int` never equals a `str` (with transforms the
`AttributeError` of `int.upper` is swallowed, without them `str == int` is `False`) -/
def cmpKey (tr : Bool) (m : Str) : Key → Bool
  | .str k => cmpStr tr m k
  | .int _ => false

/-- index of the first element satisfying `p` -/
def findFirst {α} (p : α → Bool) : List α → Option Nat
  | [] => none
  | a :: as => if p a then some 0 else (findFirst p as).map (· + 1)

def Section.find (s : Section) (k : Key) : Option Nat :=
  findFirst (fun it => cmpKey s.tr it.session k) s.items

/-- `key in section` for a string or int key -/
def Section.contains (s : Section) (k : Key) : Bool := (s.find k).isSome

/-- Python list index normalisation for `list[i]`, `del list[i]`, `list.pop(i)` -/
def pyIndex (len : Nat) (i : Int) : Option Nat :=
  if 0 ≤ i then (if i.toNat < len then some i.toNat else none)
  else (if (-i).toNat ≤ len then some (len - (-i).toNat) else none)

/-- `section[key]` : position of the returned item -/
def Section.getitem (s : Section) (k : Key) : Except Err Nat :=
  match s.find k with
  | some i => .ok i
  | none =>
    match k with
    | .int i => match pyIndex s.items.length i with
      | some j => .ok j
      | none => .error .indexError
    | .str _ => .error .keyError

/-- `del section[key]` -/
def Section.delitem (s : Section) (k : Key) : Except Err Section :=
  match s.getitem k with
  | .ok i => .ok { s with items := s.items.eraseIdx i }
  | .error e => .error e

/-- set the session mnemonic of every item at the positions in a group to `useful:k` -/
def renumber (tr : Bool) (test : Str) : List Item → Nat → List Item
  | [], _ => []
  | it :: rest, k =>
    if cmpStr tr (useful it.orig) test then
      { it with session := useful it.orig ++ ':' :: natToStr (k + 1) } :: renumber tr test rest (k + 1)
    else it :: renumber tr test rest k

def countGroup (tr : Bool) (test : Str) (l : List Item) : Nat :=
  (l.filter fun it => cmpStr tr (useful it.orig) test).length

/-- `assign_duplicate_suffixes(test_mnemonic)` -/
def Section.assignSuffixes (s : Section) (test : Str) : Section :=
  if countGroup s.tr test s.items > 1 then { s with items := renumber s.tr test s.items 0 } else s

/-- `section.append(item)` -/
def Section.append (s : Section) (it : Item) : Section :=
  ({ s with items := s.items ++ [it] }).assignSuffixes (useful it.orig)

/-- Python `list.insert(i, x)` position clamping -/
def pyInsertPos (len : Nat) (i : Int) : Nat :=
  if 0 ≤ i then min i.toNat len else len - min (-i).toNat len

def insertAt {α} (l : List α) (n : Nat) (a : α) : List α := l.take n ++ a :: l.drop n

/-- `section.insert(i, item)` -/
def Section.insert (s : Section) (i : Int) (it : Item) : Section :=
  ({ s with items := insertAt s.items (pyInsertPos s.items.length i) it }).assignSuffixes (useful it.orig)

/-- `section.set_item(key, newitem)` (replace the first item whose session mnemonic matches, else append);
after the repair of R10b the group of the new item is re-suffixed -/
def Section.setItem (s : Section) (k : Key) (it : Item) : Section :=
  match s.find k with
  | some i => ({ s with items := s.items.set i it }).assignSuffixes (useful it.orig)
  | none => s.append it

/-- `section.set_item_value(key, v)` = `self[key].value = v` -/
def Section.setValue (s : Section) (k : Key) (v : Str) : Except Err Section :=
  match s.getitem k with
  | .ok i => .ok { s with items := s.items.modify i (fun it => { it with value := v }) }
  | .error e => .error e

/-- `section.get(mnemonic, default, add)` for a string default: returns (position of the existing item or the
new item, section afterwards) -/
def Section.get (s : Section) (m : Str) (dflt : Str) (add : Bool) : Item × Section :=
  match s.find (.str m) with
  | some i => ((s.items[i]?).getD (mkItem m [] dflt []), s)
  | none =>
    let it := mkItem m [] dflt []
    if add then
      let s' := s.append it
      ((s'.items.getLast?).getD it, s')   -- the returned object is the appended one (session name may be suffixed)
    else (it, s)

/-- `section.get(mnemonic, default=<item>, add)` : a NEW item of the default's type is built from the default's unit, value
and descr under the requested mnemonic (the default itself is never touched) -/
def Section.getWithItem (s : Section) (m : Str) (dflt : Item) (add : Bool) : Item × Section :=
  match s.find (.str m) with
  | some i => ((s.items[i]?).getD dflt, s)
  | none =>
    let it := mkItem m dflt.unit dflt.value dflt.descr
    if add then
      let s' := s.append it
      ((s'.items.getLast?).getD it, s')
    else (it, s)

/-- `section.<key> = value` for a plain value: `if key in self: self[key] = value`, otherwise an ordinary instance attribute
is set and the items are untouched -/
def Section.setAttrValue (s : Section) (k : Str) (v : Str) : Section :=
  if s.contains (.str k) then
    match s.setValue (.str k) v with
    | .ok s' => s'
    | .error _ => s
  else s

/-- `list.pop(ix)` as used by `delete_curve` -/
def Section.pop (s : Section) (i : Int) : Except Err Section :=
  match pyIndex s.items.length i with
  | some j => .ok { s with items := s.items.eraseIdx j }
  | none => .error .indexError

/-! ### slices: `section[a:b:c]` returns a NEW `SectionItems` holding the items at the positions Python's list slicing selects
(`SectionItems(list.__getitem__(self, key))`: no lasio code runs on the items, the section itself is not touched) -/

/-- one bound of `slice.indices(len)` (CPython `PySlice_AdjustIndices`) -/
def sliceBound (len : Nat) (stepNeg : Bool) (dflt : Int) : Option Int → Int
  | none => dflt
  | some v =>
    if v < 0 then
      (if v + len < 0 then (if stepNeg then -1 else 0) else v + len)
    else if v ≥ len then (if stepNeg then (len : Int) - 1 else len)
    else v

/-- the positions `range(*slice(start, stop, step).indices(len))`; `step = 0` is a `ValueError` in Python (`none`) -/
def pySlice (len : Nat) (start stop : Option Int) (step : Int) : Option (List Nat) :=
  if step == 0 then none
  else if step > 0 then
    let a := sliceBound len false 0 start
    let b := sliceBound len false len stop
    let n := if a < b then ((b - a - 1) / step + 1).toNat else 0
    some ((List.range n).map fun (k : Nat) => (a + (k : Int) * step).toNat)
  else
    let a := sliceBound len true ((len : Int) - 1) start
    let b := sliceBound len true (-1) stop
    let n := if b < a then ((a - b - 1) / (-step) + 1).toNat else 0
    some ((List.range n).map fun (k : Nat) => (a + (k : Int) * step).toNat)

/-- `section[start:stop:step]`: the positions of the items of the returned list -/
def Section.getSlice (s : Section) (start stop : Option Int) (step : Int) : Option (List Nat) :=
  pySlice s.items.length start stop step

/-- the edit operations of C13/C15 on one section; a failing operation (KeyError/IndexError) leaves the section unchanged -/
inductive Op where
  | append (o u v d : Str)
  | insert (i : Int) (o u v d : Str)
  | del (k : Key)
  | pop (i : Int)
  | setItem (k : Key) (o u v d : Str)
  | setValue (k : Key) (v : Str)
  | getAdd (m dflt : Str)
deriving Repr

def Section.step (s : Section) : Op → Section
  | .append o u v d => s.append (mkItem o u v d)
  | .insert i o u v d => s.insert i (mkItem o u v d)
  | .del k => match s.delitem k with | .ok s' => s' | .error _ => s
  | .pop i => match s.pop i with | .ok s' => s' | .error _ => s
  | .setItem k o u v d => s.setItem k (mkItem o u v d)
  | .setValue k v => match s.setValue k v with | .ok s' => s' | .error _ => s
  | .getAdd m dflt => (s.get m dflt true).2

def Section.run (s : Section) (ops : List Op) : Section := ops.foldl Section.step s

def Section.keys (s : Section) : List Str := s.items.map (·.session)
def Section.origs (s : Section) : List Str := s.items.map (·.orig)

end Lasio
