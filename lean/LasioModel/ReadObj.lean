import LasioModel.Reader
import LasioModel.NumLit
import LasioModel.WriteObj
/-
The TYPED header that `lasio.read()` builds (`LASFile.read`, las.py:246-348 + `reader.parse_header_items_section` +
`reader.SectionParser.metadata / params / curves`).

`Lasio.Rd.readLines` keeps every item value as the RAW TEXT of the field the section parser selected (`Rd.mkItem'`).  Here the
step that `SectionParser` does on that text is added, section by section:
  * `self.func = self.curves`   (title `~C…`)                          the value stays the text                  (`curvesValue`)
  * `self.func = self.params`   (title `~P…`)                          `num(value)`                              (`paramsValue`)
  * `self.func = self.metadata` (`~V…`, `~W…`, every other title, and every LAS-3 like title when the provisional
                                 version is 3.0)                       `num(value)` unless the mnemonic, upper-cased, is
                                                                       one of `number_strings` (API, UWI)        (`metadataValue`)
`num`, `metadataValue`, `paramsValue`, `curvesValue` are the definitions of `LasioModel/NumLit.lean` (C08); nothing about
`float()` is modelled here: a float is the exact decimal `NumVal.flt neg mant exp10` the literal denotes.

`Rd.RHeader` has forgotten which title (and which provisional version) read the section stored under a key, so the section loop is
run again with a second accumulator, `Kinds` : key ↦ `PKind` of the parser (`Rd.mkParser`) of the LAST header-items section stored
under that key.  `readObjLines` returns the `Rd` header unchanged (`THeader.raw`) together with that map; `THeader.sections` is the typed
view.  (`LasioProofs/Props/C08File.lean`: `readObjLines_raw`, `C08_file`, `C08_file_kind`.)

`headerObj` is the header half of the in-memory `LASFile` as `Lasio.Wo` (the model of `write`) takes it: `Wo.OItem`s with `Wo.PVal`
values.  An int is carried exactly (`PVal.num (.finite (i<0) |i| 0) (decimal text)`, the convention of harness/props/c16.py `pval`);
for a float the binary64 and its `str()` are the PARAMETER `PyFloat` (keyed by the literal text handed to `np.float64`), exactly as
`float()` is a parameter (`Dt.FloatTable`, `val`) of the data reader.
-/
namespace Lasio.Ro
open Lasio

/-! ## typing one item -/

/-- `SectionParser.curves / params / metadata` on the field text `v` that `Rd.mkItem'` selected, `name` = `keys["name"]`
(after `mnemonic_case`) -/
def typeValue : Rd.PKind → Str → Str → NumVal
  | .curves, _, v => curvesValue v
  | .params, _, v => paramsValue v
  | .metadata, name, v => metadataValue name v

structure TItem where
  orig : Str
  unit : Str
  value : NumVal
  descr : Str
deriving DecidableEq, Repr

/-- the `HeaderItem` / `CurveItem` the parser of kind `k` returns for the fields `Rd.mkItem'` stored -/
def typeItem (k : Rd.PKind) (r : Rd.RItem) : TItem := ⟨r.orig, r.unit, typeValue k r.orig r.value, r.descr⟩

/-- back to the raw record (for a value that stayed a `str`) -/
def TItem.erase (t : TItem) (raw : Str) : Rd.RItem := ⟨t.orig, t.unit, raw, t.descr⟩

inductive TSecVal where
  | items (kind : Rd.PKind) (l : List TItem)
  | text (s : Str)
deriving DecidableEq, Repr

def typeSec (k : Rd.PKind) : Rd.SecVal → TSecVal
  | .items l => .items k (l.map (typeItem k))
  | .text s => .text s

/-! ## which parser read which stored section -/

/-- closed form of `(Rd.mkParser title (.known v)).kind` : `self.func` of `SectionParser(title, version)` -/
def parserKind (title : Str) (v : Str) : Rd.PKind :=
  if v == "3.0".toList && Rd.isLas3Like title then .metadata
  else if startsWith "~C".toList (upper title) then .curves
  else if startsWith "~P".toList (upper title) then .params
  else .metadata

/-- key ↦ kind of the parser of the last header-items section stored under the key (most recent first) -/
abbrev Kinds := List (Rd.RKey × Rd.PKind)

/-- the parser kind recorded for a key (`metadata` for a key that never held items: irrelevant, there is nothing to type) -/
def kindAt (km : Kinds) (k : Rd.RKey) : Rd.PKind := (km.lookup k).getD .metadata

/-- one iteration of the section loop, seen from the key/kind side: for a "Header items" window that `Rd.processSection` parses and
stores, the key it is stored under and the kind of the `SectionParser` that `parse_header_items_section` built for it -/
def stepKind (o : Rd.ReadOpts) (lines : List Str) (w : Nat × Nat × Str) (st : Rd.RState) : Option (Rd.RKey × Rd.PKind) :=
  match Rd.sectionType w.2.2 with
  | .items =>
    match lines.drop w.1 with
    | [] => none
    | titleLine :: rest =>
      match Rd.mkParser (Rd.lineStrip titleLine) (Rd.classifyVer st.steer.vers) with
      | .error _ => none
      | .ok p =>
        match Rd.itemsLoop o p w.2.1 rest w.1 with
        | .error _ => none
        | .ok items =>
          match Rd.routeKey w.2.2 (Rd.classifyVer (Rd.steer o w.2.2 items st.steer).vers) with
          | .ok k => some (k, p.kind)
          | .error _ => none
  | _ => none

def updKinds (o : Rd.ReadOpts) (lines : List Str) (w : Nat × Nat × Str) (st : Rd.RState) (km : Kinds) : Kinds :=
  match stepKind o lines w st with
  | some kk => kk :: km
  | none => km

/-- `Rd.processSections` with the key ↦ kind accumulator -/
def processKinds (o : Rd.ReadOpts) (lines : List Str) :
    List (Nat × Nat × Str) → Rd.RState → Kinds → Except Rd.RErr (Rd.RState × Kinds)
  | [], st, km => .ok (st, km)
  | w :: ws, st, km =>
    match Rd.processSection o lines w st with
    | .error e => .error e
    | .ok st' => processKinds o lines ws st' (updKinds o lines w st km)

/-! ## the typed header -/

structure THeader where
  raw : Rd.RHeader          -- what `Rd.readLines` returns
  kinds : Kinds
deriving Repr

/-- the stored sections with typed values, in the order of `las.sections` -/
def THeader.sections (th : THeader) : List (Rd.RKey × TSecVal) :=
  th.raw.sections.map fun kv => (kv.1, typeSec (kindAt th.kinds kv.1) kv.2)

/-- the typing of every stored section of an `Rd` header by the recorded parser kinds -/
def typedHeader (km : Kinds) (h : Rd.RHeader) : THeader := ⟨h, km⟩

/-- `LASFile.read` at header level, with typed values -/
def readObjLines (o : Rd.ReadOpts) (lines : List Str) : Except Rd.RErr THeader :=
  match Rd.findSections lines with
  | [] => .error .noSections
  | secs =>
    match processKinds o lines secs Rd.RState.init [] with
    | .error e => .error e
    | .ok (st, km) =>
      match Rd.finishRead st with
      | .error e => .error e
      | .ok h => .ok (typedHeader km h)

/-- `lasio.read(text, ignore_data=True, …)` with typed values -/
def readObjHeader (o : Rd.ReadOpts) (text : Str) : Except Rd.RErr THeader :=
  if text.take 4 == "LASF".toList then .error .lasf
  else readObjLines o (Rd.splitLines text)

/-! ## the object `write` starts from -/

/-- `np.float64(lit)` as the binary64 the writer model compares, and `str(np.float64(lit))`, for a numeric literal text -/
structure PyFloat where
  f64 : Str → Wo.F64
  str : Str → Str

/-- the text handed to `np.int64` / `np.float64` by `num()` (comma substitution done; `int()`/`float()` strip it) -/
def literalOf (raw : Str) : Str := strip (commaSub raw)

/-- `str(np.int64(i))` -/
def intToStr (i : Int) : Str := if i < 0 then '-' :: natToStr i.natAbs else natToStr i.natAbs

/-- an int64 as the (unnormalised) `(-1)^neg · m · 2^0` -/
def intF64 (i : Int) : Wo.F64 := .finite (decide (i < 0)) i.natAbs 0

/-- the Python value as `Lasio.Wo` sees it; `raw` is the field text the value was made from -/
def toPVal (py : PyFloat) (raw : Str) : NumVal → Wo.PVal
  | .str s => .str s
  | .int i => .num (intF64 i) (intToStr i)
  | .flt _ _ _ => .num (py.f64 (literalOf raw)) (py.str (literalOf raw))

/-- the typed value of a stored field, as a `PVal` -/
def typeP (py : PyFloat) (k : Rd.PKind) (name raw : Str) : Wo.PVal := toPVal py raw (typeValue k name raw)

/-- the item with the session mnemonic `s` that `SectionItems.append` gave it -/
def mkO (py : PyFloat) (k : Rd.PKind) (s : Str) (r : Rd.RItem) : Wo.OItem :=
  ⟨r.orig, s, r.unit, typeP py k r.orig r.value, r.descr⟩

/-- the items of a stored section as `OItem`s (session mnemonics: `Rd.sessionNames`) -/
def oItems (py : PyFloat) (tr : Bool) (k : Rd.PKind) (l : List Rd.RItem) : List Wo.OItem :=
  List.zipWith (mkO py k) (Rd.sessionNames tr l) l

/-- the items stored under key `k` of `las.sections` (nothing for a key `read` did not assign) -/
def secItems (k : Rd.RKey) (secs : List (Rd.RKey × Rd.SecVal)) : List Rd.RItem :=
  match secs.lookup k with
  | some (.items l) => l
  | _ => []

/-- the text stored under key `k` -/
def secText (k : Rd.RKey) (secs : List (Rd.RKey × Rd.SecVal)) : Str :=
  match secs.lookup k with
  | some (.text t) => t
  | _ => []

/-- the typed items stored under key `k`, as `OItem`s -/
def objItems (py : PyFloat) (o : Rd.ReadOpts) (th : THeader) (k : Rd.RKey) : List Wo.OItem :=
  oItems py (o.mnemonicCase != .preserve) (kindAt th.kinds k) (secItems k th.raw.sections)

/-- **the header half of the `LASFile` that `read` builds** (for a file in which ~Version, ~Well, ~Curves, ~Parameter were read;
a section `read` did not assign is empty here, as in `Cy.lasOfRead`); no data -/
def headerObj (py : PyFloat) (o : Rd.ReadOpts) (th : THeader) : Wo.WObj :=
  { version := objItems py o th Rd.kVersion
    versionTr := o.mnemonicCase != .preserve
    well := objItems py o th Rd.kWell
    wellTr := o.mnemonicCase != .preserve
    curves := objItems py o th Rd.kCurves
    params := objItems py o th Rd.kParameter
    other := secText Rd.kOther th.raw.sections
    data := []
    indexInitial := none }

/-- the same header with a data matrix and `index_initial` -/
def withData (h : Wo.WObj) (data : List (List Wo.F64)) (ii : Option (List Wo.F64)) : Wo.WObj :=
  { h with data := data, indexInitial := ii }

end Lasio.Ro
