import LasioModel.Section
/-
Model of pickling / deep-copying lasio objects (las_items.py: `HeaderItem.__reduce__`, `HeaderItem.__init__`,
`CurveItem.__init__`, `SectionItems.__deepcopy__`; the list-rebuild paths of the CPython 3.12 runtime).

Determined experimentally on this interpreter (CPython 3.12.1; harness/props/c17.py re-checks the call pattern on
every run by instrumenting `SectionItems.append/insert/extend/__setattr__`/`assign_duplicate_suffixes`):

ITEMS. `HeaderItem.__reduce__` returns `(cls, (original_mnemonic, unit, value, descr, data), {"mnemonic": session})`.
  Both `pickle` (BUILD opcode) and `copy._reconstruct` call `cls(*args)` and then, because the class has no
  `__setstate__`, apply the state with `obj.__dict__.update(state)` — this BYPASSES `HeaderItem.__setattr__`, so
  the session mnemonic is restored verbatim and the original mnemonic is not touched.  `HeaderItem.__init__` stores
  `data` as given; `CurveItem.__init__` replaces `data=None` by `[]` and stores `np.asarray(data)` (the identity on an
  ndarray, so content and dtype are kept; a curve whose `data` attribute was set to `None` comes back with an
  empty float array: `C17_counterexample_curve_data_none`).

SECTIONS (`SectionItems`, a `list` subclass whose `__dict__` holds `mnemonic_transforms`; default `__reduce_ex__`):
  * pickle protocol 0/1: `copyreg._reconstructor(cls, list, [items…])` = `list.__new__` + `list.__init__(obj, items)`
    (`SectionItems.__init__` is NOT run), then BUILD → `__dict__.update({"mnemonic_transforms": tr})`.
    No lasio code runs.
  * pickle protocol 2..5: `copyreg.__newobj__(cls)` (no `__init__`), then APPENDS → for a list subclass the
    unpickler calls the object's `extend` attribute = the inherited `list.extend` (lasio does not override
    `extend`), THEN BUILD restores the state.  Items first, state second; no lasio code runs.
  * `copy.deepcopy`: `SectionItems.__deepcopy__` (added by the repair of the finding below): `cls()` (runs
    `__init__`: empty list, `mnemonic_transforms = False`), `list.extend` with the deep-copied items, then
    `__dict__.update(deepcopy(self.__dict__))`.  Items first, state second; `append` is not used.
  * BEFORE that repair `copy.deepcopy` went through `copy._reconstruct`: state first (`__dict__.update`), then
    `y.append(item)` for every item = lasio's overridden `append` → `assign_duplicate_suffixes(item.useful_mnemonic)`,
    which renumbered stale suffixes in the copy (`['A:2','A:3']` → `['A:1','A:2']`): `rebuildSectionOld`,
    `C17_counterexample_deepcopy_old`.
In every path each item is itself pickled / deep-copied (`rebuildItem ∘ reduceItem`).

LASFile: a plain object; its `__dict__` (the `sections` dict name → SectionItems | str, `index_unit`, …) is
pickled / deep-copied attribute by attribute.
-/
namespace Lasio

/-- a Python item object: the header fields, the `data` attribute as an opaque tag (array content + dtype;
`none` = Python `None`) and whether it is a `CurveItem` -/
structure PyItem where
  it : Item
  data : Option Str
  isCurve : Bool
deriving DecidableEq, Repr

/-- what `__reduce__` returns: constructor arguments and the state dict -/
structure Reduced where
  isCurve : Bool                -- the class
  mnemonic : Str                -- args
  unit : Str
  value : Str
  descr : Str
  data : Option Str
  state : Option Str            -- `{"mnemonic": …}` (none: no state)
deriving DecidableEq, Repr

/-- tag of `np.asarray([])` -/
def emptyArrayTag : Str := "<f8[0]:[]".toList

/-- `HeaderItem.__reduce__` -/
def reduceItem (o : PyItem) : Reduced :=
  ⟨o.isCurve, o.it.orig, o.it.unit, o.it.value, o.it.descr, o.data, some o.it.session⟩

/-- `cls(*args)` followed by `obj.__dict__.update(state)` -/
def rebuildItem (r : Reduced) : PyItem :=
  let it := mkItem r.mnemonic r.unit r.value r.descr
  let it' := match r.state with
    | some m => { it with session := m }
    | none => it
  ⟨it', if r.isCurve then some (r.data.getD emptyArrayTag) else r.data, r.isCurve⟩

/-- the ORIGINAL `__reduce__` (before the repair of R12): the session mnemonic is passed as the constructor's
`mnemonic` argument and there is no state -/
def reduceItemOld (o : PyItem) : Reduced :=
  ⟨o.isCurve, o.it.session, o.it.unit, o.it.value, o.it.descr, o.data, none⟩

/-- a list of item objects copied one by one (the items of a section, with their `data`) -/
def rebuildObjs (l : List PyItem) : List PyItem := l.map fun o => rebuildItem (reduceItem o)

/-- header fields only -/
def copyItem (it : Item) : Item := (rebuildItem (reduceItem ⟨it, none, false⟩)).it

inductive RebuildPath where
  | pickle01      -- protocols 0, 1
  | pickle2plus   -- protocols 2 … 5
  | deepcopy      -- copy.deepcopy (SectionItems.__deepcopy__)
deriving DecidableEq, Repr

/-- `list.__init__(obj, items)` / `list.extend(obj, items)` : plain list code, no re-suffixing -/
def cpListExtend (s : Section) (l : List Item) : Section := { s with items := s.items ++ l }
/-- `obj.__dict__.update({"mnemonic_transforms": tr})` -/
def cpSetState (s : Section) (tr : Bool) : Section := { s with tr := tr }
/-- an object created without `__init__` (`list.__new__`): empty; `mnemonic_transforms` is missing, which no code
observes before the state is restored (the placeholder `false` is never read) -/
def cpNewObj : Section := ⟨[], false⟩
/-- `SectionItems()` -/
def cpClassCall : Section := ⟨[], false⟩

def rebuildSection (p : RebuildPath) (s : Section) : Section :=
  match p with
  | .pickle01 => cpSetState (cpListExtend cpNewObj (s.items.map copyItem)) s.tr
  | .pickle2plus => cpSetState (cpListExtend cpNewObj (s.items.map copyItem)) s.tr
  | .deepcopy => cpSetState (cpListExtend cpClassCall (s.items.map copyItem)) s.tr

/-- `copy.deepcopy` of a section BEFORE the repair: `copy._reconstruct` restores the state and then appends the
copied items one by one with lasio's `append` -/
def rebuildSectionOld (s : Section) : Section :=
  (s.items.map copyItem).foldl Section.append (cpSetState cpNewObj s.tr)

/-- the session names are those `assign_duplicate_suffixes` would produce: re-running it for any test mnemonic
changes nothing -/
def Canonical (s : Section) : Prop := ∀ t, s.assignSuffixes t = s

/-- a LASFile as far as copying is concerned: its sections in order (name, SectionItems), the `Other` text and
the remaining plain attributes (`index_unit`, …) as opaque tags -/
structure CopyLas where
  sections : List (Str × Section)
  other : Str
  attrs : List (Str × Str)
deriving DecidableEq, Repr

def rebuildLas (p : RebuildPath) (l : CopyLas) : CopyLas :=
  { l with sections := l.sections.map fun ns => (ns.1, rebuildSection p ns.2) }

end Lasio
