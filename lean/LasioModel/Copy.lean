import LasioModel.Basic
/- Copy model (to be filled in) -/
namespace Lasio
end Lasio
