import LasioModel.Basic
/-
Model of the DATA-SECTION part of `LASFile.read` (las.py, from `line_splitter = reader.define_line_splitter(...)`
to the end of the `try`) and of the functions of reader.py it calls:
`define_line_splitter`, `inspect_data_section`, `read_data_section_iterative_normal_engine`,
`read_data_section_iterative_numpy_engine` (through a specification of `numpy.genfromtxt` as lasio calls it),
`get_substitutions` for the modelled policies.

Binary64 conversion is NOT modelled: the model is parametric in a table `token text ↦ canonical float text`.
-/
namespace Lasio.Dt

/-! ## floats as a trusted service -/

/-- token text ↦ canonical float text (`float.hex()` for finite values, `"nan"`, `"inf"`, `"-inf"`);
tokens rejected by Python's `float()` are absent -/
abbrev FloatTable := List (Str × Str)

def toFloat (ft : FloatTable) (tok : Str) : Option Str := ft.lookup tok

def nanTxt : Str := "nan".toList
def zeroPos : Str := "0x0.0p+0".toList
def zeroNeg : Str := "-0x0.0p+0".toList
def isZeroTxt (a : Str) : Bool := a == zeroPos || a == zeroNeg

/-- IEEE `==` on canonical float texts -/
def feq (a b : Str) : Bool := a != nanTxt && (a == b || (isZeroTxt a && isZeroTxt b))

/-! ## `re.sub` with leftmost, non-overlapping matches -/

/-- `\d` of a `str` pattern on the modelled alphabet: ASCII, Arabic-Indic and full-width digits -/
def isUDigit (c : Char) : Bool :=
  let n := c.toNat
  (48 ≤ n && n ≤ 57) || (0x660 ≤ n && n ≤ 0x669) || (0xFF10 ≤ n && n ≤ 0xFF19)

/-- Generic scanner.  `m s` tells whether the pattern matches at the head of `s`: `some (replacement, k)` means a match of
length `k + 1`.  The first argument counts the characters of the current match still to be skipped. -/
def reSub (m : Str → Option (Str × Nat)) : Nat → Str → Str
  | _, [] => []
  | skip + 1, _ :: cs => reSub m skip cs
  | 0, c :: cs =>
    match m (c :: cs) with
    | some (rep, k) => rep ++ reSub m k cs
    | none => c :: reSub m 0 cs

/-- `(\d),(\d)` → `\1.\2` -/
def mComma : Str → Option (Str × Nat)
  | a :: p :: b :: _ => if p == ',' && isUDigit a && isUDigit b then some ([a, '.', b], 2) else none
  | _ => none

/-- `(\d)-(\d)` → `\1 -\2` -/
def mHyphen : Str → Option (Str × Nat)
  | a :: p :: b :: _ => if p == '-' && isUDigit a && isUDigit b then some ([a, ' ', '-', b], 2) else none
  | _ => none

/-- `\d*\.` at the head: the number of digits and the text after the dot (the digit run must be taken whole because a
literal `.` follows, so the regex has no other way to match) -/
def digitsThenDot : Str → Option (Nat × Str)
  | [] => none
  | c :: cs =>
    if c == '.' then some (0, cs)
    else if isUDigit c then (digitsThenDot cs).map (fun nr => (nr.1 + 1, nr.2))
    else none

/-- `\d*\.\d*\.\d*` at the head, after `neg` characters of sign: the length of the whole match -/
def dotTail (neg : Nat) (s : Str) : Option Nat :=
  match digitsThenDot s with
  | some (d1, s3) =>
    match digitsThenDot s3 with
    | some (d2, s5) => some (neg + d1 + 1 + d2 + 1 + (s5.takeWhile isUDigit).length)
    | none => none
  | none => none

/-- length of a match of `-?\d*\.\d*\.\d*` at the head (a leading `-` must be consumed: without it the match would have to
start with a digit or a dot) -/
def mDotAlt1 : Str → Option Nat
  | [] => none
  | c :: cs => if c == '-' then dotTail 1 cs else dotTail 0 (c :: cs)

/-- length of a match of `NaN[\.-]\d+` at the head -/
def mDotAlt2 : Str → Option Nat
  | c1 :: c2 :: c3 :: p :: d :: rest =>
    if c1 == 'N' && c2 == 'a' && c3 == 'N' && (p == '.' || p == '-') && isUDigit d then
      some (5 + (rest.takeWhile isUDigit).length)
    else none
  | _ => none

def nanNan : Str := " NaN NaN ".toList

/-- `-?\d*\.\d*\.\d*|NaN[\.-]\d+` → `" NaN NaN "` -/
def mDot (s : Str) : Option (Str × Nat) :=
  match mDotAlt1 s with
  | some n => some (nanNan, n - 1)
  | none =>
    match mDotAlt2 s with
    | some n => some (nanNan, n - 1)
    | none => none

def subCommaDecimal (s : Str) : Str := reSub mComma 0 s
def subRunOnHyphen (s : Str) : Str := reSub mHyphen 0 s
def subRunOnDot (s : Str) : Str := reSub mDot 0 s

/-- which of the three READ_SUBS are active (always applied in the order comma, hyphen, dot) -/
structure Subs where
  comma : Bool
  hyphen : Bool
  dot : Bool
deriving DecidableEq, Repr

/-- READ_POLICIES["default"] -/
def Subs.default : Subs := ⟨true, true, true⟩
/-- READ_POLICIES["comma-delimiter"] (its third key has no entry in READ_SUBS) -/
def Subs.commaDelimiter : Subs := ⟨false, true, true⟩
/-- removal of HYPHEN_SUBS -/
def Subs.dropHyphen (s : Subs) : Subs := { s with hyphen := false }

def applySubs (sb : Subs) (s : Str) : Str :=
  let s := if sb.comma then subCommaDecimal s else s
  let s := if sb.hyphen then subRunOnHyphen s else s
  if sb.dot then subRunOnDot s else s

/-! ## the three line splitters -/

inductive Dlm | space | tab | comma
deriving DecidableEq, Repr

/-- Generic `findall` scanner: `m s = some (tok, k)` is a match of length `k + 1` at the head giving token `tok`. -/
def scanTok (m : Str → Option (Str × Nat)) : Nat → Str → List Str
  | _, [] => []
  | skip + 1, _ :: cs => scanTok m skip cs
  | 0, c :: cs =>
    match m (c :: cs) with
    | some (tok, k) => tok :: scanTok m k cs
    | none => scanTok m 0 cs

/-- the text up to the next `q`, when there is one -/
def findClose (q : Char) : Str → Option Str
  | [] => none
  | c :: cs => if c == q then some [] else (findClose q cs).map (c :: ·)

/-- one match of `([^S"']+)|"([^"]*)"|'([^']*)'` at the head (`S` = the separator class); `"".join(groups)` is the token -/
def mSplit (isSep : Char → Bool) : Str → Option (Str × Nat)
  | [] => none
  | c :: cs =>
    if c == '"' || c == '\'' then
      match findClose c cs with
      | some t => some (t, t.length + 1)
      | none => none
    else if isSep c then none
    else
      let t := cs.takeWhile (fun x => !(isSep x || x == '"' || x == '\''))
      some (c :: t, t.length)

/-- `sow_regex.findall` -/
def splitWs (s : Str) : List Str := scanTok (mSplit isPySpace) 0 s
/-- `sot_regex.findall` -/
def splitTab (s : Str) : List Str := scanTok (mSplit (· == '\t')) 0 s

/-- `str.split(",")` -/
def splitOnChar (ch : Char) : Str → List Str
  | [] => [[]]
  | c :: cs =>
    if c == ch then [] :: splitOnChar ch cs
    else
      match splitOnChar ch cs with
      | t :: ts => (c :: t) :: ts
      | [] => [[c]]

def splitComma (s : Str) : List Str := splitOnChar ',' s

def splitLine : Dlm → Str → List Str
  | .space => splitWs
  | .tab => splitTab
  | .comma => splitComma

/-- `str.split()` (used by `genfromtxt`) -/
def mWord : Str → Option (Str × Nat)
  | [] => none
  | c :: cs =>
    if isPySpace c then none
    else
      let t := cs.takeWhile (fun x => !isPySpace x)
      some (c :: t, t.length)

def pySplit (s : Str) : List Str := scanTok mWord 0 s

/-! ## windows -/

/-- `line.strip("\n").strip()` -/
def cleanLine (ln : Str) : Str := strip (stripChar '\n' ln)

def isComment (l : Str) : Bool := startsWith ['#'] l

/-- The lines visited by the loops of `inspect_data_section` and of the normal engine's `items()`, started after the title
line `first`: `if line_no > last: break` at the top and `if line_no == last: break` at the bottom leave exactly the
`last - first` lines after the title (none for an empty section, `last ≤ first`). -/
def bodyLines (lines : List Str) (first last : Nat) : List Str :=
  (lines.drop (first + 1)).take (last - first)

/-! ## `inspect_data_section` -/

/-- the sampled form of a line: only non-blank non-comment lines are sampled -/
def sampleLine (ln : Str) : Option Str :=
  let l := cleanLine ln
  if l.isEmpty || isComment l then none else some l

/-- `len(set(item_counts)) == 1` -/
def consistent : List Nat → Option Nat
  | [] => none
  | n :: rest => if rest.all (· == n) then some n else none

structure SniffResult where
  /-- `some n`: n columns everywhere in the sample; `none`: the `-1` answer -/
  count : Option Nat
  /-- `len(hyphen_exists) == len(item_counts)`: every sampled line has a hyphen (true for an empty sample) -/
  hyphenFired : Bool
deriving DecidableEq, Repr

/-- `inspect_data_section` called with the cursor on the title line `first`: up to 21 data lines of the window are sampled -/
def sniffColumns (sb : Subs) (dlm : Dlm) (lines : List Str) (first last : Nat) : SniffResult :=
  let sampled := ((bodyLines lines first last).filterMap sampleLine).take 21
  { count := consistent (sampled.map fun l => (splitLine dlm (applySubs sb l)).length),
    hyphenFired := sampled.all (fun l => l.contains '-') }

/-! ## the normal engine -/

inductive DErr | reshapeError | indexError | other
deriving DecidableEq, Repr

inductive Column
  | floats (cells : List Str)
  | text (cells : List Str)
deriving DecidableEq, Repr

def Column.length : Column → Nat
  | .floats c => c.length
  | .text c => c.length

def ctrlZ : Char := Char.ofNat 26

/-- the items one physical line contributes to the flat array -/
def lineTokens (sb : Subs) (dlm : Dlm) (ln : Str) : List Str :=
  let l := cleanLine ln
  if isComment l then []
  else
    let l2 := (applySubs sb l).filter (· != ctrlZ)
    if l2.isEmpty then [] else splitLine dlm l2

def normalTokens (sb : Subs) (dlm : Dlm) (body : List Str) : List Str :=
  body.flatMap (lineTokens sb dlm)

/-- rows of `c` cells (`np.reshape(array, (-1, c))` for a length divisible by `c > 0`); the first argument is fuel -/
def chunk {α} (c : Nat) : Nat → List α → List (List α)
  | 0, _ => []
  | fuel + 1, l => if l.isEmpty then [] else l.take c :: chunk c fuel (l.drop c)

def reshape {α} (c : Nat) (l : List α) : List (List α) := chunk c l.length l

/-- column `j` of a list of rows -/
def columnOf (rows : List (List Str)) (j : Nat) : List Str := rows.map (fun r => r.getD j [])

def columnsOf (c : Nat) (rows : List (List Str)) : List (List Str) := (List.range c).map (columnOf rows)

/-- all cells as floats, when every token converts -/
def floatCells (ft : FloatTable) : List Str → Option (List Str)
  | [] => some []
  | t :: ts =>
    match toFloat ft t, floatCells ft ts with
    | some v, some vs => some (v :: vs)
    | _, _ => none

/-- dtype from the first row and `astype`, which keeps the column as it is when it fails: the column is a float column
exactly when every token of it converts -/
def typedColumn (ft : FloatTable) (toks : List Str) : Column :=
  match floatCells ft toks with
  | some vs => .floats vs
  | none => .text toks

/-- `read_data_section_iterative_normal_engine` on the visited lines, with `dtypes="auto"` and no value substitutions -/
def normalEngineLines (ft : FloatTable) (sb : Subs) (dlm : Dlm) (nColumns : Nat) (body : List Str) :
    Except DErr (List Column) :=
  let toks := normalTokens sb dlm body
  let n := if toks.isEmpty then 0 else nColumns
  if n > 0 then
    if toks.length % n != 0 then .error .reshapeError
    else .ok ((columnsOf n (reshape n toks)).map (typedColumn ft))
  else if toks.isEmpty then .ok []
  else .error .indexError

def normalEngine (ft : FloatTable) (sb : Subs) (dlm : Dlm) (nColumns : Nat) (lines : List Str) (first last : Nat) :
    Except DErr (List Column) :=
  normalEngineLines ft sb dlm nColumns (bodyLines lines first last)

/-! ## the numpy engine: specification of `np.genfromtxt(f, skip_header, max_rows, unpack=True, loose=False, ndmin=2)` -/

/-- cut at `#`, split on whitespace -/
def npTokens (ln : Str) : List Str := pySplit (ln.takeWhile (· != '#'))

/-- Collect rows of `c` tokens until `budget` rows are stored; lines without tokens are skipped and not counted;
a line with another number of tokens is an error (`none`). -/
def npCollect (c : Nat) : Nat → List Str → Option (List (List Str))
  | 0, _ => some []
  | _, [] => some []
  | b + 1, ln :: rest =>
    let t := npTokens ln
    if t.isEmpty then npCollect c (b + 1) rest
    else if t.length != c then none
    else (npCollect c b rest).map (t :: ·)

/-- the number of tokens of the first line that has tokens -/
def npFirstCount : List Str → Option Nat
  | [] => none
  | ln :: rest => let t := npTokens ln; if t.isEmpty then npFirstCount rest else some t.length

def allFloatCols (ft : FloatTable) : List (List Str) → Option (List Column)
  | [] => some []
  | col :: cols =>
    match floatCells ft col, allFloatCols ft cols with
    | some vs, some r => some (.floats vs :: r)
    | _, _ => none

/-- `genfromtxt` on the lines after the title with `max_rows`; `none` = an exception (caught by lasio) -/
def numpyEngineLines (ft : FloatTable) (maxRows : Nat) (rest : List Str) : Option (List Column) :=
  if maxRows < 1 then none
  else
    match npFirstCount rest with
    | none => some []                      -- no data row at all: `array.reshape(0, 0)`, no columns
    | some c =>
      match npCollect c maxRows rest with
      | none => none
      | some rows => allFloatCols ft (columnsOf c rows)

/-- `read_data_section_iterative_numpy_engine`: `skip_header = first + 1`, `max_rows = last - first` -/
def numpyEngine (ft : FloatTable) (lines : List Str) (first last : Nat) : Option (List Column) :=
  numpyEngineLines ft (last - first) (lines.drop (first + 1))

/-! ## NULL and the assignment to curves -/

/-- `curve_arr[curve_arr == null] = nan` -/
def nullCells (null : Str) (cells : List Str) : List Str :=
  cells.map fun v => if feq v null then nanTxt else v

/-- one column at curve index `idx` -/
def applyNullCol (useNull : Bool) (null : Option Str) (idx : Nat) (col : Column) : Column :=
  match col, null with
  | .floats cells, some nv => if useNull && idx != 0 then .floats (nullCells nv cells) else col
  | _, _ => col

def applyNullFrom (useNull : Bool) (null : Option Str) : Nat → List Column → List Column
  | _, [] => []
  | idx, c :: cs => applyNullCol useNull null idx c :: applyNullFrom useNull null (idx + 1) cs

/-- header NULL → NaN in every float column except column 0, when the null policy contains "NULL" -/
def applyNull (useNull : Bool) (null : Option Str) (cols : List Column) : List Column :=
  applyNullFrom useNull null 0 cols

/-- which curve a column lands in -/
inductive Slot
  | declared (j : Nat)   -- the j-th curve of ~Curves (metadata untouched)
  | extra                -- a new `CurveItem(mnemonic="")` appended after the existing ones
deriving DecidableEq, Repr

def assignFrom (d : Nat) : Nat → List Column → List (Slot × Column)
  | _, [] => []
  | idx, c :: cs => ((if idx < d then .declared idx else .extra), c) :: assignFrom d (idx + 1) cs

def nanColumn (len : Nat) : Column := .floats (List.replicate len nanTxt)

/-- `curve_length`: the length of the first column (0 when there is none) -/
def curveLength : List Column → Nat
  | [] => 0
  | c :: _ => c.length

/-- columns in order to curves 0, 1, …; surplus columns become extra curves; declared curves without a column are NaN -/
def assignCurves (d : Nat) (cols : List Column) : List (Slot × Column) :=
  assignFrom d 0 cols ++
    (List.range' cols.length (d - cols.length)).map fun j => (.declared j, nanColumn (curveLength cols))

/-! ## top level -/

inductive Engine | numpy | normal
deriving DecidableEq, Repr

inductive NullPolicy | strict | none
deriving DecidableEq, Repr

structure DataOpts where
  engine : Engine
  nullPolicy : NullPolicy
deriving DecidableEq, Repr

/-- what the header says that steers the data reader -/
structure Steer where
  /-- a WRAP item was present in ~Version -/
  wrapDeclared : Bool
  /-- the provisional WRAP value (`"YES"` when not declared) -/
  wrapped : Str
  /-- the ~Well NULL value as a float text, when it is a number -/
  nullValue : Option Str
  delimiter : Dlm
deriving DecidableEq, Repr

def yesTxt : Str := "YES".toList

def readSubs : Dlm → Subs
  | .comma => Subs.commaDelimiter
  | _ => Subs.default

/-- the engine after the override for wrapped files / non-strict null policies -/
def effectiveEngine (o : DataOpts) (st : Steer) : Engine :=
  if st.wrapped == yesTxt || o.nullPolicy != .strict then .normal else o.engine

/-- the substitutions after the (at most one) accepted recommendation, and the sniffed column count -/
def sniffTwice (sb : Subs) (dlm : Dlm) (lines : List Str) (first last : Nat) : Subs × Option Nat :=
  let r1 := sniffColumns sb dlm lines first last
  if r1.hyphenFired && sb.dropHyphen != sb then
    (sb.dropHyphen, (sniffColumns sb.dropHyphen dlm lines first last).count)
  else (sb, r1.count)

/-- `reader_n_columns` -/
def readerColumns (st : Steer) (declared : Nat) (sniffed : Option Nat) : Nat :=
  let n := match sniffed with | some n => n | none => declared
  if st.wrapDeclared && st.wrapped == yesTxt && declared > 0 then declared else n

/-- the data-section part of `LASFile.read` for one data section with window `(first, last)` -/
def readData (o : DataOpts) (lines : List Str) (first last : Nat) (st : Steer) (declared : Nat) (ft : FloatTable) :
    Except DErr (Engine × List (Slot × Column)) :=
  let dlm := st.delimiter
  let (sb, sniffed) := sniffTwice (readSubs dlm) dlm lines first last
  let nCols := readerColumns st declared sniffed
  let useNull := o.nullPolicy == .strict
  let finish (e : Engine) (cols : List Column) : Engine × List (Slot × Column) :=
    (e, assignCurves declared (applyNull useNull st.nullValue cols))
  match effectiveEngine o st with
  | .numpy =>
    match numpyEngine ft lines first last with
    | some cols => .ok (finish .numpy cols)
    | none => (normalEngine ft sb dlm nCols lines first last).map (finish .normal)
  | .normal => (normalEngine ft sb dlm nCols lines first last).map (finish .normal)

/-! ### the plain decimal grammar `[+-]?(\d+\.?\d*|\.\d+)([eE][+-]?\d+)?` (ASCII digits) as an automaton -/

inductive PState
  | start | sign | int | dot0 | intDot | frac | exp | expSign | expDigits
deriving DecidableEq, Repr

inductive CharClass | digit | dot | e | sg | other
deriving DecidableEq, Repr

def charClass (c : Char) : CharClass :=
  if isDigit c then .digit else if c == '.' then .dot else if c == 'e' || c == 'E' then .e
  else if c == '+' || c == '-' then .sg else .other

def pStep : PState → CharClass → Option PState
  | .start, .sg => some .sign
  | .start, .digit => some .int
  | .start, .dot => some .dot0
  | .sign, .digit => some .int
  | .sign, .dot => some .dot0
  | .int, .digit => some .int
  | .int, .dot => some .intDot
  | .int, .e => some .exp
  | .dot0, .digit => some .frac
  | .intDot, .digit => some .frac
  | .intDot, .e => some .exp
  | .frac, .digit => some .frac
  | .frac, .e => some .exp
  | .exp, .sg => some .expSign
  | .exp, .digit => some .expDigits
  | .expSign, .digit => some .expDigits
  | .expDigits, .digit => some .expDigits
  | _, _ => none

def pAccept : PState → Bool
  | .int | .intDot | .frac | .expDigits => true
  | _ => false

def pRun : PState → Str → Bool
  | q, [] => pAccept q
  | q, c :: cs => match pStep q (charClass c) with
    | some q' => pRun q' cs
    | none => false

/-- `numeric_literal_regex.fullmatch(t)` -/
def isPlainDecimal (t : Str) : Bool := pRun .start t

end Lasio.Dt
