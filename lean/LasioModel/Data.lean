import LasioModel.Basic
/- Data model (to be filled in) -/
namespace Lasio
end Lasio
