import LasioModel.ReadObj
import LasioModel.Transform
/-
The WHOLE object `lasio.read(text)` builds: the typed header (`Ro.headerObj`, LasioModel/ReadObj.lean) PLUS the curve data as
`LASFile.read` assigns them (las.py:360-530) and `index_initial` (las.py:566-567: `if len(self.curves) > 0: self.index_initial =
self.index.copy()`).  `index_unit` is ignored (not part of `Wo.WObj`).

The data path is the existing one, composed exactly as `Tf.readFull` composes it: for every data window `w` that the header reader
reports, `Dt.readData opts.dat lines w.1 w.2.1 (Tf.dtSteer nullOf steer) (Tf.declaredCount sections) ft`.

Runtime services are PARAMETERS (`Env`), as everywhere in the model:
  `py`      `np.float64(lit)` / `str(np.float64(lit))` for header values (LasioModel/ReadObj.lean)
  `ft`      `float()` on data tokens: token ↦ canonical float text (`Dt.FloatTable`)
  `val`     the binary64 a canonical float text denotes (`Cd.reTok` convention of C11Data: a text without value reads as NaN)
  `nullOf`  the ~Well NULL value as a canonical float text when it is a number (`Tf.dtSteer`)

DOMAIN of `readObjFullLines` (everything else answers `.unmodelled`):
  * exactly ONE data window (no data section: lasio leaves the curves without data; several: the later ones overwrite the earlier);
  * every column is a float column (`Dt.Column.floats`) — a TEXT column (a token `float()` refuses) is out of domain: `Wo.WObj.data`
    holds binary64 values only;
  * no EXTRA curve (more columns than ~Curves items: lasio appends `CurveItem(mnemonic="")`s, which `headerObj` does not contain).
  Declared curves without a column are in the domain (`Dt.assignCurves` gives them a NaN column).
-/
namespace Lasio.Ro
open Lasio

structure Env where
  py : PyFloat
  ft : Dt.FloatTable
  val : Str → Option Wo.F64
  nullOf : Option Str → Option Str

inductive FErr where
  | header (e : Rd.RErr)
  | data (e : Dt.DErr)
  | unmodelled
deriving DecidableEq, Repr

/-- the binary64 of a canonical float text (NaN when the text denotes none) -/
def valD (val : Str → Option Wo.F64) (v : Str) : Wo.F64 := (val v).getD .nan

/-- a curve's column as float texts; `none` for a text column or an extra curve -/
def floatColumn : Dt.Slot × Dt.Column → Option (List Str)
  | (.declared _, .floats cells) => some cells
  | _ => none

/-- all curves are declared curves holding float columns -/
def numericCurves (cols : List (Dt.Slot × Dt.Column)) : Bool := cols.all fun sc => (floatColumn sc).isSome

/-- the curve data as float texts, column-major -/
def textColumns (cols : List (Dt.Slot × Dt.Column)) : List (List Str) := cols.map fun sc => (floatColumn sc).getD []

/-- the curve data as binary64, column-major -/
def dataOf (val : Str → Option Wo.F64) (cols : List (Dt.Slot × Dt.Column)) : List (List Wo.F64) :=
  (textColumns cols).map fun cells => cells.map (valD val)

/-- what `readData` returns for every data window of the header (the `data` list of `Tf.readFull`) -/
def dataResults (env : Env) (opts : Tf.Opts) (lines : Tf.Doc) (h : Rd.RHeader) :
    List (Except Dt.DErr (Dt.Engine × List (Dt.Slot × Dt.Column))) :=
  h.data.map fun w =>
    Dt.readData opts.dat lines w.1 w.2.1 (Tf.dtSteer env.nullOf h.steer) (Tf.declaredCount h.sections) env.ft

/-- typed header + the curves of the single data window, as float texts -/
def readFullCols (env : Env) (opts : Tf.Opts) (lines : Tf.Doc) : Except FErr (THeader × List (Dt.Slot × Dt.Column)) :=
  match readObjLines opts.hdr lines with
  | .error e => .error (.header e)
  | .ok th =>
    match dataResults env opts lines th.raw with
    | [.ok (_, cols)] => if numericCurves cols then .ok (th, cols) else .error .unmodelled
    | [.error e] => .error (.data e)
    | _ => .error .unmodelled

/-- **`LASFile.read` on the lines of a file, as the object `write` starts from** -/
def readObjFullLines (env : Env) (opts : Tf.Opts) (lines : Tf.Doc) : Except FErr Wo.WObj :=
  match readFullCols env opts lines with
  | .error e => .error e
  | .ok (th, cols) =>
    .ok (withData (headerObj env.py opts.hdr th) (dataOf env.val cols) (dataOf env.val cols).head?)

/-- `lasio.read(text, …)` -/
def readObjFull (env : Env) (opts : Tf.Opts) (text : Str) : Except FErr Wo.WObj :=
  if text.take 4 == "LASF".toList then .error (.header .lasf)
  else readObjFullLines env opts (Rd.splitLines text)

end Lasio.Ro
