/-
Basic string machinery shared by the whole model.  Strings are `List Char`.
No imports: the driver must link without Mathlib.
-/
namespace Lasio

abbrev Str := List Char

/-- Python's `str.isspace` / `str.strip()` / regex `\s` character class (checked against the
interpreter by the harness on every run). -/
def isPySpace (c : Char) : Bool :=
  let n := c.toNat
  (0x09 ≤ n && n ≤ 0x0D) || (0x1C ≤ n && n ≤ 0x20) || n == 0x85 || n == 0xA0 || n == 0x1680 ||
  (0x2000 ≤ n && n ≤ 0x200A) || n == 0x2028 || n == 0x2029 || n == 0x202F || n == 0x205F || n == 0x3000

def lstrip (s : Str) : Str := s.dropWhile isPySpace
def rstrip (s : Str) : Str := (s.reverse.dropWhile isPySpace).reverse
/-- `str.strip()` -/
def strip (s : Str) : Str := rstrip (lstrip s)

/-- `str.strip(ch)` for a single character -/
def stripChar (ch : Char) (s : Str) : Str :=
  ((s.dropWhile (· == ch)).reverse.dropWhile (· == ch)).reverse

/-- Python `str.upper()` on the modelled alphabet Σ (ASCII, Latin-1 letters except ß/µ/ÿ, basic Cyrillic,
basic Greek except final sigma).  Characters outside Σ are never sent to the model by the harness. -/
def upperC (c : Char) : Char :=
  let n := c.toNat
  if 0x61 ≤ n && n ≤ 0x7A then Char.ofNat (n - 0x20)
  else if 0xE0 ≤ n && n ≤ 0xFE && n != 0xF7 then Char.ofNat (n - 0x20)
  else if 0x430 ≤ n && n ≤ 0x44F then Char.ofNat (n - 0x20)
  else if 0x450 ≤ n && n ≤ 0x45F then Char.ofNat (n - 0x50)
  else if 0x3B1 ≤ n && n ≤ 0x3C9 && n != 0x3C2 then Char.ofNat (n - 0x20)
  else c

def lowerC (c : Char) : Char :=
  let n := c.toNat
  if 0x41 ≤ n && n ≤ 0x5A then Char.ofNat (n + 0x20)
  else if 0xC0 ≤ n && n ≤ 0xDE && n != 0xD7 then Char.ofNat (n + 0x20)
  else if 0x410 ≤ n && n ≤ 0x42F then Char.ofNat (n + 0x20)
  else if 0x400 ≤ n && n ≤ 0x40F then Char.ofNat (n + 0x50)
  else if 0x391 ≤ n && n ≤ 0x3A9 && n != 0x3A2 then Char.ofNat (n + 0x20)
  else c

def upper (s : Str) : Str := s.map upperC
def lower (s : Str) : Str := s.map lowerC

/-- does `p` occur as a prefix of `s` -/
def startsWith (p s : Str) : Bool := p.isPrefixOf s

/-- does `p` occur anywhere in `s` (Python `p in s`) -/
def contains (p : Str) : Str → Bool
  | [] => p.isEmpty
  | c :: cs => p.isPrefixOf (c :: cs) || contains p cs

def isDigit (c : Char) : Bool := '0' ≤ c && c ≤ '9'

/-- decimal rendering of a natural number (own definition so that injectivity is provable) -/
def digitChar (n : Nat) : Char := Char.ofNat (48 + n % 10)

def natToStrAux : Nat → Nat → Str → Str
  | 0, _, acc => acc
  | fuel + 1, n, acc =>
    if n < 10 then digitChar n :: acc else natToStrAux fuel (n / 10) (digitChar n :: acc)

def natToStr (n : Nat) : Str := natToStrAux (n + 1) n []

def ljust (w : Nat) (fill : Char) (s : Str) : Str := s ++ List.replicate (w - s.length) fill
def rjust (w : Nat) (s : Str) : Str := List.replicate (w - s.length) ' ' ++ s

def joinWith (sep : Str) : List Str → Str
  | [] => []
  | [x] => x
  | x :: xs => x ++ sep ++ joinWith sep xs

end Lasio
