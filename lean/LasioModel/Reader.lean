import LasioModel.Basic
import LasioModel.HeaderLine
import LasioModel.Generated
/-
Model of the HEADER-LEVEL part of `LASFile.read` (las.py:210-356), i.e. `lasio.read(text, ignore_data=True, …)`:
`reader.find_sections_in_file`, `reader.determine_section_type`, `reader.parse_header_items_section`,
`reader.SectionParser` (`__init__`, `metadata`, `params`, `curves`, `strip_brackets`), the `~Other` loop, the
routing of parsed sections into `las.sections` and the steering variables (`provisional_version`, `_wrapped`,
`_null`, `_delimiter`).

The file object is the list of its lines (`readline` semantics: split after every '\n', terminator kept) with a
cursor; `seek(k)` to a section is `lines.drop first`.  Item values are kept as the raw text BEFORE `num()`.
Line numbers in `RErr.headerError` are the 1-based numbers printed in the message ("Line N").
Everything lives in `namespace Lasio.Rd` (generic names such as `stripBrackets`, `RItem`, `MCase` also exist in other
model files).
-/
namespace Lasio.Rd

/-! ## lines -/

/-- `io.StringIO(text)` iteration / `readline`: lines end after each '\n' (terminator kept); a final
unterminated line is a line; the empty text has no line. `acc` is the current line, reversed. -/
def splitLinesAux : Str → Str → List Str
  | [], acc => if acc.isEmpty then [] else [acc.reverse]
  | c :: cs, acc => if c == '\n' then (c :: acc).reverse :: splitLinesAux cs [] else splitLinesAux cs (c :: acc)

def splitLines (text : Str) : List Str := splitLinesAux text []

/-- `line.strip().strip("\n")` (find_sections_in_file, determine_section_type) -/
def sline (line : Str) : Str := stripChar '\n' (strip line)

/-- `line.strip("\n").strip()` (parse_header_items_section, the ~Other loop) -/
def lineStrip (line : Str) : Str := strip (stripChar '\n' line)

/-- `s.startswith("~")` -/
def startsTilde (s : Str) : Bool := match s with | '~' :: _ => true | _ => false

/-- a line the title scan takes for a section title -/
def isTitle (line : Str) : Bool := startsTilde (sline line)

/-! ## find_sections_in_file -/

/-- the `starts` list: (zero-based line number, stripped title) of every title line, `no` = number of the head -/
def titleStarts : List Str → Nat → List (Nat × Str)
  | [], _ => []
  | l :: ls, no => if isTitle l then (no, sline l) :: titleStarts ls (no + 1) else titleStarts ls (no + 1)

/-- pair every start with its (inclusive) end: the line before the next start, `lastLine` for the last one -/
def windows : List (Nat × Str) → Nat → List (Nat × Nat × Str)
  | [], _ => []
  | [(n, t)], lastLine => [(n, lastLine, t)]
  | (n, t) :: (n2, t2) :: rest, lastLine => (n, n2 - 1, t) :: windows ((n2, t2) :: rest) lastLine

/-- `find_sections_in_file`: (first line, inclusive last line, stripped title); the file offset `k` is
represented by the first line number (`seek(k)` = `lines.drop first`) -/
def findSections (lines : List Str) : List (Nat × Nat × Str) :=
  windows (titleStarts lines 0) (lines.length - 1)

/-! ## determine_section_type -/

inductive SecKind where
  | items | other | data | las3data
deriving DecidableEq, Repr

def sectionType (title : Str) : SecKind :=
  let st := sline title
  if upper (st.take 2) == "~A".toList || contains "~Log_Data".toList st then .data
  else if upper (st.take 2) == "~O".toList then .other
  else if contains "_Data".toList st then .las3data
  else .items

/-! ## the provisional version -/

/-- what the model knows about `provisional_version` (a float, an int or a str in the code) as a key of
`defaults.ORDER_DEFINITIONS`: one of the table's versions, certainly not a key (`KeyError`), or undecided -/
inductive VerVal where
  | known (key : Str)
  | bad
  | undecided
deriving DecidableEq, Repr

def dropZeros : Str → Str
  | '0' :: t => dropZeros t
  | s => s

/-- unsigned / '+'-signed plain decimal `\d+\.?\d*|\.\d+` → (integer digits without leading zeros,
fraction digits without trailing zeros) -/
def normDec (s : Str) : Option (Str × Str) :=
  let s := match s with | '+' :: t => t | _ => s
  let ip := s.takeWhile isAsciiDigit
  match s.dropWhile isAsciiDigit with
  | [] => if ip.isEmpty then none else some (dropZeros ip, [])
  | '.' :: fr =>
    if fr.all isAsciiDigit && !(ip.isEmpty && fr.isEmpty) then some (dropZeros ip, (dropZeros fr.reverse).reverse)
    else none
  | _ => none

/-- does `s` have the shape mantissa `[eE]` `[+-]?` digits+ (a numeric literal with an exponent)? -/
def hasExpShape (s : Str) : Bool :=
  let s := match s with | '+' :: t => t | '-' :: t => t | _ => s
  let mant := s.takeWhile (fun c => c != 'e' && c != 'E')
  match s.dropWhile (fun c => c != 'e' && c != 'E') with
  | _ :: ex =>
    let ex := match ex with | '+' :: t => t | '-' :: t => t | _ => ex
    (normDec mant).isSome && !(mant.head? == some '+') && !ex.isEmpty && ex.all isAsciiDigit
  | [] => false

/-- the versions that are keys of `ORDER_DEFINITIONS` (normalised decimal, table spelling) -/
def versionKeys : List ((Str × Str) × Str) :=
  (Generated.orderDefinitions.map (fun r => r.1.toList)).eraseDups.filterMap fun k =>
    (normDec k).map fun n => (n, k)

/-- classify the raw text of the VERS value (`none` = still the default `2.0`).  `num()` turns the text into
`np.int64`/`np.float64` when it is a numeric literal and keeps the `str` otherwise; a `str` is never a key.
Decimals with at most 15 significant digits are decided exactly; a comma (decimal-mark substitution), an
exponent or more digits are left undecided. -/
def classifyVer : Option Str → VerVal
  | none => .known "2.0".toList
  | some raw =>
    if raw.contains ',' then .undecided
    else match normDec raw with
      | some (ip, fp) =>
        if ip.length + fp.length > 15 then .undecided
        else match versionKeys.lookup (ip, fp) with
          | some k => .known k
          | none => .bad
      | none => if hasExpShape raw then .undecided else .bad

/-! ## SectionParser -/

inductive MCase where
  | upper | lower | preserve
deriving DecidableEq, Repr

structure ReadOpts where
  ignoreHeaderErrors : Bool
  mnemonicCase : MCase
deriving DecidableEq, Repr

structure RItem where
  orig : Str
  unit : Str
  value : Str      -- raw text, before `num()`
  descr : Str
deriving DecidableEq, Repr

inductive RErr where
  | headerError (lineNo : Nat)   -- LASHeaderError, "Line {lineNo} (section …)"
  | noSections                   -- KeyError("No ~ sections found. Is this a LAS file?")
  | keyError                     -- ORDER_DEFINITIONS[version] / splitters[delimiter]
  | lasf                         -- IOError: LiDAR file
  | indexError                   -- section_title[1] of the title "~"
  | attributeError               -- self.index.copy() when ~Log_Definition items (no data attribute) became Curves
  | unmodelled
deriving DecidableEq, Repr

inductive PKind where
  | curves | params | metadata
deriving DecidableEq, Repr

structure Parser where
  kind : PKind
  sec : SecName                   -- `section_name2` as far as `read_header_line` looks at it
  defaultOrder : Str
  orders : List (Str × Str)       -- mnemonic ↦ order
deriving Repr

def las3Indicators : List Str := ["_DATA".toList, "_PARAMETER".toList, "_DEFINITION".toList]

/-- `any(ind in s.upper() for ind in las3_section_indicators)` -/
def isLas3Like (s : Str) : Bool := las3Indicators.any fun ind => contains ind (upper s)

def valueDescr : Str := "value:descr".toList
def descrValue : Str := "descr:value".toList

/-- rows of `ORDER_DEFINITIONS[version][name2]` → (default order, mnemonic ↦ order) -/
def orderTable (ver : Str) (name2 : String) : Option (Str × List (Str × Str)) :=
  match Generated.orderDefinitions.find? (fun r => r.1.toList == ver && r.2.1 == name2) with
  | some r => some (r.2.2.1.toList, r.2.2.2.flatMap fun om => om.2.map fun m => (m.toList, om.1.toList))
  | none => none

/-- `SectionParser.__init__(title, version)` -/
def mkParser (title : Str) (ver : VerVal) : Except RErr Parser :=
  match ver with
  | .undecided => .error .unmodelled
  | .bad =>
    -- `version == 3.0` is False for anything that is not a key; `defs[self.version]` raises KeyError
    .error .keyError
  | .known v =>
    let ut := upper title
    let (kind, sec, name2) : PKind × SecName × Option String :=
      if v == "3.0".toList && isLas3Like title then (.metadata, .other, none)
      else if startsWith "~C".toList ut then (.curves, .curves, some "Curves")
      else if startsWith "~P".toList ut then (.params, .parameter, some "Parameter")
      else if startsWith "~W".toList ut then (.metadata, .well, some "Well")
      else if startsWith "~V".toList ut then (.metadata, .version, some "Version")
      else (.metadata, .other, none)
    match name2.bind (orderTable v) with
    | some (d, os) => .ok ⟨kind, sec, d, os⟩
    | none => .ok ⟨kind, sec, valueDescr, []⟩

/-- does `SectionParser(title, version)` build `CurveItem`s (`self.func = self.curves`)? -/
def isCurvesParser (title : Str) (ver : VerVal) : Bool :=
  !(ver == .known "3.0".toList && isLas3Like title) && startsWith "~C".toList (upper title)

/-- `SectionParser.strip_brackets` -/
def stripBrackets (x : Str) : Str :=
  let x := strip x
  match x.head?, x.getLast? with
  | some a, some b =>
    if x.length ≥ 2 && ((a == '[' && b == ']') || (a == '(' && b == ')')) then (x.drop 1).dropLast else x
  | _, _ => x

/-- `mnemonic_case` applied to the parsed name -/
def applyCase : MCase → Str → Str
  | .upper, s => upper s
  | .lower, s => lower s
  | .preserve, s => s

/-- `parser(**values)` : `curves` / `params` / `metadata`; the value is the text handed to `num()` (or kept) -/
def mkItem' (p : Parser) (f : Fields) : RItem :=
  match p.kind with
  | .curves => ⟨f.name, stripBrackets f.unit, f.value, f.descr⟩
  | .params => ⟨f.name, stripBrackets f.unit, f.value, f.descr⟩
  | .metadata =>
    -- `self.orders.get(name, self.orders.get(name.upper(), self.default_order))`
    let order := (p.orders.lookup f.name).getD ((p.orders.lookup (upper f.name)).getD p.defaultOrder)
    if order == valueDescr then ⟨f.name, stripBrackets f.unit, f.value, f.descr⟩
    else if order == descrValue then ⟨f.name, stripBrackets f.unit, f.descr, f.value⟩
    else ⟨f.name, stripBrackets f.unit, [], []⟩

/-! ## parse_header_items_section -/

/-- what one physical line contributes: skipped (blank / comment), a section title (stops the loop),
an unparsable line, or an item -/
inductive LineRes where
  | skip
  | title
  | bad
  | item (it : RItem)
deriving DecidableEq, Repr

/-- body of the `for` loop for one line (before the `line_no == line_nos[1]` test) -/
def lineRes (o : ReadOpts) (p : Parser) (line : Str) : LineRes :=
  let s := lineStrip line
  if s.isEmpty then .skip
  else if s.head? == some '#' then .skip
  else if startsTilde s then .title
  else match parseHeaderLine p.sec s with
    | none => .bad
    | some f => .item (mkItem' p { f with name := applyCase o.mnemonicCase f.name })

/-- the `for i, line in enumerate(file_obj)` loop: `rest` = lines after the cursor, `lineNo` = zero-based number
of the line read before them, `last` = `line_nos[1]` -/
def itemsLoop (o : ReadOpts) (p : Parser) (last : Nat) : List Str → Nat → Except RErr (List RItem)
  | [], _ => .ok []
  | line :: rest, lineNo =>
    let lineNo := lineNo + 1
    match lineRes o p line with
    | .title => .ok []
    | .skip => if lineNo == last then .ok [] else itemsLoop o p last rest lineNo
    | .bad =>
      if o.ignoreHeaderErrors then (if lineNo == last then .ok [] else itemsLoop o p last rest lineNo)
      else .error (.headerError (lineNo + 1))
    | .item it =>
      if lineNo == last then .ok [it]
      else match itemsLoop o p last rest lineNo with
        | .ok l => .ok (it :: l)
        | .error e => .error e

/-- `parse_header_items_section(file_obj, (first, last), version, …)` after `file_obj.seek(k)`:
`secLines` = the lines from the title line on -/
def parseItemsSection (o : ReadOpts) (ver : VerVal) (secLines : List Str) (first last : Nat) :
    Except RErr (List RItem) :=
  match secLines with
  | [] => .ok []      -- unreachable: `first` is the number of an existing line
  | titleLine :: rest =>
    match mkParser (lineStrip titleLine) ver with
    | .error e => .error e
    | .ok p => itemsLoop o p last rest first

/-! ## the ~Other loop (las.py:319-337) -/

/-- `for line in file_obj:` starting AT the title line; title lines are recognised by `line.strip().startswith("~")` -/
def otherLoop (last : Nat) : List Str → Nat → List Str
  | [], _ => []
  | line :: rest, lineNo =>
    if startsTilde (strip line) then (if lineNo == last then [] else otherLoop last rest lineNo)
    else lineStrip line :: (if lineNo + 1 == last then [] else otherLoop last rest (lineNo + 1))

def readOther (secLines : List Str) (first last : Nat) : Str :=
  joinWith ['\n'] (otherLoop last secLines first)

/-! ## SectionItems lookups used by the steering code -/

/-- `mnemonic_compare` -/
def mcmp (tr : Bool) (a b : Str) : Bool := if tr then upper a == upper b else a == b

/-- `HeaderItem.useful_mnemonic` -/
def usefulMn (o : Str) : Str := if (strip o).isEmpty then "UNKNOWN".toList else o

/-- session mnemonics after appending the items one by one (`assign_duplicate_suffixes`): an item whose useful
mnemonic occurs more than once gets `:k` (k = its 1-based rank among them) -/
def sessionGo (tr : Bool) : List Str → List Str → List Str
  | _, [] => []
  | before, u :: after =>
    let same := fun v => mcmp tr v u
    let n := (before.filter same).length + 1 + (after.filter same).length
    (if n > 1 then u ++ ':' :: natToStr ((before.filter same).length + 1) else u) :: sessionGo tr (before ++ [u]) after

def sessionNames (tr : Bool) (items : List RItem) : List Str :=
  sessionGo tr [] (items.map fun it => usefulMn it.orig)

/-- `key in section` and `section.<key>` : the first item whose session mnemonic compares equal -/
def lookupItem (tr : Bool) (items : List RItem) (key : Str) : Option RItem :=
  ((sessionNames tr items).zip items).find? (fun p => mcmp tr p.1 key) |>.map (·.2)

/-! ## steering -/

/-- raw texts of the values that replaced the provisional defaults (`none` = still the default:
version 2.0, wrapped "YES", null None, delimiter "SPACE") -/
structure Steer where
  vers : Option Str
  wrap : Option Str
  null : Option Str
  dlm : Option Str
deriving DecidableEq, Repr

def Steer.init : Steer := ⟨none, none, none, none⟩

def orKeep (new old : Option Str) : Option Str := match new with | some v => some v | none => old

/-- `section_title[1:2].upper()` -/
def titleLetter (title : Str) : Str := upper ((title.drop 1).take 1)

/-- las.py:272-286: only ~V's VERS, WRAP, DLM and ~W's NULL -/
def steer (o : ReadOpts) (title : Str) (items : List RItem) (s : Steer) : Steer :=
  let tr := o.mnemonicCase != .preserve
  let get := fun (k : String) => (lookupItem tr items k.toList).map (·.value)
  if titleLetter title == ['V'] then
    { s with vers := orKeep (get "VERS") s.vers, wrap := orKeep (get "WRAP") s.wrap, dlm := orKeep (get "DLM") s.dlm }
  else if titleLetter title == ['W'] then
    { s with null := orKeep (get "NULL") s.null }
  else s

/-! ## routing -/

/-- keys of `las.sections` are strings -/
abbrev RKey := Str

def kVersion : RKey := "Version".toList
def kWell : RKey := "Well".toList
def kCurves : RKey := "Curves".toList
def kParameter : RKey := "Parameter".toList
def kOther : RKey := "Other".toList

/-- las.py:299-316 for a "Header items" section whose title has at least two characters; `ver` is the
provisional version AFTER the steering update -/
def routeKey (title : Str) (ver : VerVal) : Except RErr RKey :=
  let l := titleLetter title
  let noUnderscore := !title.contains '_'
  if (l == ['C'] && noUnderscore) || contains "~Log_Definition".toList title then .ok kCurves
  else if (l == ['P'] && noUnderscore) || contains "~Log_Parameter".toList title then .ok kParameter
  else
    let las3 := isLas3Like (title.drop 1)
    if las3 && ver == .undecided then .error .unmodelled
    else if las3 && ver == .known "3.0".toList then .ok (title.drop 1)
    else if l == ['V'] then .ok kVersion
    else if l == ['W'] then .ok kWell
    else .ok (title.drop 1)

/-- las.py:334-337 -/
def routeKeyOther (title : Str) : RKey :=
  if titleLetter title == ['O'] then kOther else title.drop 1

inductive SecVal where
  | items (l : List RItem)
  | text (s : Str)
deriving DecidableEq, Repr

/-- `self.sections[key] = v` on an insertion-ordered dict -/
def assign (k : RKey) (v : SecVal) : List (RKey × Option SecVal) → List (RKey × Option SecVal)
  | [] => [(k, some v)]
  | (k', v') :: rest => if k' == k then (k', some v) :: rest else (k', v') :: assign k v rest

def lookupSec (k : RKey) (m : List (RKey × Option SecVal)) : Option SecVal := (m.lookup k).join

/-- `LASFile.__init__`: the five standard keys with their defaults (`none` = not assigned by `read`) -/
def initSections : List (RKey × Option SecVal) :=
  [(kVersion, none), (kWell, none), (kCurves, none), (kParameter, none), (kOther, none)]

/-! ## LASFile.read, header level -/

structure RState where
  steer : Steer
  sections : List (RKey × Option SecVal)
  data : List (Nat × Nat × Str)        -- "Data" sections (`data_section_indices`)
  las3 : List (Nat × Nat × Str)        -- "Las3_Data" sections
  curvesPlain : Bool                   -- `sections["Curves"]` holds HeaderItems (no `data`) and is not empty
deriving Repr

def RState.init : RState := ⟨Steer.init, initSections, [], [], false⟩

/-- las.py:272-316: what happens to a parsed "Header items" section: steering update, routing, storing -/
def finishItems (o : ReadOpts) (title : Str) (items : List RItem) (st : RState) : Except RErr RState :=
  let s' := steer o title items st.steer
  if title.length < 2 then .error .indexError
  else match routeKey title (classifyVer s'.vers) with
    | .error e => .error e
    | .ok k =>
      let plain := if k == kCurves then !isCurvesParser title (classifyVer st.steer.vers) && !items.isEmpty
                   else st.curvesPlain
      .ok { st with steer := s', sections := assign k (.items items) st.sections, curvesPlain := plain }

/-- las.py:332-337: storing the text of a "Header (other)" section -/
def finishOther (title : Str) (text : Str) (st : RState) : RState :=
  { st with sections := assign (routeKeyOther title) (.text text) st.sections }

/-- one iteration of the section loop (las.py:246-348) -/
def processSection (o : ReadOpts) (lines : List Str) (w : Nat × Nat × Str) (st : RState) : Except RErr RState :=
  match sectionType w.2.2 with
  | .items =>
    match parseItemsSection o (classifyVer st.steer.vers) (lines.drop w.1) w.1 w.2.1 with
    | .error e => .error e
    | .ok items => finishItems o w.2.2 items st
  | .other => .ok (finishOther w.2.2 (readOther (lines.drop w.1) w.1 w.2.1) st)
  | .data => .ok { st with data := st.data ++ [w] }
  | .las3data => .ok { st with las3 := st.las3 ++ [w] }

def processSections (o : ReadOpts) (lines : List Str) : List (Nat × Nat × Str) → RState → Except RErr RState
  | [], st => .ok st
  | w :: ws, st =>
    match processSection o lines w st with
    | .error e => .error e
    | .ok st' => processSections o lines ws st'

structure RHeader where
  sections : List (RKey × SecVal)      -- the keys assigned by `read`, in the order of `las.sections`
  steer : Steer
  data : List (Nat × Nat × Str)        -- the windows `read` would parse as data
deriving Repr

def delimiters : List Str := ["SPACE".toList, "COMMA".toList, "TAB".toList]

/-- after the section loop (las.py:350-…, 566-567) -/
def finishRead (st : RState) : Except RErr RHeader :=
  -- `define_line_splitter(provisional_delimiter)`
  if !(match st.steer.dlm with | none => true | some d => delimiters.contains d) then .error .keyError
  -- `self.index_initial = self.index.copy()`
  else if st.curvesPlain then .error .attributeError
  else .ok ⟨st.sections.filterMap (fun kv => kv.2.map fun v => (kv.1, v)), st.steer,
            if st.data.isEmpty then st.las3 else st.data⟩

def readLines (o : ReadOpts) (lines : List Str) : Except RErr RHeader :=
  match findSections lines with
  | [] => .error .noSections
  | secs =>
    match processSections o lines secs RState.init with
    | .error e => .error e
    | .ok st => finishRead st

/-- `lasio.read(text, ignore_data=True, ignore_header_errors=…, mnemonic_case=…)` for a text that `open_file`
takes for LAS data (more than one line) -/
def readHeader (o : ReadOpts) (text : Str) : Except RErr RHeader :=
  if text.take 4 == "LASF".toList then .error .lasf
  else readLines o (splitLines text)

end Lasio.Rd
