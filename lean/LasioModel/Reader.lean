import LasioModel.Basic
/- Reader model (to be filled in) -/
namespace Lasio
end Lasio
