import LasioModel.Basic
/- NumLit model (to be filled in) -/
namespace Lasio
end Lasio
