import LasioModel.Basic
import LasioModel.Generated
/-
Model of `lasio.reader.SectionParser.num / metadata / params / curves / strip_brackets`
(reader.py, class SectionParser) — how a header value text becomes an int, a float or stays a string.

What the code does (validated against the interpreter by harness/props/c08.py on every run):
  1. `re.sub(r"(\d),(\d)", r"\1.\2", x)`       (defaults.READ_SUBS["comma-decimal-mark"]; `\d` is the
     UNICODE decimal-digit class there, the pattern is not compiled with re.ASCII; non-overlapping, left to right)
  2. guard: `numeric_literal_regex.fullmatch(x.strip())` with `[+-]?(\d+\.?\d*|\.\d+)([eE][+-]?\d+)?`, re.ASCII;
     no match -> the original text is returned
  3. `np.int64(x)`  (= Python `int(x)`: surrounding white space accepted EXCEPT the four ASCII separators
     U+001C..U+001F which `str.strip` removes but `int`/`float` refuse; at most `sys.get_int_max_str_digits()`
     = 4300 digits, longer -> ValueError; outside int64 -> OverflowError); on any exception
  4. `np.float64(x)` (= Python `float(x)`, correctly rounded `strtod`, same white-space rule); not finite -> original text.

A float is carried as the exact decimal value `(-1)^neg * mant * 10^exp10` the literal denotes; the binary rounding
done by `strtod` is not modelled (trusted).  The finiteness test is exact: round-to-nearest-even of a decimal value
overflows binary64 iff |value| >= 2^1024 - 2^970.
-/
namespace Lasio

inductive NumVal
  | int (i : Int)
  | flt (neg : Bool) (mant : Nat) (exp10 : Int)
  | str (s : Str)
  deriving DecidableEq, Repr

/-! ### the comma substitution -/

/-- code points of the digit ZERO of every Unicode 15.0 `Nd` block (each block is ten consecutive code points);
this is the class `\d` of Python 3.12 `re` on `str` patterns (compared with `re` over all code points by the harness) -/
def uniDigitZeros : List Nat := [
  0x30, 0x660, 0x6f0, 0x7c0, 0x966, 0x9e6, 0xa66, 0xae6, 0xb66, 0xbe6, 0xc66, 0xce6, 0xd66, 0xde6, 0xe50, 0xed0, 0xf20,
  0x1040, 0x1090, 0x17e0, 0x1810, 0x1946, 0x19d0, 0x1a80, 0x1a90, 0x1b50, 0x1bb0, 0x1c40, 0x1c50, 0xa620, 0xa8d0, 0xa900,
  0xa9d0, 0xa9f0, 0xaa50, 0xabf0, 0xff10, 0x104a0, 0x10d30, 0x11066, 0x110f0, 0x11136, 0x111d0, 0x112f0, 0x11450, 0x114d0,
  0x11650, 0x116c0, 0x11730, 0x118e0, 0x11950, 0x11c50, 0x11d50, 0x11da0, 0x11f50, 0x16a60, 0x16ac0, 0x16b50, 0x1d7ce,
  0x1d7d8, 0x1d7e2, 0x1d7ec, 0x1d7f6, 0x1e140, 0x1e2f0, 0x1e4f0, 0x1e950, 0x1fbf0]

/-- regex `\d` without re.ASCII -/
def isUniDigit (c : Char) : Bool := uniDigitZeros.any (fun z => z ≤ c.toNat && c.toNat < z + 10)

/-- `re.sub(r"(D),(D)", r"\1.\2", s)` for a digit class `D`: scan left to right; where digit , digit starts, emit
digit . digit and continue AFTER the second digit (matches do not overlap), otherwise copy one character. -/
def commaSubWith (isD : Char → Bool) : Str → Str
  | [] => []
  | [a] => [a]
  | [a, c] => [a, c]
  | a :: c :: b :: rest =>
    if isD a && c == ',' && isD b then a :: '.' :: b :: commaSubWith isD rest
    else a :: commaSubWith isD (c :: b :: rest)

/-- `re.sub(READ_SUBS["comma-decimal-mark"])` -/
def commaSub (s : Str) : Str := commaSubWith isUniDigit s

/-! ### the plain-decimal guard, as a parser -/

inductive Sign
  | none | plus | minus
  deriving DecidableEq, Repr

/-- syntax tree of `[+-]?(\d+\.?\d*|\.\d+)([eE][+-]?\d+)?` : sign, integer digits, is there a '.', fraction digits,
exponent (marker character, sign, digits) -/
structure Lit where
  sign : Sign
  ip : Str
  dot : Bool
  fp : Str
  exp : Option (Char × Sign × Str)
  deriving DecidableEq, Repr

def takeSign : Str → Sign × Str
  | [] => (.none, [])
  | c :: t => if c = '+' then (.plus, t) else if c = '-' then (.minus, t) else (.none, c :: t)

/-- `([eE][+-]?\d+)?` up to the end of the text -/
def parseExp : Str → Option (Option (Char × Sign × Str))
  | [] => some none
  | c :: t =>
    if c = 'e' ∨ c = 'E' then
      if (takeSign t).2 ≠ [] ∧ (takeSign t).2.all isDigit = true then some (some (c, (takeSign t).1, (takeSign t).2))
      else none
    else none

/-- what may follow the leading digits `ip`: `\.\d*` (or `\.\d+` when there were no leading digits), then the exponent -/
def parseTail (sg : Sign) (ip : Str) : Str → Option Lit
  | [] => if ip = [] then none else some ⟨sg, ip, false, [], none⟩
  | c :: r2 =>
    if c = '.' then
      if ip = [] ∧ r2.takeWhile isDigit = [] then none
      else (parseExp (r2.dropWhile isDigit)).map (fun e => ⟨sg, ip, true, r2.takeWhile isDigit, e⟩)
    else if ip = [] then none
    else (parseExp (c :: r2)).map (fun e => ⟨sg, ip, false, [], e⟩)

/-- full match of the guard regex (ASCII digits) -/
def parseDec (s : Str) : Option Lit :=
  parseTail (takeSign s).1 ((takeSign s).2.takeWhile isDigit) ((takeSign s).2.dropWhile isDigit)

/-- `numeric_literal_regex.fullmatch(s) is not None` -/
def isPlainDec (s : Str) : Bool := (parseDec s).isSome

/-! ### values -/

/-- value of a string of ASCII digits (Horner) -/
def digitsVal (s : Str) : Nat := s.foldl (fun a c => 10 * a + (c.toNat - 48)) 0

def Sign.apply : Sign → Nat → Int
  | .minus, n => - (n : Int)
  | _, n => (n : Int)

/-- the literal is `[+-]?\d+` (the only texts `int()` accepts among plain literals) -/
def Lit.isIntLit (l : Lit) : Bool := !l.dot && l.exp.isNone
def Lit.intVal (l : Lit) : Int := l.sign.apply (digitsVal l.ip)
def Lit.neg (l : Lit) : Bool := l.sign == .minus
/-- all significant digits, the decimal point removed -/
def Lit.mant (l : Lit) : Nat := digitsVal (l.ip ++ l.fp)
def Lit.expVal (l : Lit) : Int :=
  match l.exp with
  | none => 0
  | some (_, sg, ds) => sg.apply (digitsVal ds)
/-- the literal denotes `mant * 10 ^ exp10` -/
def Lit.exp10 (l : Lit) : Int := l.expVal - (l.fp.length : Int)

/-- `sys.get_int_max_str_digits()` (CPython default): `int()` of a longer digit string raises ValueError -/
def intMaxStrDigits : Nat := 4300

def inInt64 (v : Int) : Bool := decide (-(2 : Int) ^ 63 ≤ v) && decide (v ≤ (2 : Int) ^ 63 - 1)

/-- smallest magnitude that round-to-nearest-even sends to infinity in binary64: `2^1024 - 2^970` (written out so that
`decide` does not have to evaluate a large power; equality with the formula is proved in LasioProofs) -/
def overflowThreshold : Nat :=
  179769313486231580793728971405303415079934132710037826936173778980444968292764750946649017977587207096330286416692887910946555547851940402630657488671505820681908902000708383676273854845817711531764475730270069855571366959622842914819860834936475292719074168444365510704342711559699508093042880177904174497792

/-- does `mant * 10 ^ e` round to a finite binary64, given `mant < 10 ^ nd` (`nd` = number of digit characters).
The shortcuts (`e > 310`, `-e ≥ nd`) keep huge exponents such as `1e999999999` computable; they are proved equal to
the plain comparison `mant * 10^e < overflowThreshold` in LasioProofs. -/
def finiteDec (nd mant : Nat) (e : Int) : Bool :=
  if mant = 0 then true
  else match e with
    | .ofNat k => if k > 310 then false else decide (mant * 10 ^ k < overflowThreshold)
    | .negSucc k => if k + 1 ≥ nd then true else decide (mant < overflowThreshold * 10 ^ (k + 1))

/-- white space accepted around a number by `int()` / `float()`: Python white space except U+001C..U+001F -/
def isNumSpace (c : Char) : Bool := isPySpace c && !(0x1C ≤ c.toNat && c.toNat ≤ 0x1F)

def numStrip (s : Str) : Str := ((s.dropWhile isNumSpace).reverse.dropWhile isNumSpace).reverse

/-- `SectionParser.num(x)` for a `str` argument (default = the argument) -/
def num (s : Str) : NumVal :=
  let x := commaSub s
  let t := strip x
  match parseDec t with
  | none => .str s
  | some l =>
    if numStrip x ≠ t then .str s
    else if l.isIntLit = true ∧ l.ip.length ≤ intMaxStrDigits ∧ inInt64 l.intVal = true then .int l.intVal
    else if finiteDec (l.ip.length + l.fp.length) l.mant l.exp10 = true then .flt l.neg l.mant l.exp10
    else .str s

/-! ### the three item constructors -/

/-- `SectionParser.strip_brackets` -/
def stripBrackets (x : Str) : Str :=
  let s := strip x
  match s with
  | a :: b :: rest =>
    let last := (b :: rest).getLast?
    if (a = '[' ∧ last = some ']') ∨ (a = '(' ∧ last = some ')') then (b :: rest).dropLast else s
  | _ => s

/-- is the mnemonic exempt from conversion (`keys["name"].upper() in number_strings`) -/
def isNumberString (name : Str) : Bool := (Generated.numberStrings.map String.toList).contains (upper name)

/-- value stored by `SectionParser.metadata` (~Version, ~Well, custom sections), `value` being the field selected
by the section's value/descr order -/
def metadataValue (name value : Str) : NumVal :=
  if isNumberString name then .str value else num value

/-- value stored by `SectionParser.params` (~Parameter) -/
def paramsValue (value : Str) : NumVal := num value

/-- value stored by `SectionParser.curves` (~Curves): the API code text, never converted -/
def curvesValue (value : Str) : NumVal := .str value

structure ParsedItem where
  name : Str
  unit : Str
  value : NumVal
  descr : Str
  deriving DecidableEq, Repr

/-- `SectionParser.metadata(**keys)`; `descrFirst` = the order looked up for this mnemonic is "descr:value" -/
def metadataItem (descrFirst : Bool) (name unit value descr : Str) : ParsedItem :=
  let v := if descrFirst then descr else value
  let d := if descrFirst then value else descr
  ⟨name, stripBrackets unit, metadataValue name v, d⟩

def paramsItem (name unit value descr : Str) : ParsedItem := ⟨name, stripBrackets unit, paramsValue value, descr⟩
def curvesItem (name unit value descr : Str) : ParsedItem := ⟨name, stripBrackets unit, curvesValue value, descr⟩

end Lasio
