import LasioModel.Basic
/-
Model of `lasio.reader.read_header_line` + `configure_metadata_patterns` (reader.py:932-1058).
No regex engine: each regex fragment is a *list-of-successes matcher* on the remaining suffix of the line,
returning in regex priority (backtracking) order every (captured text, remaining suffix) it can match.
A pattern is the nested first-success search over its four fragments.  Lines never contain '\n'
(they come from line splitting), so `.` matches every character.
-/
namespace Lasio

/-- first success over priority-ordered alternatives -/
def firstSome {α β} : List α → (α → Option β) → Option β
  | [], _ => none
  | a :: as, f => match f a with
    | some b => some b
    | none => firstSome as f

/-- a fragment: (captured group or none, rest) alternatives in priority order -/
abbrev Frag := Str → List (Option Str × Str)

/-- all splits of `run ++ rest` inside `run`, longest capture first (greedy `X*` backtracking) -/
def shrinks (run rest : Str) : List (Str × Str) :=
  (List.range (run.length + 1)).reverse.map fun k => (run.take k, run.drop k ++ rest)

/-- split at the first occurrence of `ch`: text before it and text after it -/
def splitFirst (ch : Char) (s : Str) : Option (Str × Str) :=
  match s.dropWhile (· != ch) with
  | [] => none
  | _ :: rest => some (s.takeWhile (· != ch), rest)

/-- `\.?` prefix: skip a leading period first, then try without skipping -/
def dotStarts (s : Str) : List Str :=
  match s with
  | '.' :: tl => [tl, s]
  | _ => [s]

/-- `name_re = \.?(?P<name>[^.]*)\.` -/
def nameDefault : Frag := fun s =>
  (dotStarts s).filterMap fun st => (splitFirst '.' st).map fun (n, r) => (some n, r)

/-- `name_missing_period_re = (?P<name>[^:]*):` -/
def nameMissingPeriod : Frag := fun s =>
  match splitFirst ':' s with
  | some (n, r) => [(some n, r)]
  | none => []

/-- positions `k` (ascending) with `s[k] = '.'` and `s[k+1] = '.'`, as (s.take (k+1), s.drop (k+2)) -/
def dotDotSplits : Str → List (Str × Str)
  | [] => []
  | c :: cs =>
    (match c, cs with
      | '.', '.' :: r => [([c], r)]
      | _, _ => []) ++ (dotDotSplits cs).map fun (a, r) => (c :: a, r)

/-- `name_with_dots_re = \.?(?P<name>[^.].*[.])\.` : first char not a period, then greedy `.*` up to a `..` (last first) -/
def nameDots : Frag := fun s =>
  (dotStarts s).flatMap fun st =>
    match st with
    | [] => []
    | c :: tl => if c == '.' then [] else
      (dotDotSplits tl).reverse.map fun (a, r) => (some (c :: a), r)

def isAsciiDigit (c : Char) : Bool := '0' ≤ c && c ≤ '9'

/-- `unit_re = (?P<unit>([0-9]+\s)?[^\s]*)` -/
def unitDefault : Frag := fun s =>
  let digits := s.takeWhile isAsciiDigit
  let afterDigits := s.dropWhile isAsciiDigit
  let withGroup : List (Option Str × Str) :=
    match digits, afterDigits with
    | [], _ => []
    | _, [] => []
    | _ :: _, sp :: tl =>
      if isPySpace sp then
        (shrinks (tl.takeWhile (fun c => !isPySpace c)) (tl.dropWhile (fun c => !isPySpace c))).map
          fun (a, r) => (some (digits ++ sp :: a), r)
      else []
  withGroup ++
    (shrinks (s.takeWhile (fun c => !isPySpace c)) (s.dropWhile (fun c => !isPySpace c))).map
      fun (a, r) => (some a, r)

/-- `no_unit_re = ""`, `no_desc_re = ""` -/
def fragNone : Frag := fun s => [(none, s)]

/-- every (before, after) split at a ':' of `s`, first colon first -/
def colonSplits : Str → List (Str × Str)
  | [] => []
  | c :: cs => (if c == ':' then [([], cs)] else []) ++ (colonSplits cs).map fun (v, r) => (c :: v, r)

/-- `value_re = (?P<value>.*):` greedy: last colon first -/
def valueGreedyColon : Frag := fun s => (colonSplits s).reverse.map fun (v, r) => (some v, r)

/-- `value_missing_period_re = (?P<value>.*)` -/
def valueAll : Frag := fun s => (shrinks s []).map fun (v, r) => (some v, r)

/-- `value_without_colon_delimiter_re = (?P<value>[^:]*)` -/
def valueNoColon : Frag := fun s =>
  (shrinks (s.takeWhile (· != ':')) (s.dropWhile (· != ':'))).map fun (v, r) => (some v, r)

/-- the look-around of `value_with_time_colon_re` at a colon: `beforeRev` = text before the colon, reversed;
`after` = text after it.  `(?<!( [0-2][0-3]| hh| HH)):(?!([0-5][0-9]|mm|MM))` -/
def sepOk (beforeRev after : Str) : Bool :=
  let lb := match beforeRev with
    | c3 :: c2 :: c1 :: _ =>
      (c1 == ' ' && ('0' ≤ c2 && c2 ≤ '2') && ('0' ≤ c3 && c3 ≤ '3')) ||
      (c1 == ' ' && c2 == 'h' && c3 == 'h') || (c1 == ' ' && c2 == 'H' && c3 == 'H')
    | _ => false
  let la := match after with
    | a1 :: a2 :: _ =>
      (('0' ≤ a1 && a1 ≤ '5') && isAsciiDigit a2) || (a1 == 'm' && a2 == 'm') || (a1 == 'M' && a2 == 'M')
    | _ => false
  !lb && !la

/-- `value_with_time_colon_re`: lazy `.*?` then a colon passing the look-around: first such colon first.
`consumedRev` is the already consumed part of the line, reversed (needed by the look-behind). -/
def valueTime (consumedRev : Str) : Frag := fun s =>
  (colonSplits s).filterMap fun (v, r) =>
    if sepOk (v.reverse ++ consumedRev) r then some (some v, r) else none

/-- `desc_re = (?P<descr>.*)` : nothing follows, the greedy first alternative always wins -/
def descRest : Frag := fun s => [(some s, [])]

inductive SecName where
  | version | well | curves | parameter | other
deriving DecidableEq, Repr

/-- which fragment plays each role (the local variables of `configure_metadata_patterns`) -/
inductive NameK where | dflt | missingPeriod | dots deriving DecidableEq, Repr
inductive UnitK where | dflt | none deriving DecidableEq, Repr
inductive ValueK where | greedyColon | all | noColon | time deriving DecidableEq, Repr
inductive DescK where | rest | none deriving DecidableEq, Repr

structure Pattern where
  name : NameK
  unit : UnitK
  value : ValueK
  descr : DescK
deriving DecidableEq, Repr

/-- `re.search(r"[^ ]\.\.", line)` -/
def hasNonBlankDotDot : Str → Bool
  | c :: '.' :: '.' :: rest => c != ' ' || hasNonBlankDotDot ('.' :: '.' :: rest)
  | _ :: rest => hasNonBlankDotDot rest
  | [] => false

/-- `str.find(sub)` for a 2-char needle, as Option index -/
def findDotDot : Str → Option Nat
  | '.' :: '.' :: _ => some 0
  | _ :: rest => (findDotDot rest).map (· + 1)
  | [] => none

/-- `str.rfind(':')` -/
def rfindColon (s : Str) : Option Nat :=
  match (colonSplits s).getLast? with
  | some (v, _) => some v.length
  | none => none

/-- the assignment structure of `configure_metadata_patterns`, literally (note the fall-through of the
"missing period" branch) -/
def configurePatterns (line : Str) (sec : SecName) : List Pattern :=
  let hasColon := line.contains ':'
  let missingPeriod := hasColon && !((line.takeWhile (· != ':')).contains '.')
  let name0 : NameK := if missingPeriod then .missingPeriod else .dflt
  let value0 : ValueK := if missingPeriod then .all else .greedyColon
  let desc0 : DescK := if missingPeriod then .none else .rest
  let unit0 : UnitK := if missingPeriod then .none else .dflt
  let tval0 : ValueK := if missingPeriod then .all else .time
  let value1 : ValueK := if !hasColon then .noColon else value0
  let desc1 : DescK := if !hasColon then .none else desc0
  let name1 : NameK :=
    if !hasColon then
      (if (findDotDot line).isSome && sec == .curves then .dots else name0)
    else
      (if hasNonBlankDotDot line && sec == .curves then
        (match findDotDot line, rfindColon line with
          | some dd, some dc => if dd < dc then .dots else name0
          | _, _ => name0)
       else name0)
  (if sec == .parameter then [⟨name1, unit0, tval0, desc1⟩] else []) ++ [⟨name1, unit0, value1, desc1⟩]

def nameFrag : NameK → Frag
  | .dflt => nameDefault | .missingPeriod => nameMissingPeriod | .dots => nameDots
def unitFrag : UnitK → Frag
  | .dflt => unitDefault | .none => fragNone
def valueFrag (consumedRev : Str) : ValueK → Frag
  | .greedyColon => valueGreedyColon | .all => valueAll | .noColon => valueNoColon | .time => valueTime consumedRev
def descFrag : DescK → Frag
  | .rest => descRest | .none => fragNone

structure Fields where
  name : Str
  unit : Str
  value : Str
  descr : Str
deriving DecidableEq, Repr

def grp (o : Option Str) : Str := match o with | some s => strip s | none => []

/-- post-processing of `read_header_line`: strip every group; a unit ending in '.' is stripped of periods -/
def postProcess (n u v d : Option Str) : Fields :=
  let u' := grp u
  let u'' := if u'.getLast? == some '.' then stripChar '.' u' else u'
  ⟨grp n, u'', grp v, grp d⟩

/-- `re.match(pattern, line)` for one configured pattern -/
def matchPattern (p : Pattern) (line : Str) : Option Fields :=
  firstSome (nameFrag p.name line) fun (n, r1) =>
  firstSome (unitFrag p.unit r1) fun (u, r2) =>
  firstSome (valueFrag ((line.take (line.length - r2.length)).reverse) p.value r2) fun (v, r3) =>
  firstSome (descFrag p.descr r3) fun (d, _) => some (postProcess n u v d)

/-- `read_header_line(line, section_name=sec)`; `none` where Python dereferences a `None` match -/
def parseHeaderLine (sec : SecName) (line : Str) : Option Fields :=
  firstSome (configurePatterns line sec) fun p => matchPattern p line

end Lasio
