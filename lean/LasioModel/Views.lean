import LasioModel.Basic
import LasioModel.Generated
/-
Views model (C18): the DECISION LOGIC of `LASFile.to_json` / `json`, `to_csv`, the index-unit detection at the end of
`LASFile.read`, `depth_m`, `depth_ft`, `_index_unit_contains` (/repo/lasio/las.py).

Trusted runtime (NOT modelled; covered by correspondence + oracle only): the `json` module (string escaping, float repr,
layout), `csv.writer` (quoting, `str()` of a cell), numpy (`.item()`, `vstack`), openpyxl, pandas.
-/
namespace Lasio

/-! ## JSON -/

/-- the JSON number grammar `-?(0|[1-9][0-9]*)(\.[0-9]+)?([eE][+-]?[0-9]+)?` (RFC 8259 section 6) -/
def jsonAllDigits (s : Str) : Bool := !s.isEmpty && s.all isDigit

def isJsonInt : Str → Bool
  | ['0'] => true
  | c :: cs => c != '0' && isDigit c && cs.all isDigit
  | [] => false

/-- exponent part after the `e`/`E` -/
def isJsonExp : Str → Bool
  | '+' :: ds => jsonAllDigits ds
  | '-' :: ds => jsonAllDigits ds
  | ds => jsonAllDigits ds

/-- fraction (after the `.`) and optional exponent -/
def isJsonFracExp (s : Str) : Bool :=
  let ds := s.takeWhile isDigit
  !ds.isEmpty &&
  match s.dropWhile isDigit with
  | [] => true
  | c :: r => (c == 'e' || c == 'E') && isJsonExp r

def isJsonUnsigned (s : Str) : Bool :=
  let ip := s.takeWhile isDigit
  isJsonInt ip &&
  match s.dropWhile isDigit with
  | [] => true
  | '.' :: r => isJsonFracExp r
  | c :: r => (c == 'e' || c == 'E') && isJsonExp r

def isJsonNumber : Str → Bool
  | '-' :: r => isJsonUnsigned r
  | s => isJsonUnsigned s

/-- the text of a FINITE number as the `json` module writes it (`int.__repr__` / `float.__repr__`); finiteness is part of
the type: the text is a JSON number literal, so it is none of `NaN`, `Infinity`, `-Infinity`, `nan`, `inf` -/
structure NumText where
  text : Str
  ok : isJsonNumber text = true
deriving DecidableEq

/-- the three non-finite floats -/
inductive NonFin | nan | posInf | negInf
deriving DecidableEq, Repr

/-- one scalar of the emitted JSON text.  `bare` is the non-standard token (`NaN`, `Infinity`, `-Infinity`) that
`json.dumps` (default `allow_nan=True`) writes for a non-finite float and that a strict parser rejects. -/
inductive JVal
  | null
  | bool (b : Bool)
  | num (t : NumText)
  | str (s : Str)
  | bare (w : NonFin)
deriving DecidableEq

/-- accepted by a strict JSON parser (`json.loads(..., parse_constant=<raise>)`) -/
def StrictJson : JVal → Prop
  | .bare _ => False
  | _ => True

instance : DecidablePred StrictJson := fun v => by cases v <;> unfold StrictJson <;> infer_instance

/-- a header value / sample as the encoder sees it (Python type dispatch). `np*` = numpy scalar (`np.generic`); the text
of a numpy number is the text of its `.item()`. -/
inductive HVal
  | pyInt (t : NumText)
  | pyFloat (t : NumText)
  | pyFloatNonFinite (w : NonFin)
  | npInt (t : NumText)
  | npFloat (t : NumText)
  | npFloatNonFinite (w : NonFin)
  | text (s : Str)
  | none
  | bool (b : Bool)
  | npBool (b : Bool)
deriving DecidableEq

/-- what the `json` module does NATIVELY with a Python scalar (`allow_nan=True`).  A numpy scalar that is not a Python
`float`/`int`/`str` subclass is not serialisable natively: it goes to `JSONEncoder.default`, which has no branch for it and
returns `None` → `null` (np.float64 IS a `float` subclass and is written natively). -/
def pyJsonNative : HVal → JVal
  | .pyInt t => .num t
  | .pyFloat t => .num t
  | .pyFloatNonFinite w => .bare w
  | .npInt _ => .null
  | .npFloat t => .num t
  | .npFloatNonFinite w => .bare w
  | .text s => .str s
  | .none => .null
  | .bool b => .bool b
  | .npBool _ => .null

/-- `value.item()` for `isinstance(value, np.generic)` -/
def npItem : HVal → HVal
  | .npInt t => .pyInt t
  | .npFloat t => .pyFloat t
  | .npFloatNonFinite w => .pyFloatNonFinite w
  | .npBool b => .bool b
  | v => v

/-- `_json_value`: numpy scalars → Python scalars, then non-finite floats → `None` -/
def jsonValueConv (v : HVal) : HVal :=
  match npItem v with
  | .pyFloatNonFinite _ => .none
  | w => w

/-- one header value in the emitted JSON: `_json_value` followed by the json module -/
def jsonValue (v : HVal) : JVal := pyJsonNative (jsonValueConv v)

/-- the encoder BEFORE the repair (commit 5e01986): `dictview()` values went to the json module unchanged -/
def jsonValueOld (v : HVal) : JVal := pyJsonNative v

/-- one element of `curve.data` -/
inductive Sample
  | f (t : NumText)          -- finite np.float64
  | nan
  | inf (neg : Bool)
  | text (s : Str)           -- element of a text curve (np.str_ / str)
  | int (t : NumText)        -- element of an integer array (np.int64)
deriving DecidableEq

def Sample.toHVal : Sample → HVal
  | .f t => .npFloat t
  | .nan => .npFloatNonFinite .nan
  | .inf false => .npFloatNonFinite .posInf
  | .inf true => .npFloatNonFinite .negInf
  | .text s => .text s
  | .int t => .npInt t

/-- `[_json_value(x) for x in curve.data]` -/
def jsonSample (s : Sample) : JVal := jsonValue s.toHVal

/-- `d[k] = v` on an insertion-ordered Python dict: an existing key keeps its position and takes the new value -/
def dictSet {V} (d : List (Str × V)) (k : Str) (v : V) : List (Str × V) :=
  match d with
  | [] => [(k, v)]
  | (k', v') :: r => if k' = k then (k', v) :: r else (k', v') :: dictSet r k v

/-- `dict(pairs)` / a dict comprehension over `pairs` -/
def dictOf {V} (pairs : List (Str × V)) : List (Str × V) :=
  pairs.foldl (fun d kv => dictSet d kv.1 kv.2) []

/-- a section of `las.sections`: a plain string (~Other) or SectionItems as (session mnemonic, value) in order -/
inductive SecView
  | text (s : Str)
  | items (its : List (Str × HVal))

inductive JSec
  | text (s : Str)
  | obj (kvs : List (Str × JVal))
deriving DecidableEq

structure LasView where
  sections : List (Str × SecView)          -- `las.sections.items()` (a dict: names distinct)
  curves : List (Str × List Sample)        -- (session mnemonic, data) per curve

structure JTree where
  metadata : List (Str × JSec)
  data : List (Str × List JVal)
deriving DecidableEq

/-- `{key: _json_value(value) for key, value in section.dictview().items()}` with `dictview() = dict(zip(keys, values))` -/
def encodeSection : SecView → JSec
  | .text s => .text s
  | .items its => .obj (dictOf ((dictOf its).map fun kv => (kv.1, jsonValue kv.2)))

/-- `JSONEncoder.default(las)` -/
def encodeLas (l : LasView) : JTree :=
  { metadata := dictOf (l.sections.map fun ns => (ns.1, encodeSection ns.2)),
    data := dictOf (l.curves.map fun c => (c.1, c.2.map jsonSample)) }

/-- every scalar of the tree -/
def JSec.vals : JSec → List JVal
  | .text s => [.str s]
  | .obj kvs => kvs.map (·.2)

def JTree.vals (t : JTree) : List JVal :=
  (t.metadata.map (·.2.vals)).flatten ++ (t.data.map (·.2)).flatten

/-! ## CSV -/

/-- the `mnemonics=` / `units=` argument of `to_csv`: `True`, a list, or `False`/`None` -/
inductive RowOpt
  | dflt
  | list (l : List Str)
  | off
deriving DecidableEq

/-- `units_loc`: `"line"`, `"()"`, `"[]"`, anything else (`None`, other strings) -/
inductive UnitsLoc | line | paren | bracket | other
deriving DecidableEq

structure CsvOpts where
  mnemonics : RowOpt := .dflt
  units : RowOpt := .dflt
  unitsLoc : UnitsLoc := .line

/-- `if x is True: x = default`; afterwards only the truthiness of `x` matters: `False`/`None`/`[]` ↦ nothing -/
def RowOpt.resolve (o : RowOpt) (dflt : List Str) : List Str :=
  match o with
  | .dflt => dflt
  | .list l => l
  | .off => []

def UnitsLoc.brackets : UnitsLoc → Option (Char × Char)
  | .paren => some ('(', ')')
  | .bracket => some ('[', ']')
  | _ => none

/-- `[m + " " + units_loc[0] + u + units_loc[1] for m, u in zip(mnemonics, units)]` -/
def csvDecorate (o c : Char) (ms us : List Str) : List Str :=
  List.zipWith (fun m u => m ++ [' ', o] ++ u ++ [c]) ms us

/-- the mnemonic row, when one is written -/
def csvMnemonicRow (o : CsvOpts) (origs units : List Str) : Option (List Str) :=
  let ms := o.mnemonics.resolve origs
  let us := o.units.resolve units
  if ms.isEmpty then none
  else match o.unitsLoc.brackets with
    | some (a, b) => if us.isEmpty then some ms else some (csvDecorate a b ms us)
    | none => some ms

/-- the unit row, when one is written -/
def csvUnitRow (o : CsvOpts) (units : List Str) : Option (List Str) :=
  let us := o.units.resolve units
  if us.isEmpty then none
  else if o.unitsLoc = .line then some us else none

/-- the records `to_csv` hands to `csv.writer.writerow`, in order.  `origs` = original mnemonics of the curves, `units` =
their units, `rows` = `str(x)` of every cell of `self.data[i, :]` -/
def csvRows (o : CsvOpts) (origs units : List Str) (rows : List (List Str)) : List (List Str) :=
  (csvMnemonicRow o origs units).toList ++ (csvUnitRow o units).toList ++ rows

/-! ## Index unit -/

/-- `defaults.DEPTH_UNITS` as regenerated from the source -/
def depthUnitTable : List (Str × List Str) :=
  Generated.depthUnits.map fun r => (r.1.toList, r.2.map String.toList)

/-- `any([unit == p for p in possibilities]) or any([unit.upper() == p.upper() for p in possibilities])` -/
def unitMatches (unit : Str) (ps : List Str) : Bool :=
  ps.any (fun p => unit == p) || ps.any (fun p => upper unit == upper p)

/-- the same test BEFORE the repair (commit ae3c068): `unit.upper() == p` -/
def unitMatchesOld (unit : Str) (ps : List Str) : Bool :=
  ps.any (fun p => unit == p) || ps.any (fun p => upper unit == p)

/-- the double loop: `for key, ps in table: for u in units: if match: matches.append(key)` -/
def unitMatchList (mt : Str → List Str → Bool) (table : List (Str × List Str)) (units : List Str) : List Str :=
  table.flatMap fun r => units.filterMap fun u => if mt u r.2 then some r.1 else none

/-- `matches = set(matches)`; exactly one element → it, none or several → `None` -/
def uniqueKey (ms : List Str) : Option Str :=
  match ms.eraseDups with
  | [k] => some k
  | _ => none

def detectWith (mt : Str → List Str → Bool) (table : List (Str × List Str)) (units : List Str) : Option Str :=
  uniqueKey (unitMatchList mt table units)

/-- index unit from the units of the candidates (STRT, STOP, STEP items of ~Well that exist, then the first curve) -/
def detectIndexUnit (units : List Str) : Option Str := detectWith unitMatches depthUnitTable units

def detectIndexUnitOld (units : List Str) : Option Str := detectWith unitMatchesOld depthUnitTable units

/-- the `index_unit=` argument of `read`: `"m" in str(index_unit)` → `"m"`; truthy → itself; else detection.
(`str(None) = "None"` contains no `m`.) -/
def resolveIndexUnit (arg : Option Str) (units : List Str) : Option Str :=
  match arg with
  | none => detectIndexUnit units
  | some s => if contains ['m'] s then some ['m'] else if s.isEmpty then detectIndexUnit units else some s

/-- `self.index_unit and (unit_code.upper() in self.index_unit.upper())` as a truth value -/
def indexUnitContains (iu : Option Str) (code : Str) : Bool :=
  match iu with
  | none => false
  | some s => !s.isEmpty && contains (upper code) (upper s)

inductive DConst | ft | tenthIn     -- 0.3048, 120
deriving DecidableEq, Repr

/-- symbolic value of `depth_m` / `depth_ft` in terms of `self.index` -/
inductive DepthExpr
  | idx
  | mul (e : DepthExpr) (c : DConst)
  | div (e : DepthExpr) (c : DConst)
deriving DecidableEq, Repr

/-- the branch `depth_m`/`depth_ft` take: the first of "M", "F", ".1IN" contained in the index unit -/
inductive UnitClass | m | f | tenthIn
deriving DecidableEq, Repr

def unitClass (iu : Option Str) : Option UnitClass :=
  if indexUnitContains iu ['M'] then some .m
  else if indexUnitContains iu ['F'] then some .f
  else if indexUnitContains iu ['.', '1', 'I', 'N'] then some .tenthIn
  else none

/-- `depth_m`; `none` = raises LASUnknownUnitError -/
def depthM (iu : Option Str) : Option DepthExpr :=
  if indexUnitContains iu ['M'] then some .idx
  else if indexUnitContains iu ['F'] then some (.mul .idx .ft)
  else if indexUnitContains iu ['.', '1', 'I', 'N'] then some (.mul (.div .idx .tenthIn) .ft)
  else none

/-- `depth_ft` -/
def depthFt (iu : Option Str) : Option DepthExpr :=
  if indexUnitContains iu ['M'] then some (.div .idx .ft)
  else if indexUnitContains iu ['F'] then some .idx
  else if indexUnitContains iu ['.', '1', 'I', 'N'] then some (.div .idx .tenthIn)
  else none

/-- exact rational reading (0.3048 = 381/1250); float rounding is NOT modelled -/
def DConst.val : DConst → Rat
  | .ft => 381 / 1250
  | .tenthIn => 120

def DepthExpr.eval (x : Rat) : DepthExpr → Rat
  | .idx => x
  | .mul e c => e.eval x * c.val
  | .div e c => e.eval x / c.val

end Lasio
