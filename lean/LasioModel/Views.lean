import LasioModel.Basic
/- Views model (to be filled in) -/
namespace Lasio
end Lasio
