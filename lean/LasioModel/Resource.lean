/-
C20: control-flow IR for file-handle ownership, executable semantics under a
fault schedule, and an exhaustive (fuel- and schedule-independent) outcome
analysis.  Soundness of the analysis is proved in
`LasioProofs/Lemmas/ResourceSound.lean`.

This file has no imports.
-/
namespace Lasio

abbrev Var := Nat

inductive Stmt where
  | skip | mayRaise | ret | raise
  | openV (v : Var) | close (v : Var)
  | move (dst src : Var)
  | setFlag (f : Nat) (b : Bool)
  | seq (a b : Stmt) | tryFinally (a f : Stmt) | tryExcept (a h : Stmt)
  | choice (a b : Stmt) | ifFlag (f : Nat) (a b : Stmt)
  | withOpen (b : Stmt) | loop (b : Stmt) | scope (b : Stmt)
deriving Repr, DecidableEq

inductive Out where | norm | ret | exc
deriving Repr, DecidableEq

structure St where
  held : List Var
  leaked : Bool
  flags : List (Nat × Bool)
  foreign : Bool        -- a `close` was applied to a variable that holds no handle opened here (caller's object)
deriving Repr, DecidableEq

/-- the initial state: nothing held, nothing leaked, no flag set -/
def St.init : St := ⟨[], false, [], false⟩

def pop : List Bool → Bool × List Bool
  | [] => (false, [])
  | b :: bs => (b, bs)

def openSt (v : Var) (s : St) : St :=
  ⟨v :: s.held.erase v, s.leaked || s.held.contains v, s.flags, s.foreign⟩

def closeSt (v : Var) (s : St) : St :=
  ⟨s.held.erase v, s.leaked, s.flags, s.foreign || !s.held.contains v⟩

/-- ownership transfer `dst := src`: if `src` is held it is replaced by `dst`;
overwriting a held `dst` leaks it (as `openSt` does); otherwise no-op -/
def moveSt (dst src : Var) (s : St) : St :=
  if s.held.contains src then
    let h := s.held.erase src
    ⟨dst :: h.erase dst, s.leaked || h.contains dst, s.flags, s.foreign⟩
  else s

/-- flags are kept as an association list with at most one binding per key,
newest first (old binding for `f` is removed) -/
def setFlagSt (f : Nat) (b : Bool) (s : St) : St :=
  ⟨s.held, s.leaked, (f, b) :: s.flags.filter (fun p => p.1 != f), s.foreign⟩

/-- current value of a flag; unset reads as `false` -/
def getFlag (f : Nat) (s : St) : Bool :=
  match s.flags.lookup f with
  | some b => b
  | none => false

/-- `scope` turns a callee's `ret` into the caller's `norm` -/
def scopeOut : Out → Out
  | .ret => .norm
  | o => o

/-- executable semantics; `fuel` bounds loop iterations only -/
def exec (fuel : Nat) : Stmt → List Bool → St → Out × St × List Bool
  | .skip, σ, s => (.norm, s, σ)
  | .ret, σ, s => (.ret, s, σ)
  | .raise, σ, s => (.exc, s, σ)
  | .mayRaise, σ, s => let (b, σ') := pop σ; (if b then .exc else .norm, s, σ')
  | .openV v, σ, s => let (b, σ') := pop σ; if b then (.exc, s, σ') else (.norm, openSt v s, σ')
  | .close v, σ, s => (.norm, closeSt v s, σ)
  | .move dst src, σ, s => (.norm, moveSt dst src s, σ)
  | .setFlag f b, σ, s => (.norm, setFlagSt f b s, σ)
  | .seq a b, σ, s =>
    match exec fuel a σ s with
    | (.norm, s1, σ1) => exec fuel b σ1 s1
    | r => r
  | .tryFinally a f, σ, s =>
    match exec fuel a σ s with
    | (o, s1, σ1) =>
      match exec fuel f σ1 s1 with
      | (.norm, s2, σ2) => (o, s2, σ2)
      | r => r
  | .tryExcept a h, σ, s =>
    match exec fuel a σ s with
    | (.exc, s1, σ1) => exec fuel h σ1 s1
    | r => r
  | .choice a b, σ, s => let (c, σ') := pop σ; if c then exec fuel a σ' s else exec fuel b σ' s
  | .ifFlag f a b, σ, s => if getFlag f s then exec fuel a σ s else exec fuel b σ s
  | .withOpen b, σ, s => let (c, σ') := pop σ; if c then (.exc, s, σ') else exec fuel b σ' s
  | .scope b, σ, s =>
    match exec fuel b σ s with
    | (o, s1, σ1) => (scopeOut o, s1, σ1)
  | .loop b, σ, s =>
    match fuel with
    | 0 => (.norm, s, σ)
    | fuel' + 1 =>
      let (c, σ') := pop σ
      if c then
        match exec fuel' b σ' s with
        | (.norm, s1, σ1) => exec fuel' (.loop b) σ1 s1
        | r => r
      else (.norm, s, σ')
termination_by st => (fuel, sizeOf st)

-- ---------- exhaustive outcome enumeration (fuel- and schedule-independent) ----------
abbrev Res := Out × St

def resOf (r : Out × St × List Bool) : Res := (r.1, r.2.1)

def collectRaw (f : Res → Option (List Res)) : List Res → Option (List Res)
  | [] => some []
  | x :: xs =>
    match f x, collectRaw f xs with
    | some l, some r => some (l ++ r)
    | _, _ => none

/-- run `f` on every element, concatenate, de-duplicate -/
def collect (xs : List Res) (f : Res → Option (List Res)) : Option (List Res) :=
  match collectRaw f xs with
  | some l => some l.eraseDups
  | none => none

def normStates (l : List Res) : List St := (l.filter (fun r => r.1 == .norm)).map (·.2)

/-- grow the set of loop-head states `n` times -/
def grow (fb : St → Option (List Res)) : Nat → List St → Option (List St)
  | 0, R => some R
  | n + 1, R =>
    match collect (R.map fun r => (Out.norm, r)) (fun x => fb x.2) with
    | some l => grow fb n ((R ++ normStates l).eraseDups)
    | none => none

def closedUnder (fb : St → Option (List Res)) (R : List St) : Bool :=
  R.all fun r => match fb r with
    | some l => (normStates l).all (fun s => R.contains s)
    | none => false

/-- number of loop-head growth rounds tried before giving up -/
def growRounds : Nat := 12

def outs : Stmt → St → Option (List Res)
  | .skip, s => some [(.norm, s)]
  | .ret, s => some [(.ret, s)]
  | .raise, s => some [(.exc, s)]
  | .mayRaise, s => some [(.exc, s), (.norm, s)]
  | .openV v, s => some [(.exc, s), (.norm, openSt v s)]
  | .close v, s => some [(.norm, closeSt v s)]
  | .move dst src, s => some [(.norm, moveSt dst src s)]
  | .setFlag f b, s => some [(.norm, setFlagSt f b s)]
  | .seq a b, s =>
    match outs a s with
    | some la => collect la fun r => if r.1 == .norm then outs b r.2 else some [r]
    | none => none
  | .tryFinally a f, s =>
    match outs a s with
    | some la => collect la fun r =>
        match outs f r.2 with
        | some lf => some (lf.map fun r2 => if r2.1 == .norm then (r.1, r2.2) else r2)
        | none => none
    | none => none
  | .tryExcept a h, s =>
    match outs a s with
    | some la => collect la fun r => if r.1 == .exc then outs h r.2 else some [r]
    | none => none
  | .choice a b, s =>
    match outs a s, outs b s with
    | some la, some lb => some (la ++ lb).eraseDups
    | _, _ => none
  | .ifFlag f a b, s => if getFlag f s then outs a s else outs b s
  | .withOpen b, s =>
    match outs b s with
    | some lb => some ((.exc, s) :: lb).eraseDups
    | none => none
  | .scope b, s =>
    match outs b s with
    | some lb => some (lb.map fun r => (scopeOut r.1, r.2)).eraseDups
    | none => none
  | .loop b, s =>
    match grow (outs b) growRounds [s] with
    | some R =>
      if closedUnder (outs b) R then
        match collect (R.map fun r => (Out.norm, r)) (fun x => outs b x.2) with
        | some l => some (R.map (fun r => (Out.norm, r)) ++ l.filter (fun r => r.1 != .norm))
        | none => none
      else none
    | none => none

/-- all outcomes from the initial state hold nothing and leaked nothing -/
def leakFree (p : Stmt) : Bool :=
  match outs p St.init with
  | some l => l.all fun r => r.2.held.isEmpty && !r.2.leaked
  | none => false

/-- no outcome from the initial state has closed a variable it did not own (used for write()/to_csv(): a file
object supplied by the caller is never closed) -/
def noForeignClose (p : Stmt) : Bool :=
  match outs p St.init with
  | some l => l.all fun r => !r.2.foreign
  | none => false

/-- syntactic: does the statement contain `close v` anywhere -/
def closesVar (v : Var) : Stmt → Bool
  | .close w => w == v
  | .seq a b => closesVar v a || closesVar v b
  | .tryFinally a f => closesVar v a || closesVar v f
  | .tryExcept a h => closesVar v a || closesVar v h
  | .choice a b => closesVar v a || closesVar v b
  | .ifFlag _ a b => closesVar v a || closesVar v b
  | .withOpen b => closesVar v b
  | .loop b => closesVar v b
  | .scope b => closesVar v b
  | _ => false

-- read(): file_obj opened inside try, closed in finally
def readProg : Stmt :=
  .tryFinally (.seq (.openV 0) (.seq .mayRaise (.loop (.seq .mayRaise (.withOpen .mayRaise))))) (.close 0)
-- write(): open; body may raise; close — no finally
def writeProg : Stmt := .choice (.seq (.openV 0) (.seq .mayRaise (.close 0))) .mayRaise

end Lasio
