import LasioModel.Basic
import LasioModel.Section
import LasioModel.Writer
import LasioModel.DataWrite
/-
Object-level model of `lasio.writer.write` (writer.py:83-130 + the calls into the header writer `Lasio.Wr` and the
data-section writer `Lasio.Dw`) and of `LASFile.update_start_stop_step` / `update_units_from_index_curve`
(las.py:569-621): what one call of `las.write(f, **options)` (STRT/STOP/STEP left to lasio) writes AND what it does to the
object in memory.

Header values keep their Python type as far as `write` can see it: `str`, number (float / int / numpy scalar, with its
`str()` text supplied by the harness), `None`.  The only binary64 arithmetic of the call, `index[1] - index[0]`, is a
PARAMETER (`stepDiff`, computed by Python), like the float table of the data reader.
-/
namespace Lasio.Wo
open Lasio

abbrev F64 := Dw.F64

/-! ## binary64 comparisons -/

/-- `x == y` on binary64 values given as `(-1)^neg · m · 2^e` (not normalised): NaN differs from everything, `-0.0 == 0.0` -/
def feq : F64 → F64 → Bool
  | .finite n1 m1 e1, .finite n2 m2 e2 =>
    (m1 == 0 && m2 == 0) ||
      (n1 == n2 && m1 * 2 ^ (e1 - min e1 e2).toNat == m2 * 2 ^ (e2 - min e1 e2).toNat)
  | .inf a, .inf b => a == b
  | _, _ => false

def fIsZero : F64 → Bool
  | .finite _ m _ => m == 0
  | _ => false

/-- `np.array_equal(a, b)` on 1-D float arrays: same length and all elements `==` (an index holding NaN is never equal) -/
def arrayEqual : List F64 → List F64 → Bool
  | [], [] => true
  | x :: xs, y :: ys => feq x y && arrayEqual xs ys
  | _, _ => false

/-! ## header values and items -/

/-- a header value as far as `write` can tell: `str`, number with its `str()` text, `None` -/
inductive PVal where
  | str (s : Str)
  | num (x : F64) (text : Str)
  | none
deriving DecidableEq, Repr

/-- `not value` -/
def PVal.falsy : PVal → Bool
  | .str s => s.isEmpty
  | .num x _ => fIsZero x
  | .none => true

/-- `value == 0` -/
def PVal.isZero : PVal → Bool
  | .num x _ => fIsZero x
  | _ => false

/-- the value as the header writer `Lasio.Wr` sees it -/
def PVal.toW : PVal → Wr.WVal
  | .str s => Wr.WVal.str s
  | .num x t => Wr.WVal.num t (fIsZero x)
  | .none => Wr.WVal.none

/-- the integer `0` -/
def PVal.intZero : PVal := .num (.finite false 0 0) ['0']

/-- `standardize_value(value, unit)` (writer.py:328-349) with the Python types kept -/
def stdP (v : PVal) (unit : Str) : PVal :=
  let v1 := if !unit.isEmpty && v.falsy && !v.isZero then PVal.intZero else v
  match v1 with
  | .none => .str []
  | w => w

/-- `np.float64 != value`: numeric against a number, `True` against `str` / `None` -/
def pyNe (x : F64) : PVal → Bool
  | .num y _ => !feq x y
  | _ => true

structure OItem where
  orig : Str
  session : Str
  unit : Str
  value : PVal
  descr : Str
deriving DecidableEq, Repr

def OItem.toW (it : OItem) : Wr.WItem := ⟨it.orig, it.session, it.unit, it.value.toW, it.descr⟩

def stdItem (it : OItem) : OItem := { it with value := stdP it.value it.unit }

def mkOItem (o u : Str) (v : PVal) (d : Str) : OItem := ⟨o, useful o, u, v, d⟩

/-- the `HeaderItem` that `write(wrap=True/False)` stores under WRAP -/
def wrapOItem (w : Bool) : OItem :=
  if w then mkOItem "WRAP".toList [] (.str "YES".toList) "Multiple lines per depth step".toList
  else mkOItem "WRAP".toList [] (.str "NO".toList) "One line per depth step".toList

/-! ## `SectionItems` look-ups and `set_item` -/

/-- position of `section[key]` (first item whose SESSION mnemonic compares equal) -/
def keyIdx (tr : Bool) (key : Str) (l : List OItem) : Option Nat :=
  findFirst (fun x => cmpStr tr x.session key) l

/-- `section[key]` -/
def lookup (tr : Bool) (key : Str) (l : List OItem) : Option OItem :=
  l.find? (fun x => cmpStr tr x.session key)

def oRenumber (tr : Bool) (test : Str) : List OItem → Nat → List OItem
  | [], _ => []
  | it :: rest, k =>
    if cmpStr tr (useful it.orig) test then
      { it with session := useful it.orig ++ ':' :: natToStr (k + 1) } :: oRenumber tr test rest (k + 1)
    else it :: oRenumber tr test rest k

/-- `assign_duplicate_suffixes(test)` -/
def oAssignSuffixes (tr : Bool) (test : Str) (items : List OItem) : List OItem :=
  if (items.filter fun it => cmpStr tr (useful it.orig) test).length > 1 then oRenumber tr test items 0 else items

/-- `section[key] = HeaderItem(...)` (same code as `Wr.wSetItem`, on typed items) -/
def oSetItem (tr : Bool) (key : Str) (it : OItem) (items : List OItem) : List OItem :=
  match findFirst (fun x => cmpStr tr key x.session) items with
  | some i => oAssignSuffixes tr (useful it.orig) (items.set i it)
  | none => oAssignSuffixes tr (useful it.orig) (items ++ [it])

/-! ## the object and the options -/

structure WObj where
  version : List OItem
  versionTr : Bool            -- `las.version.mnemonic_transforms` (True for sections built by the reader)
  well : List OItem
  wellTr : Bool
  curves : List OItem
  params : List OItem
  other : Str
  data : List (List F64)      -- column-major, one column per curve; column 0 is the index
  indexInitial : Option (List F64)
deriving DecidableEq, Repr

/-- the keyword arguments of `LASFile.write` other than STRT/STOP/STEP -/
structure WriteCfg where
  version : Option String     -- "1.2" | "2.0" | None
  wrap : Option Bool
  headerWidth : Nat
  fmt : Str
  columnFmt : List (Nat × Str)
  lenNumericField : Option Int
  lhsSpacer : Str
  spacer : Str
  dataWidth : Nat
  dataSectionHeader : Str
  mnemonicsHeader : Bool
deriving Repr

inductive WoErr where
  | raise (e : Err)       -- AttributeError / AssertionError are `Err.other`
  | unmodelled
deriving DecidableEq, Repr

abbrev sSTRT : Str := "STRT".toList
abbrev sSTOP : Str := "STOP".toList
abbrev sSTEP : Str := "STEP".toList
abbrev sWRAP : Str := "WRAP".toList
abbrev sVERS : Str := "VERS".toList
abbrev sNULL : Str := "NULL".toList

/-- `las.index` = `las.curves[0].data` (`none`: no curve, IndexError) -/
def WObj.index (o : WObj) : Option (List F64) := o.data.head?

/-! ## the refresh of STRT / STOP / STEP -/

/-- `index_changed or stop_is_different` (writer.py:115-123).  Errors: `las.index` without curves and
`index_initial[-1]` of an empty array raise IndexError, `las.well.STOP` without such an item AttributeError. -/
def refreshDecision (o : WObj) : Except WoErr Bool :=
  match o.indexInitial with
  | none => .ok true
  | some ii =>
    match o.index with
    | none => .error (.raise .indexError)
    | some idx =>
      match ii.getLast? with
      | none => .error (.raise .indexError)
      | some last =>
        match lookup o.wellTr sSTOP o.well with
        | none => .error (.raise .other)
        | some it => .ok (!arrayEqual ii idx || pyNe last it.value)

/-- `'%.5f' % x` -/
def fmt5 (x : F64) : Str := Dw.fmtFixed 5 x

/-- the three values `update_start_stop_step()` assigns (las.py:593-604); the outer `none` = unmodelled (the step is
needed and the harness supplied no `index[1] - index[0]`).  An empty or absent index leaves all three `None`
(IndexError swallowed); STEP stays `None` for a single sample (`len(self.index) > 1` is the guard since the repair of
the finding "STEP dropped when STOP prints like STRT"). -/
def sssValues (sd : Option F64) : Option (List F64) → Option (PVal × PVal × PVal)
  | none => some (.none, .none, .none)
  | some [] => some (.none, .none, .none)
  | some (x :: xs) =>
    let s := fmt5 x
    let e := fmt5 (xs.getLastD x)
    match xs with
    | [] => some (.str s, .str e, .none)
    | _ :: _ =>
      match sd with
      | some d => some (.str s, .str e, .str (fmt5 d))
      | none => none

/-- the guard BEFORE the repair (`if STOP != STRT` on the two formatted strings); kept to document the defect
(`C16_counterexample_old_step_guard`) -/
def sssValuesOld (sd : Option F64) : Option (List F64) → Option (PVal × PVal × PVal)
  | none => some (.none, .none, .none)
  | some [] => some (.none, .none, .none)
  | some (x :: xs) =>
    let s := fmt5 x
    let e := fmt5 (xs.getLastD x)
    if e != s then
      match xs with
      | [] => some (.str s, .str e, .none)
      | _ :: _ =>
        match sd with
        | some d => some (.str s, .str e, .str (fmt5 d))
        | none => none
    else some (.str s, .str e, .none)

def setValue (v : PVal) (it : OItem) : OItem := { it with value := v }
def setUnit (u : Str) (it : OItem) : OItem := { it with unit := u }

/-- `las.update_start_stop_step()` -/
def updateStartStopStep (sd : Option F64) (o : WObj) : Except WoErr WObj :=
  match keyIdx o.wellTr sSTRT o.well, keyIdx o.wellTr sSTOP o.well, keyIdx o.wellTr sSTEP o.well with
  | some a, some b, some c =>
    match sssValues sd o.index with
    | none => .error .unmodelled
    | some (s, e, p) =>
      .ok { o with well := ((o.well.modify a (setValue s)).modify b (setValue e)).modify c (setValue p) }
  | _, _, _ => .error (.raise .keyError)

/-- the unit `update_units_from_index_curve` spreads: the first curve's when it has one, else STRT's -/
def chosenUnit (o : WObj) : Option Str :=
  match o.curves with
  | c :: _ => if !c.unit.isEmpty then some c.unit else (lookup o.wellTr sSTRT o.well).map (·.unit)
  | [] => (lookup o.wellTr sSTRT o.well).map (·.unit)

def setFirstUnit (u : Str) : List OItem → List OItem
  | [] => []
  | c :: cs => setUnit u c :: cs

/-- `las.update_units_from_index_curve()` -/
def updateUnits (o : WObj) : Except WoErr WObj :=
  match keyIdx o.wellTr sSTRT o.well, keyIdx o.wellTr sSTOP o.well, keyIdx o.wellTr sSTEP o.well, chosenUnit o with
  | some a, some b, some c, some u =>
    .ok { o with well := ((o.well.modify a (setUnit u)).modify b (setUnit u)).modify c (setUnit u),
                 curves := setFirstUnit u o.curves }
  | _, _, _, _ => .error (.raise .keyError)

/-! ## the call -/

/-- `wrap is None`: `las.version["WRAP"]` must exist; `wrap=True/False`: the WRAP item is (re)placed -/
def setWrap (cfg : WriteCfg) (o : WObj) : Except WoErr (List OItem) :=
  match cfg.wrap with
  | none =>
    match keyIdx o.versionTr sWRAP o.version with
    | some _ => .ok o.version
    | none => .error (.raise .keyError)
  | some w => .ok (oSetItem o.versionTr sWRAP (wrapOItem w) o.version)

def f12 : F64 := .finite false 5404319552844595 (-52)
def f20 : F64 := .finite false 2 0

/-- the target version: the keyword, else `las.version["VERS"].value` (looked up AFTER the WRAP item has been placed)
when it is the number 1.2 or 2 -/
def resolveVersion (cfg : WriteCfg) (tr : Bool) (vsec : List OItem) : Except WoErr String :=
  match cfg.version with
  | some v => if v == "1.2" || v == "2.0" then .ok v else .error (.raise .other)
  | none =>
    match lookup tr sVERS vsec with
    | none => .error (.raise .keyError)
    | some it =>
      match it.value with
      | .num x _ => if feq x f12 then .ok "1.2" else if feq x f20 then .ok "2.0" else .error .unmodelled
      | _ => .error .unmodelled

def toWLas (o : WObj) : Wr.WLas :=
  ⟨o.version.map OItem.toW, o.versionTr, o.well.map OItem.toW, o.curves.map OItem.toW, o.params.map OItem.toW, o.other⟩

/-- the object once the header has been written: WRAP (re)placed, ~Well / ~Parameter values standardised in place -/
def afterHeader (cfg : WriteCfg) (o : WObj) : WObj :=
  { o with version := (match cfg.wrap with
                       | none => o.version
                       | some w => oSetItem o.versionTr sWRAP (wrapOItem w) o.version),
           well := o.well.map stdItem, params := o.params.map stdItem }

def dataCfg (cfg : WriteCfg) : Dw.DataCfg :=
  { wrap := cfg.wrap.getD false      -- `wrap=None` compares a HeaderItem with "YES": always False
    fmt := cfg.fmt, columnFmt := cfg.columnFmt, lenNumericField := cfg.lenNumericField, lhsSpacer := cfg.lhsSpacer,
    spacer := cfg.spacer, dataWidth := cfg.dataWidth, headerWidth := cfg.headerWidth,
    dataSectionHeader := cfg.dataSectionHeader, mnemonicsHeader := cfg.mnemonicsHeader }

/-- rows of a column-major matrix whose columns have equal lengths -/
def rowsOf : List (List F64) → List (List F64)
  | [] => []
  | [c] => c.map fun x => [x]
  | c :: cs => List.zipWith (· :: ·) c (rowsOf cs)

def sameLengths : List (List F64) → Bool
  | [] => true
  | c :: cs => cs.all fun d => d.length == c.length

/-- `str(las.well["NULL"].value)`, evaluated only for a NaN cell -/
def nullText (o : WObj) : Except WoErr Str :=
  match lookup o.wellTr sNULL o.well with
  | some it => .ok it.value.toW.text
  | none => if o.data.any (fun c => c.any Dw.F64.isNaN) then .error (.raise .keyError) else .ok []

def liftErr {α} : Except Err α → Except WoErr α
  | .ok a => .ok a
  | .error e => .error (.raise e)

/-- the object after `write`'s preparation (writer.py:115-127): refresh when decided, then units -/
def prepare (sd : Option F64) (o : WObj) : Except WoErr WObj := do
  let d ← refreshDecision o
  let o1 ← if d then updateStartStopStep sd o else pure o
  updateUnits o1

/-- `las.write(f, **cfg)`: the lines written (each followed by a newline in the file) and the object afterwards -/
def writeObj (cfg : WriteCfg) (sd : Option F64) (o : WObj) : Except WoErr (List Str × WObj) := do
  if o.data.length != o.curves.length || !sameLengths o.data then throw WoErr.unmodelled
  let vsec ← setWrap cfg o
  let v ← resolveVersion cfg o.versionTr vsec
  let o2 ← prepare sd o
  let hl ← liftErr (Wr.headerLines v cfg.wrap cfg.headerWidth (toWLas o2))
  let o3 := afterHeader cfg o2
  let null ← nullText o3
  match Dw.dataLines (dataCfg cfg) null (o3.curves.map (·.session)) (rowsOf o3.data) with
  | none => throw WoErr.unmodelled
  | some dl => pure (hl.1 ++ dl, o3)

end Lasio.Wo

/-! ## the STRT / STOP / STEP keyword arguments of `write`

`las.write(f, STRT=.., STOP=.., STEP=..)` hands the three values to `update_start_stop_step` — which is only called when the
refresh is decided.  A value that is not `None` is stored as it is; a `None` is computed from the index as before. -/
namespace Lasio.Wo

/-- the STRT / STOP / STEP keyword arguments (`.none` = not given) -/
structure SssArgs where
  strt : PVal := .none
  stop : PVal := .none
  step : PVal := .none
deriving DecidableEq, Repr

/-- `if X is None: X = computed` -/
def ov (given computed : PVal) : PVal :=
  match given with
  | .none => computed
  | g => g

/-- the three values `update_start_stop_step(STRT, STOP, STEP)` assigns (las.py:593-608).  Without a usable index the first
computed value raises IndexError, which is swallowed: every argument keeps the value it was given (`None` if none). -/
def sssValuesK (k : SssArgs) (sd : Option F64) : Option (List F64) → Option (PVal × PVal × PVal)
  | none => some (k.strt, k.stop, k.step)
  | some [] => some (k.strt, k.stop, k.step)
  | some (x :: xs) =>
    let s := ov k.strt (.str (fmt5 x))
    let e := ov k.stop (.str (fmt5 (xs.getLastD x)))
    match k.step with
    | .none =>
      match xs with
      | [] => some (s, e, .none)
      | _ :: _ =>
        match sd with
        | some d => some (s, e, .str (fmt5 d))
        | none => none
    | p => some (s, e, p)

/-- `las.update_start_stop_step(STRT, STOP, STEP)` -/
def updateStartStopStepK (k : SssArgs) (sd : Option F64) (o : WObj) : Except WoErr WObj :=
  match keyIdx o.wellTr sSTRT o.well, keyIdx o.wellTr sSTOP o.well, keyIdx o.wellTr sSTEP o.well with
  | some a, some b, some c =>
    match sssValuesK k sd o.index with
    | none => .error .unmodelled
    | some (s, e, p) =>
      .ok { o with well := ((o.well.modify a (setValue s)).modify b (setValue e)).modify c (setValue p) }
  | _, _, _ => .error (.raise .keyError)

/-- the object after `write`'s preparation when STRT / STOP / STEP are passed -/
def prepareK (k : SssArgs) (sd : Option F64) (o : WObj) : Except WoErr WObj := do
  let d ← refreshDecision o
  let o1 ← if d then updateStartStopStepK k sd o else pure o
  updateUnits o1

/-- `las.write(f, STRT=.., STOP=.., STEP=.., **cfg)` -/
def writeObjK (k : SssArgs) (cfg : WriteCfg) (sd : Option F64) (o : WObj) : Except WoErr (List Str × WObj) := do
  if o.data.length != o.curves.length || !sameLengths o.data then throw WoErr.unmodelled
  let vsec ← setWrap cfg o
  let v ← resolveVersion cfg o.versionTr vsec
  let o2 ← prepareK k sd o
  let hl ← liftErr (Wr.headerLines v cfg.wrap cfg.headerWidth (toWLas o2))
  let o3 := afterHeader cfg o2
  let null ← nullText o3
  match Dw.dataLines (dataCfg cfg) null (o3.curves.map (·.session)) (rowsOf o3.data) with
  | none => throw WoErr.unmodelled
  | some dl => pure (hl.1 ++ dl, o3)

end Lasio.Wo
