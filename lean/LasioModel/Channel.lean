import LasioModel.Basic
/-
C10: the decision logic lasio itself contributes to "independent of input channel and encoding; reads are pure":
 * `reader.open_file`: a `str` with more than one `splitlines()` line is content, otherwise a file name;
 * `reader.open_with_codecs`: a UTF-8 BOM wins over everything, then the `encoding=` argument, then autodetection;
 * text-mode files deliver universal newlines (`\r\n`, `\r` -> `\n`), strings / StringIO deliver the text as is;
 * `LASFile.__init__` takes its default sections from `defaults.get_default_items()`: fresh objects per call, or not.
Codecs themselves are a runtime service: they appear as parameters with an explicit round-trip hypothesis.
-/
namespace Lasio

/-- the characters at which `str.splitlines()` breaks a line -/
def isLineBreak (c : Char) : Bool :=
  let n := c.toNat
  n == 0x0A || n == 0x0B || n == 0x0C || n == 0x0D || n == 0x1C || n == 0x1D || n == 0x1E || n == 0x85 ||
  n == 0x2028 || n == 0x2029

/-- `str.splitlines()` (keepends = False): `\r\n` is one break; no trailing empty line -/
def pySplitlinesAux : Str → Str → List Str
  | [], cur => if cur.isEmpty then [] else [cur.reverse]
  | '\r' :: '\n' :: t, cur => cur.reverse :: pySplitlinesAux t []
  | c :: t, cur => if isLineBreak c then cur.reverse :: pySplitlinesAux t [] else pySplitlinesAux t (c :: cur)

def pySplitlines (s : Str) : List Str := pySplitlinesAux s []

inductive RefKind where
  | content      -- LAS data given as a string -> StringIO
  | filename     -- a path to open with codecs
  | indexError   -- `lines[0]` on an empty list (empty string)
deriving DecidableEq, Repr

/-- the `isinstance(file_ref, str)` branch of `open_file` (URL test not modelled) -/
def classifyStr (s : Str) : RefKind :=
  match pySplitlines s with
  | [] => .indexError
  | [_] => .filename
  | _ :: _ :: _ => .content

inductive Enc where
  | utf8sig
  | named (e : Str)
  | detect        -- chardet / ad-hoc trial: not modelled
deriving DecidableEq, Repr

/-- `open_with_codecs`: which encoding the file is finally opened with -/
def chooseEncoding (startsWithBom : Bool) (arg : Option Str) : Enc :=
  if startsWithBom then .utf8sig
  else match arg with
    | some e => if e.isEmpty then .detect else .named e
    | none => .detect

/-- universal-newline translation of text-mode files -/
def univNL : Str → Str
  | [] => []
  | '\r' :: '\n' :: t => '\n' :: univNL t
  | '\r' :: t => '\n' :: univNL t
  | c :: t => c :: univNL t

inductive Channel where
  | pathStr | pathObj | fileObj | stringIO | content
deriving DecidableEq, Repr

/-- the text the reader iterates over, given what the codec layer decodes (`decoded`) -/
def deliver (ch : Channel) (t decoded : Str) : Str :=
  match ch with
  | .content | .stringIO => t
  | .pathStr | .pathObj | .fileObj => univNL decoded

/-- split on '\n' only (what `readline`/iteration does after newline translation), terminators dropped -/
def splitLF : Str → List Str
  | [] => [[]]
  | c :: t =>
    if c == '\n' then [] :: splitLF t
    else match splitLF t with
      | [] => [[c]]
      | l :: ls => (c :: l) :: ls

/-! ### object world (purity) -/

/-- a section object on the heap: just its observable contents -/
abbrev SecObj := List Str

structure LasObj where
  secs : List Nat          -- heap ids of the object's sections (Version, Well, Curves, Parameter)
deriving DecidableEq, Repr

structure World where
  heap : List SecObj
  objs : List LasObj
  cache : Option (List Nat)   -- ids handed out by a non-fresh `get_default_items`
deriving Repr

def World.init : World := ⟨[], [], none⟩

def defaultContents : List SecObj :=
  [["VERS".toList, "WRAP".toList, "DLM".toList], ["STRT".toList, "STOP".toList, "STEP".toList, "NULL".toList], [], []]

/-- `LASFile()`: takes its sections from `get_default_items()`; `fresh` says whether that function builds new
objects on every call (read from the source by the translator) -/
def World.newLas (fresh : Bool) (w : World) : World :=
  match fresh, w.cache with
  | false, some ids => { w with objs := w.objs ++ [⟨ids⟩] }
  | _, _ =>
    let n := w.heap.length
    let ids := (List.range defaultContents.length).map (· + n)
    { heap := w.heap ++ defaultContents, objs := w.objs ++ [⟨ids⟩],
      cache := if fresh then w.cache else some ids }

/-- replace the contents of section `k` of object `o` (any in-place mutation of a section) -/
def World.mutate (w : World) (o k : Nat) (v : SecObj) : World :=
  match w.objs[o]? with
  | some ob => match ob.secs[k]? with
    | some id => { w with heap := w.heap.set id v }
    | none => w
  | none => w

/-- `las.read(...)`: every section found in the file is a NEW object; the others keep the object's defaults -/
def World.read (w : World) (o : Nat) (parsed : List (Nat × SecObj)) : World :=
  parsed.foldl (fun w (p : Nat × SecObj) =>
    match w.objs[o]? with
    | some ob =>
      if p.1 < ob.secs.length then
        { w with heap := w.heap ++ [p.2], objs := w.objs.set o ⟨ob.secs.set p.1 w.heap.length⟩ }
      else w
    | none => w) w

def World.observe (w : World) (o : Nat) : List SecObj :=
  match w.objs[o]? with
  | some ob => ob.secs.map fun id => (w.heap[id]?).getD []
  | none => []

inductive WOp where
  | newLas
  | mutate (o k : Nat) (v : SecObj)
  | read (o : Nat) (parsed : List (Nat × SecObj))
deriving Repr

def World.step (fresh : Bool) (w : World) : WOp → World
  | .newLas => w.newLas fresh
  | .mutate o k v => w.mutate o k v
  | .read o parsed => w.read o parsed

def World.run (fresh : Bool) (w : World) (ops : List WOp) : World := ops.foldl (World.step fresh) w

end Lasio
