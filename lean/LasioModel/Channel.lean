import LasioModel.Basic
/- Channel model (to be filled in) -/
namespace Lasio
end Lasio
